/- Box-level workloads for C16. -/
import IbexModel
import Driver.Proto
import Driver.OpsItv
namespace Ibex.Driver
open Ibex Ibex.Proto

def parseBox (s : String) : Option Box :=
  if s == "E" then some [Itv.empty] else (s.splitOn ";").mapM parseItv

def showBox (b : Box) : String :=
  if Box.isEmpty b then "E" else ";".intercalate (b.map showItv)

/-- canonical, order-insensitive rendering of a list of boxes -/
def showBoxes (l : List Box) : String :=
  let ss := (l.map showBox).toArray.qsort (· < ·) |>.toList
  if ss.isEmpty then "-" else "|".intercalate ss

def parseBoxes (s : String) : Option (List Box) :=
  if s == "-" then some [] else (s.splitOn "|").mapM parseBox

def box2Eq (f : Box → Box → String) (ins outs : List String) : Option String :=
  match ins, outs with
  | [x, y], [z] => do
    let x ← parseBox x; let y ← parseBox y
    pure (eqVerdict (f x y) z)
  | _, _ => none

def opsBox (op : String) (ins outs : List String) : Option String :=
  match op with
  | "vinter" => box2Eq (fun x y => showBox (Box.inter x y)) ins outs
  | "vhull" => box2Eq (fun x y => showBox (Box.hull x y)) ins outs
  | "vis_subset" => box2Eq (fun x y => showBool (Box.subset x y)) ins outs
  | "vis_strict_subset" => box2Eq (fun x y => showBool (Box.strictSubset x y)) ins outs
  | "vis_interior_subset" => box2Eq (fun x y => showBool (Box.interiorSubset x y)) ins outs
  | "vis_strict_interior_subset" => box2Eq (fun x y => showBool (Box.strictInteriorSubset x y)) ins outs
  | "vis_relative_interior_subset" => box2Eq (fun x y => showBool (Box.relInteriorSubset x y)) ins outs
  | "vintersects" => box2Eq (fun x y => showBool (Box.intersects x y)) ins outs
  | "voverlaps" => box2Eq (fun x y => showBool (Box.overlaps x y)) ins outs
  | "vis_disjoint" => box2Eq (fun x y => showBool (Box.isDisjoint x y)) ins outs
  | "vdiff" =>
    match ins, outs with
    | [x, y], [z] => do
      let x ← parseBox x; let y ← parseBox y; let z ← parseBoxes z
      pure (eqVerdict (showBoxes (Box.diff x y)) (showBoxes (z.filter (!Box.isEmpty ·))))
    | _, _ => none
  | "vcompl" =>
    match ins, outs with
    | [y], [z] => do
      let y ← parseBox y; let z ← parseBoxes z
      pure (eqVerdict (showBoxes (Box.complementary y)) (showBoxes (z.filter (!Box.isEmpty ·))))
    | _, _ => none
  | "bisect" =>   -- bisect <x> <ratio> => <left> <right>
    match ins, outs with
    | [x, _], [l, r] => do
      let x ← parseItv x; let l ← parseItv l; let r ← parseItv r
      pure (if Box.bisectOk x l r then "ok" else "FAIL halves-not-a-strict-cover")
    | _, _ => none
  | "vbisect" =>  -- vbisect <box> <i> <ratio> => <left> <right>
    match ins, outs with
    | [x, i, _], [l, r] => do
      let x ← parseBox x; let i ← i.toNat?; let l ← parseBox l; let r ← parseBox r
      pure (if Box.boxBisectOk x i l r then "ok" else "FAIL halves-not-a-strict-cover")
    | _, _ => none
  | "is_bisectable" =>
    match ins, outs with
    | [x], [z] => do
      let x ← parseItv x
      pure (eqVerdict (showBool (Box.bisectable x)) z)
    | _, _ => none
  | "bsc" =>  -- bsc <class> <box> <prec;prec;...> => <var|none>
    match ins, outs with
    | [_, x, p], [z] => do
      let x ← parseBox x
      let p ← (p.splitOn ";").mapM parseExt
      let c ← (if z == "none" then some none else z.toNat?.map some)
      pure (if Box.bscOk x p c then (if c.isSome then "ok var" else "ok none") else "FAIL inadmissible-bisector-answer")
    | _, _ => none
  | "cart_prod" =>
    match ins, outs with
    | [x, y], [z] => do
      let x ← parseBox x; let y ← parseBox y
      pure (eqVerdict (showBox (if Box.isEmpty x || Box.isEmpty y then [Itv.empty] else x ++ y)) z)
    | _, _ => none
  | _ => none

end Ibex.Driver
