/- C05 / C06 workloads: solver logs, pavings, verdicts. -/
import IbexModel
import Driver.Proto
import Driver.OpsBox
import Driver.OpsExpr
import Driver.OpsCtc
namespace Ibex.Driver
open Ibex Ibex.Proto Ibex.Cover
open Ibex.Eval (buildCalls)

def parseEv (s : String) : Option Ev :=
  match s.splitOn "~" with
  | ["P", b] => (parseBox b).map Ev.push
  | ["T", b] => (parseBox b).map Ev.top
  | ["O", b] => (parseBox b).map Ev.pop
  | ["C", i, o] => do pure (Ev.ctc (← parseBox i) (← parseBox o))
  | ["F"] => some Ev.flush
  | _ => none

/-- the log with the notes of hook H4 (`X~cell`: cell discarded by `Solver::check_sol` after a certification
    attempt) separated from the events of the replay -/
def parseLog (s : String) : Option (List Ev × List Box) :=
  if s == "-" then some ([], []) else do
    let items ← (s.splitOn ",").mapM fun it =>
      match it.splitOn "~" with
      | ["X", b] => (parseBox b).map fun b => (none, some b)
      | _ => (parseEv it).map fun e => (some e, none)
    pure (items.filterMap (·.1), items.filterMap (·.2))

def parsePaving (s : String) : Option Paving :=
  if s == "-" then some ⟨[], []⟩ else do
    let items ← (s.splitOn ",").mapM fun it =>
      match it.splitOn "~" with
      | ["S", e, u, vs] => do pure (some (← parseBox e), some ((← parseBox e), (← parseBox u), (← parseNatList vs)))
      | [_, b] => do pure (some (← parseBox b), none)
      | _ => none
    pure ⟨items.filterMap (·.1), items.filterMap (·.2)⟩

/-- sample points of the box: every combination of lower bound / midpoint / upper bound on the parameters
    (coordinates outside `vars`), midpoint on the variables; at most 27 points -/
def paramSamples (e : Box) (vars : List Nat) : List (List Rat) :=
  let mid := Verdict.midPoint e
  let choices : List (List Rat) := e.zipIdx.map fun (q : Itv × Nat) =>
    if vars.contains q.2 then [mid.getD q.2 0] else
      match q.1 with
      | .mk (.fin a) (.fin b) => if a == b then [a] else [a, (a + b) / 2, b]
      | _ => [mid.getD q.2 0]
  let all := choices.foldr (fun c acc => c.flatMap fun t => acc.map (t :: ·)) [[]]
  all.take 27

/-- sample points of a box for refutations: corners (dimension ≤ 4), midpoint, and a few dyadic points -/
def solverBoxSamples (b : Box) : List (List Rat) :=
  let ends : List (List Rat) := b.map fun I =>
    match I with
    | .mk (.fin a) (.fin c) => if a == c then [a] else [a, c, (a + c) / 2, (3 * a + c) / 4, (a + 3 * c) / 4]
    | .mk (.fin a) _ => [a]
    | .mk _ (.fin c) => [c]
    | _ => [0]
  let corners := (b.map fun I => match I with
    | .mk (.fin a) (.fin c) => if a == c then [a] else [a, c]
    | .mk (.fin a) _ => [a] | .mk _ (.fin c) => [c] | _ => [0]).foldr (fun c acc => c.flatMap fun t => acc.map (t :: ·)) [[]]
  let diag := (List.range 5).map fun k => ends.map fun e => e.getD k (e.getD 0 0)
  (corners.take 16) ++ diag

/-- an exactly evaluated point of the box that violates a constraint (the box is not inner) -/
def innerRefuted (cs : List ((List Dag × Dag) × String)) (b : Box) : Option (List Rat) :=
  (solverBoxSamples b).find? fun p => Verdict.innerRefutedBy cs b p

/-- every box of a paving with its verdict (C18, resumed search) -/
def parseItems (s : String) : Option (List Item) :=
  if s == "-" then some [] else
    (s.splitOn ",").mapM fun it =>
      match it.splitOn "~" with
      | ["I", b] => do let b ← parseBox b; pure ⟨"I", b, b, [], false⟩
      | ["S", e, u, vs] => do pure ⟨"S", ← parseBox e, ← parseBox u, ← parseNatList vs, true⟩
      | ["B", b] => do let b ← parseBox b; pure ⟨"B", b, b, [], false⟩
      | ["B", b, vs] => do let b ← parseBox b; pure ⟨"B", b, b, ← parseNatList vs, true⟩
      | ["U", b] => do let b ← parseBox b; pure ⟨"U", b, b, [], false⟩
      | ["D", b] => do let b ← parseBox b; pure ⟨"D", b, b, [], false⟩
      | _ => none

/-- diagnosis only (no effect on acceptance): name the call site of a rejected step.  A cell that left the buffer
    without children although it is not in the paving, and that hook H4 reports as discarded by
    `Solver::check_sol` after a certification attempt (Newton existence box disjoint from the cell, or violating
    an inequality), is the recorded finding; any other dropped cell keeps the generic message. -/
def refineError (notes : List Box) (evs : List Ev) (pv : Paving)
    (cert : Box → Box × Box × List Nat → Bool) (e : String) : String :=
  if !(e.startsWith "cell dropped") then e else
  -- the offending cell: the last pop before the first rejected prefix
  let k := (List.range (evs.length + 1)).find? fun k =>
    match (evs.take k).foldlM (Cover.step cert pv) Cover.St.init with
    | .error _ => true
    | .ok _ => false
  let pre := match k with | some k => evs.take (k - 1) | none => evs
  let lastPop := pre.foldl (fun (acc : Option Box) ev => match ev with | .pop b => some b | _ => acc) none
  match lastPop with
  | some b => if notes.any (fun c => Cover.sameBox c b) then
      "cell discarded after a certification attempt without uniqueness certificate (reported by check_sol)" else e
  | none => e

def opsSolver (op : String) (ins outs : List String) : Option String :=
  match op, ins, outs with
  | "solvelog", [dags, specs, root, evs, pv, eps, _], [_] => do
    let eps ← (eps.splitOn ";").mapM parseExt
    let ds ← (dags.splitOn "|").mapM parseProgram
    let ss := specs.splitOn "|"
    let eqs := ((List.zip ds ss).filter fun x => x.2 == "eq").map (·.1)
    let cert : Box → Box × Box × List Nat → Bool := fun c eu => Newton.replaceCert eqs c eu.1 eu.2.2
    let root ← parseBox root
    let (evs, notes) ← parseLog evs
    -- the solver empties its buffer before pushing the root
    let evs := evs.dropWhile fun e => match e with | .flush => true | _ => false
    let pv ← parsePaving pv
    match evs with
    | .push b :: _ =>
      if !(b == root) then pure "FAIL first-pushed-box-is-not-the-initial-box" else
      match Cover.check cert pv evs with
      | .ok k =>
        -- measured, not judged: is the real log, event for event, a run of the modelled loop (`SearchLoop.loopShaped`)?
        let shape := if SearchLoop.loopShaped evs then "loop-shaped" else "other-shape"
        pure (if k == 0 then s!"ok log-accepted {shape}" else s!"ok log-accepted-with-uniqueness-certificates {k} {shape}")
      | .error e =>
        -- locate the first offending event for the replay
        let k := (List.range (evs.length + 1)).find? fun k =>
          match (evs.take k).foldlM (Cover.step cert pv) Cover.St.init with
          | .error _ => true
          | .ok _ => false
        let e := refineError notes evs pv cert e
        pure ("FAIL " ++ e.replace " " "-" ++ s!" at-event={k}")
    | _ => pure "FAIL log-does-not-start-with-the-root"
  | "resumeload", [saved], [loaded] => do
    let a ← parseItems saved
    let b ← parseItems loaded
    pure (if a == b then s!"ok loaded-identical" else "FAIL loaded-paving-differs-from-the-saved-one")
  | "resumelog", [dags, specs, prev, evs, new, eps, _], [_] => do
    let eps ← (eps.splitOn ";").mapM parseExt
    let ds ← (dags.splitOn "|").mapM parseProgram
    let ss := specs.splitOn "|"
    let eqs := ((List.zip ds ss).filter fun x => x.2 == "eq").map (·.1)
    let cert : Box → Box × Box × List Nat → Bool := fun c eu => Newton.replaceCert eqs c eu.1 eu.2.2
    let prev ← parseItems prev
    let new ← parseItems new
    let (evs, notes) ← parseLog evs
    let evs := evs.dropWhile fun e => match e with | .flush => true | _ => false
    if Cover.stageOk cert prev new evs then
      let nv := (prev.filter (·.validated)).length
      let nr := prev.length - nv
      pure s!"ok resumed carried={if nv == 0 then "0" else if nv < 4 then "few" else "many"} requeued={if nr == 0 then "0" else if nr < 4 then "few" else "many"}"
    else
      let roots := Cover.leadingPushes evs
      match prev.find? (fun it => it.validated && !(decide (it ∈ new))) with
      | some it => pure s!"FAIL validated-box-not-carried-over-unchanged kind={it.kind} box={showBox it.box}"
      | none =>
      match prev.find? (fun it => !it.validated && !(decide (it.box ∈ roots)) && !(decide (it.box ∈ new.map (·.box)))) with
      | some it => pure s!"FAIL unknown-or-pending-box-not-requeued kind={it.kind} box={showBox it.box}"
      | none =>
      match Cover.check cert (Cover.pavingOf new) evs with
      | .ok _ => pure "FAIL stage-rejected"
      | .error e =>
        let e := refineError notes evs (Cover.pavingOf new) cert e
        pure ("FAIL resumed-log-rejected:" ++ e.replace " " "-")
  | "solbox", [dags, specs, root, e, u, vars, pts], _ => do
    let ds ← (dags.splitOn "|").mapM parseProgram
    let ss := specs.splitOn "|"
    if ds.length != ss.length then none else
    let eqs := ((List.zip ds ss).filter fun x => x.2 == "eq").map (·.1)
    let ineqs := (List.zip ds ss).filter fun x => x.2 != "eq"
    let root ← parseBox root
    let e ← parseBox e
    let u ← parseBox u
    let vars ← parseNatList vars
    let zs ← (pts.splitOn "|").mapM parsePoint
    if !(Box.subset e root) then pure "FAIL solution-box-not-inside-the-initial-box" else
    if !(Cover.innerOk ineqs e) && !(Verdict.innerOkX ineqs e) && (innerRefuted ineqs e).isSome then
      pure "FAIL solution-box-contains-a-point-violating-an-inequality" else
    if zs.any (fun q => Verdict.refutedOutside eqs e u vars q) then
      pure "FAIL known-zero-in-the-unicity-box-outside-the-existence-box" else
    if zs.any (fun p => zs.any fun q => Verdict.refutedTwo eqs e vars p q) then
      pure "FAIL two-known-zeros-in-one-existence-box" else
    let square := vars.length == e.length
    if (paramSamples e vars).any (fun w => Verdict.refutedSlice eqs e vars w 3) then
      pure "FAIL no-zero-in-the-existence-box-for-a-parameter-value" else
    match Verdict.findCert eqs e u vars 5 with
    | some k => pure s!"ok solution {if square then "square" else "under-constrained"} exactly-one-zero-certified shrink={k}"
    | none =>
    if !square && Verdict.certifiedSplit eqs e u vars 3 then
      pure "ok solution under-constrained exactly-one-zero-certified parameter-ranges-subdivided" else
    -- the same certificates evaluated with EXACT rational interval arithmetic (sharp on boxes a few ulps wide)
    match Verdict.findCertX eqs e u vars 3 with
    | some k => pure s!"ok solution {if square then "square" else "under-constrained"} exactly-one-zero-certified exact-arithmetic shrink={k}"
    | none =>
    let uniq := Box.subset e u && Newton.uniqueCertVars eqs u vars
    let exKnown := zs.any fun p => Verdict.ratZero eqs p && Verdict.ratIn p e
    let tagU := if uniq then "uniqueness-certified" else "uniqueness-uncertified"
    let tagE := if square && exKnown then "existence-by-known-zero" else "existence-uncertified"
    pure s!"ok solution {if square then "square" else "under-constrained"} {tagU} {tagE}"
  | "solvept", [dags, specs, pt, pv, notes, _], _ => do
    let ds ← (dags.splitOn "|").mapM parseProgram
    let ss := specs.splitOn "|"
    if ds.length != ss.length then none else
    let p ← parsePoint pt
    let pv ← parsePaving pv
    let sats := (List.zip ds ss).map fun (x : (List Dag × Dag) × String) =>
      match Eval.root Alg.rat p (buildCalls Alg.rat x.1.1) x.1.2 with
      | none => none
      | some v => specSat x.2 v
    if sats.any (· == none) then pure "ok undefined-or-unsupported"
    else if sats.all (· == some true) then
      let covered := pv.boxes.any fun b => !Box.isEmpty b && b.length == p.length && (List.zip p b).all fun q => ratIn q.1 q.2
      let discarded := notes != "-" && (notes.splitOn "|").any fun t =>
        match parseBox t with | some c => Verdict.ratIn p c | none => false
      let replaced := notes != "-" && (notes.splitOn "|").any fun t =>
        t.startsWith "R" && (match parseBox (t.drop 1).toString with | some c => Verdict.ratIn p c | none => false)
      pure (if covered then "ok solution-covered"
            else if replaced then "FAIL solution-not-in-the-paving: it lies in a cell replaced by check_sol by the existence box of a certified solution".replace " " "-"
            else if discarded then "FAIL solution-not-in-the-paving: it lies in a cell discarded by check_sol after a certification attempt".replace " " "-"
            else "FAIL solution-not-in-the-paving")
    else pure "ok infeasible"
  | "solveinner", [dags, specs, box], _ => do
    let ds ← (dags.splitOn "|").mapM parseProgram
    let ss := specs.splitOn "|"
    if ds.length != ss.length then none else
    let b ← parseBox box
    -- certified by the model's interval evaluation; refuted by an exactly evaluated infeasible point of the box;
    -- otherwise undecided (the library may evaluate a simplified expression with fewer roundings than the model)
    if Cover.innerOk (List.zip ds ss) b then pure "ok inner-certified" else
    if Verdict.innerOkX (List.zip ds ss) b then pure "ok inner-certified exact-arithmetic" else
    match innerRefuted (List.zip ds ss) b with
    | some p => pure s!"FAIL inner-box-contains-an-infeasible-point pt={p}"
    | none => pure "ok inner-uncertified"
  | "solveunknown", [box, eps], _ => do
    let b ← parseBox box
    let eps ← (eps.splitOn ";").mapM parseExt
    let ok := Cover.unknownSmall b eps
    pure (if ok then "ok unknown-small" else "FAIL unknown-box-wider-than-eps-min")
  | "solvestatus", [st, nsol, nbnd, nunk, npend, ninner, _], _ => do
    let nsol ← nsol.toNat?; let nbnd ← nbnd.toNat?; let nunk ← nunk.toNat?; let npend ← npend.toNat?; let ninner ← ninner.toNat?
    let ok := Cover.statusOk st nsol nbnd nunk npend ninner
    pure (if ok then "ok status-" ++ st else "FAIL status-disagrees-with-output")
  | "defaultsolver", [_], [st] =>
    pure (if st.startsWith "ABORT" then "FAIL default-solver-aborted" else "ok default-solver-" ++ st)
  | _, _, _ => none

end Ibex.Driver
