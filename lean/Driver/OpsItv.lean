/- Interval-level workloads: C01 forward operators, C16 set algebra. -/
import IbexModel
import Driver.Proto
namespace Ibex.Driver
open Ibex Ibex.Proto

/-- verdict for an enclosure check: impl ⊇ model, impl empty only if model empty -/
def enclVerdict (model impl : Itv) : String :=
  if Itv.enclOk model impl then
    (if model == impl then "ok tight" else if model.isEmpty then "ok wider-than-empty" else "ok wider")
  else if !impl.WF then "FAIL impl-not-wf model=" ++ showItv model
  else "FAIL not-enclosing model=" ++ showItv model

def eqVerdict (model impl : String) : String :=
  if model == impl then "ok" else "FAIL expected=" ++ model

def un (f : Itv → Itv) (ins outs : List String) : Option String :=
  match ins, outs with
  | [x], [z] => do
    let x ← parseItv x; let z ← parseItv z
    pure (enclVerdict (f x) z)
  | _, _ => none

def bin (f : Itv → Itv → Itv) (ins outs : List String) : Option String :=
  match ins, outs with
  | [x, y], [z] => do
    let x ← parseItv x; let y ← parseItv y; let z ← parseItv z
    pure (enclVerdict (f x y) z)
  | _, _ => none

def binEq (f : Itv → Itv → String) (ins outs : List String) : Option String :=
  match ins, outs with
  | [x, y], [z] => do
    let x ← parseItv x; let y ← parseItv y
    pure (eqVerdict (f x y) z)
  | _, _ => none

def opsItv (op : String) (ins outs : List String) : Option String :=
  match op with
  -- C01: enclosure
  | "add" => bin Itv.add ins outs
  | "sub" => bin Itv.sub ins outs
  | "mul" => bin Itv.mul ins outs
  | "div" => bin Itv.div ins outs
  | "neg" => un Itv.neg ins outs
  | "sqr" => un Itv.sqr ins outs
  | "sqrt" => un Itv.sqrt ins outs
  | "abs" => un Itv.abs ins outs
  | "max" => bin Itv.max ins outs
  | "min" => bin Itv.min ins outs
  | "sign" => un Itv.sign ins outs
  | "floor" => un Itv.floor ins outs
  | "ceil" => un Itv.ceil ins outs
  | "integer" => un Itv.integer ins outs
  | "pow" =>
    match ins, outs with
    | [x, n], [z] => do
      let x ← parseItv x; let n ← n.toInt?; let z ← parseItv z
      pure (enclVerdict (Itv.powInt x n) z)
    | _, _ => none
  -- C01: elementary functions against a point oracle (last input token = oracle hull)
  | "encl" =>
    match ins.getLast?, outs with
    | some o, [z] =>
      match parseItv o, parseItv z with
      | some o, some z =>
        some (if Itv.enclOk o z then (if o.isEmpty then "ok no-sample-in-domain" else if z == o then "ok tight" else "ok wider")
              else if !z.WF then "FAIL impl-not-wf"
              else "FAIL sample-image-outside-result")
      | some _, none => some "FAIL impl-bound-not-a-number"
      | _, _ => none
    | _, _ => none
  | "touch" =>
    match ins.getLast?, outs with
    | some o, [z] =>
      match parseItv o, parseItv z with
      | some o, some z => some (if Itv.intersects o z then "ok touch" else "FAIL sample-image-outside-result")
      | some _, none => some "FAIL impl-bound-not-a-number"
      | _, _ => none
    | _, _ => none
  | "div2" =>
    match ins, outs with
    | [x, y], [o1, o2] => do
      let x ← parseItv x; let y ← parseItv y
      match parseItv o1, parseItv o2 with
      | some o1, some o2 =>
        pure (if Itv.div2Ok x y o1 o2 then (if (Itv.div2G Rnd.dbl x y).length == 2 then "ok two-pieces" else "ok one-piece")
              else "FAIL quotient-piece-not-enclosed")
      | _, _ => pure "FAIL impl-bound-not-a-number"
    | _, _ => none
  | "div2i" =>
    match ins, outs with
    | [x, y, z0], [o1, o2] => do
      let x ← parseItv x; let y ← parseItv y; let z0 ← parseItv z0
      match parseItv o1, parseItv o2 with
      | some o1, some o2 =>
        let ok := o1.WF && o2.WF && Itv.subset o1 z0 && Itv.subset o2 z0 &&
          (Itv.div2G Rnd.dbl x y).all fun p => let q := Itv.inter z0 p; Itv.subset q o1 || Itv.subset q o2
        pure (if ok then "ok div2-inter" else "FAIL quotient-piece-not-enclosed")
      | _, _ => pure "FAIL impl-bound-not-a-number"
    | _, _ => none
  | "roundmode" => some "FAIL rounding-mode-not-upward-after-call"
  -- C16: set algebra, exact
  | "inter" => binEq (fun x y => showItv (Itv.inter x y)) ins outs
  | "hull" => binEq (fun x y => showItv (Itv.hull x y)) ins outs
  | "is_subset" => binEq (fun x y => showBool (Itv.subset x y)) ins outs
  | "is_strict_subset" => binEq (fun x y => showBool (Itv.strictSubset x y)) ins outs
  | "is_interior_subset" => binEq (fun x y => showBool (Itv.interiorSubset x y)) ins outs
  | "is_strict_interior_subset" => binEq (fun x y => showBool (Itv.strictInteriorSubset x y)) ins outs
  | "is_relative_interior_subset" => binEq (fun x y => showBool (Itv.relInteriorSubset x y)) ins outs
  | "intersects" => binEq (fun x y => showBool (Itv.intersects x y)) ins outs
  | "overlaps" => binEq (fun x y => showBool (Itv.overlaps x y)) ins outs
  | "is_disjoint" => binEq (fun x y => showBool (Itv.isDisjoint x y)) ins outs
  | "diff" => binEq (fun x y => showItvList (Itv.diff x y)) ins outs
  | "compl" =>
    match ins, outs with
    | [x], [z] => do
      let x ← parseItv x
      pure (eqVerdict (showItvList (Itv.complementary x)) z)
    | _, _ => none
  | "contains" =>
    match ins, outs with
    | [x, d], [z] => do
      let x ← parseItv x; let d ← parseExt d
      pure (eqVerdict (showBool (Itv.containsExt x d)) z)
    | _, _ => none
  | _ => none

end Ibex.Driver
