/- Line protocol helpers for the driver (parsing tokens, printing). -/
import IbexModel
namespace Ibex.Proto
open Ibex

/-- interval token: `E` or `<hex16>:<hex16>` -/
def parseItv (s : String) : Option Itv :=
  if s == "E" then some .empty else
  match s.splitOn ":" with
  | [l, h] =>
    match parseDbl l, parseDbl h with
    | some (.val a), some (.val b) => some (.mk a b)
    | _, _ => none
  | _ => none

def showItv : Itv → String
  | .empty => "E"
  | .mk a b => a.toHex ++ ":" ++ b.toHex

def parseExt (s : String) : Option Ext :=
  match parseDbl s with
  | some (.val a) => some a
  | _ => none

def parseRatDbl (s : String) : Option Rat :=
  match parseDbl s with
  | some (.val (.fin q)) => some q
  | _ => none

def parseBool (s : String) : Option Bool :=
  if s == "1" then some true else if s == "0" then some false else none

def showBool (b : Bool) : String := if b then "1" else "0"

/-- box token: `E` (empty box) or intervals joined by `;`  -/
def parseItvList (s : String) : Option (List Itv) :=
  if s == "-" then some [] else
  (s.splitOn ";").mapM parseItv

def showItvList (l : List Itv) : String :=
  if l.isEmpty then "-" else ";".intercalate (l.map showItv)

end Ibex.Proto
