import IbexModel
import Driver.Proto
import Driver.OpsItv
import Driver.OpsBox
import Driver.OpsBwd
import Driver.OpsExpr
import Driver.OpsCtc
import Driver.OpsSym
import Driver.OpsCov
import Driver.OpsBuf
import Driver.OpsSolver
import Driver.OpsEquiv
import Driver.OpsComb
open Ibex Ibex.Proto

def dispatch (op : String) (ins outs : List String) : String :=
  match Ibex.Driver.opsItv op ins outs with
  | some r => r
  | none =>
  match Ibex.Driver.opsBox op ins outs with
  | some r => r
  | none =>
  match Ibex.Driver.opsBwd op ins outs with
  | some r => r
  | none =>
  match Ibex.Driver.opsExpr op ins outs with
  | some r => r
  | none =>
  match Ibex.Driver.opsCtc op ins outs with
  | some r => r
  | none =>
  match Ibex.Driver.opsSym op ins outs with
  | some r => r
  | none =>
  match Ibex.Driver.opsCov op ins outs with
  | some r => r
  | none =>
  match Ibex.Driver.opsBuf op ins outs with
  | some r => r
  | none =>
  match Ibex.Driver.opsSolver op ins outs with
  | some r => r
  | none =>
  match Ibex.Driver.opsEquiv op ins outs with
  | some r => r
  | none =>
  match Ibex.Driver.opsComb op ins outs with
  | some r => r
  | none => "bad-op"

def step (line : String) : String :=
  let line := line.trimAscii.toString
  match line.splitOn " => " with
  | [l, r] =>
    match (l.splitOn " ").filter (· ≠ "") with
    | op :: ins => dispatch op ins ((r.splitOn " ").filter (· ≠ ""))
    | [] => "bad-op"
  | [l] =>
    match (l.splitOn " ").filter (· ≠ "") with
    | op :: ins => dispatch op ins []
    | [] => "bad-op"
  | _ => "bad-op"

partial def loop (h : IO.FS.Stream) (out : IO.FS.Stream) : IO Unit := do
  let line ← h.getLine
  if line.isEmpty then return ()
  out.putStrLn (step line)
  loop h out

def main : IO Unit := do
  let out ← IO.getStdout
  loop (← IO.getStdin) out
  out.flush
