import IbexModel
import Driver.Proto
import Driver.OpsItv
import Driver.OpsBox
import Driver.OpsBwd
import Driver.OpsExpr
import Driver.OpsCtc
import Driver.OpsSym
import Driver.OpsCov
import Driver.OpsBuf
import Driver.OpsSolver
import Driver.OpsEquiv
import Driver.OpsComb
import Driver.OpsSet
import Driver.OpsNewton
import Driver.OpsLin
import Driver.OpsSys
import Driver.OpsLinAlg
import Driver.OpsOptim
import Driver.OpsInner
import Driver.OpsMinibex
open Ibex Ibex.Proto

/-- the handlers, tried in order (each returns `none` for an op it does not know) -/
def handlers : List (String → List String → List String → Option String) :=
  [Ibex.Driver.opsItv, Ibex.Driver.opsBox, Ibex.Driver.opsBwd, Ibex.Driver.opsExpr, Ibex.Driver.opsCtc,
   Ibex.Driver.opsSym, Ibex.Driver.opsCov, Ibex.Driver.opsBuf, Ibex.Driver.opsSolver, Ibex.Driver.opsEquiv,
   Ibex.Driver.opsComb, Ibex.Driver.opsSet, Ibex.Driver.opsNewton, Ibex.Driver.opsLin, Ibex.Driver.opsSys, Ibex.Driver.LA.opsLinAlg, Ibex.Driver.opsOptim, Ibex.Driver.IN.opsInner, Ibex.Driver.opsMinibex]

def dispatch (op : String) (ins outs : List String) : String :=
  (handlers.findSome? fun h => h op ins outs).getD "bad-op"

def step (line : String) : String :=
  let line := line.trimAscii.toString
  match line.splitOn " => " with
  | [l, r] =>
    match (l.splitOn " ").filter (· ≠ "") with
    | op :: ins => dispatch op ins ((r.splitOn " ").filter (· ≠ ""))
    | [] => "bad-op"
  | [l] =>
    match (l.splitOn " ").filter (· ≠ "") with
    | op :: ins => dispatch op ins []
    | [] => "bad-op"
  | _ => "bad-op"

partial def loop (h : IO.FS.Stream) (out : IO.FS.Stream) : IO Unit := do
  let line ← h.getLine
  if line.isEmpty then return ()
  out.putStrLn (step line)
  loop h out

def main : IO Unit := do
  let out ← IO.getStdout
  loop (← IO.getStdin) out
  out.flush
