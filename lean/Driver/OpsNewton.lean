/- C09 workloads: contracting / inflating Newton, Hansen feasibility test. -/
import IbexModel
import Driver.Proto
import Driver.OpsBox
import Driver.OpsExpr
import Driver.OpsCtc
import Driver.OpsSolver
namespace Ibex.Driver
open Ibex Ibex.Proto Ibex.Verdict

def parseZeros (s : String) : Option (List (List Rat)) :=
  if s == "-" then some [] else (s.splitOn "|").mapM parsePoint

/-- all the sub-lists of size k of 0..n-1 (n ≤ 4) -/
def subsetsOf (n k : Nat) : List (List Nat) :=
  ((List.range n).foldl (fun (acc : List (List Nat)) i => acc ++ acc.map (· ++ [i])) [[]]).filter (·.length == k)

/-- search for a certificate that the box `s` contains a zero (untrusted search, verified rule) -/
def findZeroCert (eqs : List (List Dag × Dag)) (s : Box) : Bool :=
  let n := s.length
  (subsetsOf n eqs.length).any fun vars =>
    (List.range 4).any fun k =>
      let x := Verdict.shrink s vars k
      Verdict.hasZeroBy eqs s x vars (Verdict.midPoint x)

/-- the same with exact rational interval arithmetic -/
def findZeroCertX (eqs : List (List Dag × Dag)) (s : Box) : Bool :=
  let n := s.length
  (subsetsOf n eqs.length).any fun vars =>
    (List.range 2).any fun k =>
      let x := Verdict.shrink s vars k
      Verdict.hasZeroByX eqs s x vars (Verdict.midPoint x)

def opsNewton (op : String) (ins outs : List String) : Option String :=
  match op, ins, outs with
  | "newtonctc", [dags, vars, box, zs], [out, _, variant] => do
    let eqs ← (dags.splitOn "|").mapM parseProgram
    let vars ← parseNatList vars
    let i ← parseBox box
    let o ← parseBox out
    let zs ← parseZeros zs
    if !(Box.isEmpty o) && !(Box.subset o i) then pure "FAIL contracted-box-not-inside-the-box" else
    match zs.find? (fun z => Verdict.lostZero eqs i o z) with
    | some _ => pure s!"FAIL zero-removed-by-{variant}"
    | none =>
      let square := vars.length == i.length
      let known := zs.filter fun z => Verdict.ratZero eqs z && Verdict.ratIn z i
      let contracted := !(o == i)
      let tagC := if Box.isEmpty o then "emptied" else if contracted then "contracted" else "unchanged"
      if square && known.any (fun z => Verdict.keptAllBy eqs i o z) then pure s!"ok all-zeros-kept-certified {tagC}"
      else if !known.isEmpty then pure s!"ok known-zeros-kept {tagC}"
      else if Verdict.noZero eqs 3 i then pure s!"ok no-zero-in-the-box-certified {tagC}"
      else pure s!"ok no-known-zero {tagC}"
  | "newtoninfl", [dags, vars, _, zs], [ret, e, u] => do
    let eqs ← (dags.splitOn "|").mapM parseProgram
    let vars ← parseNatList vars
    let zs ← parseZeros zs
    if ret == "0" then pure "ok no-claim" else
    let e ← parseBox e
    let u ← parseBox u
    if Box.isEmpty e then pure "FAIL success-with-an-empty-existence-box" else
    if zs.any (fun q => Verdict.refutedOutside eqs e u vars q) then
      pure "FAIL known-zero-in-the-unicity-box-outside-the-existence-box" else
    if zs.any (fun p => zs.any fun q => Verdict.refutedTwo eqs e vars p q) then
      pure "FAIL two-known-zeros-in-one-existence-box" else
    if (paramSamples e vars).any (fun w => Verdict.refutedSlice eqs e vars w 3) then
      pure "FAIL no-zero-in-the-existence-box-for-a-parameter-value" else
    let square := vars.length == e.length
    let kind := if square then "square" else "with-parameters"
    match Verdict.findCert eqs e u vars 5 with
    | some k => pure s!"ok exactly-one-zero-certified {kind} shrink={k}"
    | none =>
      if !square && Verdict.certifiedSplit eqs e u vars 3 then
        pure "ok exactly-one-zero-certified with-parameters parameter-ranges-subdivided" else
      match Verdict.findCertX eqs e u vars 3 with
      | some k => pure s!"ok exactly-one-zero-certified {kind} exact-arithmetic shrink={k}"
      | none =>
      let uniq := Box.subset e u && Newton.uniqueCertVars eqs u vars
      let exKnown := zs.any fun p => Verdict.ratZero eqs p && Verdict.ratIn p e
      pure s!"ok {kind} {if uniq then "uniqueness-certified" else "uniqueness-uncertified"} {if square && exKnown then "existence-by-known-zero" else "existence-uncertified"}"
  | "hansenfeas", [dags, _, _, zs], [res, sol] => do
    let eqs ← (dags.splitOn "|").mapM parseProgram
    let zs ← parseZeros zs
    if res != "YES" then pure s!"ok no-claim-{res}" else
    let s ← parseBox sol
    if Box.isEmpty s then pure "FAIL feasible-with-an-empty-box" else
    if Verdict.noZero eqs 4 s then pure "FAIL feasibility-claimed-on-a-box-without-any-zero" else
    if zs.any (fun z => Verdict.ratZero eqs z && Verdict.ratIn z s) then pure "ok feasible-known-zero-inside" else
    if findZeroCert eqs s then pure "ok feasible-certified"
    else if findZeroCertX eqs s then pure "ok feasible-certified exact-arithmetic"
    else pure "ok feasible-uncertified"
  | "certify", [obj, dags, specs, _, _, zs, _], [res, sol, loup] => do
    -- LoupFinderCertify: a returned box must contain a point satisfying the equalities exactly and every inequality,
    -- with goal ≤ the returned value
    if res != "FOUND" then pure "ok certify-no-claim" else
    let obj ← parseProgram obj
    let cs ← (dags.splitOn "|").mapM parseProgram
    let ss := specs.splitOn "|"
    if cs.length != ss.length then none else
    let s ← parseBox sol
    let l ← parseExt loup
    let zs ← parseZeros zs
    let whole : Box := s.map fun _ => Itv.mk .ninf .pinf        -- (the box may leave the declared domain: it must only meet it)
    let P : Optim.Problem := ⟨obj, List.zip cs ss, whole, 0⟩
    if Box.isEmpty s then pure "FAIL certified-box-is-empty" else
    if Optim.witBoxRefuted P true l s then
      let j := (List.range P.ctrs.length).find? fun j => match P.ctrs[j]? with
        | some c => (match Optim.itvVal c.1 s with | some z => Optim.specRefuted 0 true c.2 z | none => false)
        | none => false
      pure (match j with
            | some j => s!"FAIL certified-box-violates-constraint-{j}-at-every-point"
            | none => "FAIL goal-on-the-certified-box-exceeds-the-returned-value")
    else
    let eqs := (P.ctrs.filter (·.2 == "eq")).map (·.1)
    if !eqs.isEmpty && Verdict.noZero eqs 4 s then pure "FAIL certified-box-without-any-zero-of-the-equalities" else
    if zs.any (fun z => Verdict.ratIn z s && Optim.feasQ P z) then pure "ok certify-known-feasible-point-inside" else
    let ineqProved := P.ctrs.all fun c => c.2 == "eq" ||
      (match Optim.itvVal c.1 s with | some z => Optim.specProved 0 c.2 z | none => false)
    if ineqProved && eqs.length ≤ s.length && (eqs.isEmpty || findZeroCert eqs s) then pure "ok certify-certified"
    else if ineqProved && eqs.length ≤ s.length && findZeroCertX eqs s then pure "ok certify-certified exact-arithmetic"
    else pure "ok certify-uncertified"
  | _, _, _ => none

end Ibex.Driver
