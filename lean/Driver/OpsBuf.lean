/-
  C17 — one line per whole operation history of one buffer object:

    buf:<label> <kind> <critpr> <beam> <capacity> <lbFirst> <ev_1> ... <ev_n> => <obs_1> ... <obs_n>

  kind ∈ stack | list | heap | dheap | beam.  Event tokens (left) and what the implementation
  answered (right, same position):
    P:<id>:<c1>:<c2>:<lb>      push, costs as returned by the real cost functions     1 stored / 0 overflow
    O | O1 | O2                pop() / pop1() / pop2()                <heap>:<id>[:<moved ids joined by +>]
    T | T1 | T2                top() / top1() / top2()                <heap>:<id>
    M | M2                     minimum() / minimum2()                 <hex>
    C:<loup>                   contract(loup)                         destroyed ids (ascending, + joined) or -
    F                          flush()                                destroyed ids or -
    S / E                      size() / empty()                       n / 0|1
    R<crit>:<id>=<cost>+...    costs of criterion crit re-evaluated   -
    X:<id>                     SharedHeap::erase_node of that cell    -
    Y0 | Y1                    internal binary heap of criterion 1 / 2 in array (level) order   <ids + joined>
    Q                          double heap: cells of each internal heap      <ids of heap 1>/<ids of heap 2>
-/
import IbexModel
import Driver.Proto
namespace Ibex.Driver
open Ibex Ibex.Proto Ibex.Buffers

def parseIds (s : String) : Option (List Nat) :=
  if s == "-" then some [] else (s.splitOn "+").mapM (·.toNat?)

def parseKind : String → Option Kind
  | "stack" => some .stack | "list" => some .list | "heap" => some .heap
  | "dheap" => some .dheap | "beam" => some .beam | _ => none

def parseRecost (s : String) : Option (List (Nat × Ext)) :=
  if s == "-" then some [] else
  (s.splitOn "+").mapM fun p =>
    match p.splitOn "=" with
    | [i, c] => do let i ← i.toNat?; let c ← parseExt c; pure (i, c)
    | _ => none

def parseWhichId (o : String) : Option (Nat × Nat × List Nat) :=
  match o.splitOn ":" with
  | [w, i] => do let w ← w.toNat?; let i ← i.toNat?; pure (w, i, [])
  | [w, i, m] => do let w ← w.toNat?; let i ← i.toNat?; let m ← parseIds m; pure (w, i, m)
  | _ => none

def parseEvent (e o : String) : Option Event :=
  match e.splitOn ":" with
  | ["P", i, c1, c2, lb] => do
      let i ← i.toNat?; let c1 ← parseExt c1; let c2 ← parseExt c2; let lb ← parseExt lb
      let st ← parseBool o
      pure (.push { id := i, c1 := c1, c2 := c2, lb := lb, tag := 0 } st)
  | ["O"] => do let (w, i, m) ← parseWhichId o; pure (.pop 0 w i m)
  | ["O1"] => do let (w, i, m) ← parseWhichId o; pure (.pop 1 w i m)
  | ["O2"] => do let (w, i, m) ← parseWhichId o; pure (.pop 2 w i m)
  | ["T"] => do let (w, i, m) ← parseWhichId o; if m.isEmpty then pure (.top 0 w i) else none
  | ["T1"] => do let (w, i, m) ← parseWhichId o; if m.isEmpty then pure (.top 1 w i) else none
  | ["T2"] => do let (w, i, m) ← parseWhichId o; if m.isEmpty then pure (.top 2 w i) else none
  | ["M"] => do let v ← parseExt o; pure (.minimum 0 v)
  | ["M2"] => do let v ← parseExt o; pure (.minimum 1 v)
  | ["C", l] => do let l ← parseExt l; let d ← parseIds o; pure (.contract l d)
  | ["F"] => do let d ← parseIds o; pure (.flush d)
  | ["S"] => do let n ← o.toNat?; pure (.size n)
  | ["E"] => do let b ← parseBool o; pure (.empty b)
  | ["R0", l] => do let l ← parseRecost l; if o == "-" then pure (.recost 0 l) else none
  | ["R1", l] => do let l ← parseRecost l; if o == "-" then pure (.recost 1 l) else none
  | ["X", i] => do let i ← i.toNat?; if o == "-" then pure (.erase i) else none
  | ["Y0"] => do let l ← parseIds o; pure (.tree 0 l)
  | ["Y1"] => do let l ← parseIds o; pure (.tree 1 l)
  | ["Q"] =>
    match o.splitOn "/" with
    | [a, b] => do let a ← parseIds a; let b ← parseIds b; pure (.heaps a b)
    | _ => none
  | _ => none

def parseEvents : List String → List String → Option (List Event)
  | [], [] => some []
  | e :: es, o :: os => do let ev ← parseEvent e o; let r ← parseEvents es os; pure (ev :: r)
  | _, _ => none

def showCell (c : Cell) : String :=
  toString c.id ++ ":" ++ c.c1.toHex ++ ":" ++ c.c2.toHex ++ ":t" ++ toString c.tag

def showIds (l : List Nat) : String := if l.isEmpty then "-" else "+".intercalate (l.map toString)

/-- human-readable reason for a rejected event (diagnostics only; the verdict is `check`) -/
def why (cfg : Config) (s : State) : Event → String
  | .push c st =>
      if c.id != s.next then "push: id is not fresh"
      else if cfg.lbFirst && !(decide (c.c1 = c.lb)) then "push: first cost is not the objective lower bound"
      else if st then "push: stored although the buffer is full" else "push: overflow although not full"
  | .pop sel w id mv =>
      if !selOk cfg s sel w then "pop: heap " ++ toString w ++ " is not the heap in force (cur=" ++ toString s.cur ++ ")"
      else if !frontOk cfg s w id then
        (match s.cells.find? (fun c => c.id == id) with
         | none => "pop: cell " ++ toString id ++ " is not stored (lost, duplicated or handed out twice)"
         | some c =>
            if cfg.kind == .stack || cfg.kind == .list then "pop: wrong LIFO/FIFO order"
            else if c.tag != src cfg s.cells then "pop: cell comes from sub-buffer " ++ toString c.tag ++ ", expected " ++ toString (src cfg s.cells)
            else "pop: cell " ++ toString id ++ " has not minimal cost for criterion " ++ toString w)
      else "pop: beam move " ++ showIds mv ++ " not admissible"
  | .top sel w id =>
      if !selOk cfg s sel w then "top: heap " ++ toString w ++ " is not the heap in force (cur=" ++ toString s.cur ++ ")"
      else (match s.cells.find? (fun c => c.id == id) with
         | none => "top: cell " ++ toString id ++ " is not stored"
         | some _ => "top: cell " ++ toString id ++ " is not an admissible front (cost / order / sub-buffer)")
  | .minimum crit v => "minimum" ++ toString (crit + 1) ++ ": " ++ v.toHex ++ " is not the least cost of the stored cells"
  | .contract l d => "contract " ++ l.toHex ++ ": destroyed " ++ showIds d ++ ", expected exactly "
        ++ showIds (ids (s.cells.filter (fun c => !Ext.le c.c1 l)))
  | .flush d => "flush: destroyed " ++ showIds d ++ ", expected " ++ showIds (ids s.cells)
  | .size n => "size: " ++ toString n ++ ", expected " ++ toString s.cells.length
  | .empty b => "empty: " ++ showBool b ++ ", expected " ++ showBool s.cells.isEmpty
  | .recost _ _ => "recost: malformed"
  | .erase id => "erase: cell " ++ toString id ++ " not stored"
  | .tree crit o => "internal heap " ++ toString (crit + 1) ++ " in level order " ++ showIds o
        ++ (if o.length == s.cells.length && nodupB o && o.all (fun i => (ids s.cells).contains i)
            then " violates the heap order" else " is not a permutation of the stored cells / malformed tree")
  | .heaps a b => "the internal heaps hold " ++ showIds a ++ " and " ++ showIds b ++ ", stored cells are " ++ showIds (ids s.cells)

/-- coverage tag: t = some pop had several admissible answers (tie), c = a contraction removed a
    strict non-empty part, m = beam move, e = erase in the middle, r = costs re-evaluated -/
def covTag (cfg : Config) : State → List Event → String → String
  | _, [], acc => acc
  | s, e :: es, acc =>
    let add (ch : String) (acc : String) : String := if (acc.splitOn ch).length > 1 then acc else acc ++ ch
    let acc := match e with
      | .pop _ w id _ =>
          let p := pool cfg s.cells
          let ties := (cfg.kind != .stack && cfg.kind != .list) &&
            (p.filter (fun c => c.id != id && isMin w c p)).length > 0
          let acc := if ties then add "t" acc else acc
          if cfg.kind == .beam && src cfg s.cells == tFuture && p.length > 1 then add "m" acc else acc
      | .contract l d => if !d.isEmpty && (s.cells.any (fun c => Ext.le c.c1 l)) then add "c" acc else acc
      | .erase _ => add "e" acc
      | .recost _ l => if l.isEmpty then acc else add "r" acc
      | _ => acc
    covTag cfg (Spec.step cfg s e) es acc

/-- the second criterion of a double heap recomputed by the harness from the documented formula vs the library's cost object
    (relative tolerance 1e-9: a rearranged formula may round differently; a criterion mapped to another one does not pass) -/
def costfnVerdict (crit mine lib : String) : String :=
  if mine == lib then "ok cost-function-agrees" else
  match parseExt mine, parseExt lib with
  | some (.fin a), some (.fin b) =>
    let absq := fun (q : Rat) => if q < 0 then -q else q
    let m := max 1 (max (absq a) (absq b))
    if decide (absq (a - b) ≤ m / 1000000000) then "ok cost-function-agrees-within-tolerance" else s!"FAIL cost-of-criterion-{crit}-differs-from-its-definition"
  | _, _ => s!"FAIL cost-of-criterion-{crit}-differs-from-its-definition"

def opsBuf (op : String) (ins outs : List String) : Option String :=
  if op == "costfn" then (match ins, outs with | [c, m], [l] => some (costfnVerdict c m l) | _, _ => none) else
  if !op.startsWith "buf:" then none else
  if ins.contains "CRASH" then
    some ("FAIL the implementation crashed (signal " ++ outs.getLastD "?" ++ ") after the logged prefix of " ++ toString (outs.length - 1) ++ " events")
  else
  match ins with
  | kind :: critpr :: beam :: cap :: lbf :: evs => do
    let kind ← parseKind kind
    let critpr ← critpr.toNat?; let beam ← beam.toNat?; let cap ← cap.toNat?; let lbf ← parseBool lbf
    let cfg : Config := { kind := kind, critpr := critpr, beam := beam, capacity := cap, lbFirst := lbf }
    let evs ← parseEvents evs outs
    if checkTrace cfg evs then
      let t := covTag cfg (init cfg) evs ""
      let t := "".intercalate (["c", "e", "m", "r", "t"].filter (fun ch => (t.splitOn ch).length > 1))
      pure ("ok " ++ (if t.isEmpty then "plain" else t))
    else
      match firstBad cfg (init cfg) 0 evs with
      | some (k, s, e) =>
        pure ("FAIL event " ++ toString k ++ " (" ++ (ins.drop (5 + k)).headD "?" ++ " => " ++ (outs.drop k).headD "?" ++ "): "
              ++ why cfg s e ++ "; stored=[" ++ ",".intercalate (s.cells.map showCell) ++ "]")
      | none => pure "FAIL inconsistent-checker"
  | _ => none

end Ibex.Driver
