/-
  C19 workloads on set pavings (harness/h_set.cpp):

    pav <n> <k> <step1> ... <stepk> <leaf defs...> @ <queries...> => <leaves...> empty=<0|1> sup=<answers|-> dist=<d,d|-> pre=<0|1>
    sepx <n> <sep-tree> <leaf defs...> @ <x> => <x_in> <x_out> pre=<0|1>
    cpdc <n> <pdc-tree> <constraint defs...> @ <x> <points> => <Y|N|M|E>

  The steps are interpreted as a set expression `SE` (thick set [lo,hi], IbexModel/SetPaving.lean); the leaves printed by
  the real `ibex::Set` / `ibex::SetInterval` are submitted to the verified checker `pavingOk` (expressions over exact
  leaves: decided for all real points, IbexProofs/Props/C19set.lean) or to the exact point rule `refuted`
  (expressions with polynomial constraints: a violation is raised only at an exact rational point).
-/
import IbexModel
import IbexModel.SetPaving
import Driver.Proto
import Driver.OpsBox
import Driver.OpsComb
namespace Ibex.Driver.SetOps
open Ibex Ibex.Proto Ibex.SetPaving Ibex.Driver.CombOps

def toCmp (s : String) : Option Cmp :=
  match s with
  | "lt" => some .lt | "le" => some .le | "eq" => some .eq | "ge" => some .ge | "gt" => some .gt | _ => none

def toPoly (p : List CombOps.Mono) : SetPaving.Poly := p.map fun m => ({ coef := m.coef, exps := m.exps } : SetPaving.Mono)

def cstrSE (c : Cstr) : Option SE := (toCmp c.op).map fun op => .cmp op (toPoly c.poly)

/-- closed half spaces covering the complement of the interior of `W` -/
def halfSpaces (W : Box) : List Box :=
  let n := W.length
  (List.range n).flatMap fun i =>
    match W.getD i .empty with
    | .mk lo hi =>
      (match lo with | .ninf => [] | _ => [(List.replicate n Itv.all).set i (.mk .ninf lo)]) ++
      (match hi with | .pinf => [] | _ => [(List.replicate n Itv.all).set i (.mk hi .pinf)])
    | .empty => [List.replicate n Itv.all]

/-- the closed set kept by a contractor tree over synthetic leaves -/
partial def ctcSE (tab : CTab) : CombOps.Node → Option SE
  | .mk nm _ args =>
    match leafId 'L' nm with
    | some i => (tab.leaves.ctc.lookup i).map fun L => .cl L.boxes
    | none =>
      match nm, args with
      | "compo", l => (l.mapM (ctcSE tab)).map SE.interL
      | "union", l => (l.mapM (ctcSE tab)).map SE.unionL
      | "fix", [c] => ctcSE tab c
      | "id", [] => some .univ
      | "empty", [] => some SE.none
      | _, _ => none

/-- the thick set of a separator tree -/
partial def sepSE (n : Nat) (tab : CTab) : CombOps.Node → Option SE
  | .mk nm param args =>
    match idAfter "SF" nm with
    | some i => (tab.cs.lookup i).bind cstrSE
    | none =>
    match leafId 'S' nm with
    | some i => (tab.leaves.sep.lookup i).map fun (u, v) => SE.leaf u v
    | none =>
      match nm, args with
      | "pair", [a, b] => do let a ← ctcSE tab a; let b ← ctcSE tab b; pure (.thick (.not a) b)
      | "not", [s] => (sepSE n tab s).map .not
      | "inter", l => (l.mapM (sepSE n tab)).map SE.interL
      | "union", l => (l.mapM (sepSE n tab)).map SE.unionL
      | "qinter", l => do let q ← param.toNat?; let l ← l.mapM (sepSE n tab); pure (SE.atLeast (l.length - q) l)
      | "bnd", [_, _] => do let W ← parseBoxN n param; pure (SE.leaf [W] (halfSpaces W))
      | "bndc", [] => do let i ← param.toNat?; let c ← tab.cs.lookup i; pure (.cmp .le (toPoly c.poly))
      | "sinv", [s] => do
        let i ← param.toNat?; let c ← tab.cs.lookup i
        let s ← sepSE 1 tab s
        pure (.inv (toPoly c.poly) s)
      | _, _ => none

def parseSt (c : Char) : Option St :=
  match c with | 'Y' => some .yes | 'N' => some .no | 'M' => some .maybe | _ => none

/-- information on the unknown set brought by `Sep::contract(iset, eps, s1, s2)`: the points of the separator's set
    have status `s1`, the others `s2` -/
def statusImage (s1 s2 : St) (S : SE) : SE :=
  .thick (SE.unionL ((if s1 == .yes then [S] else []) ++ (if s2 == .yes then [.not S] else [])))
         (SE.interL ((if s1 == .no then [.not S] else []) ++ (if s2 == .no then [S] else [])))

def initSE (st : St) (full : SE) : SE :=
  match st with
  | .yes => full
  | .maybe => .thick SE.none full
  | .no => SE.none

abbrev Objs := List (Char × SE)

def stepSE (n : Nat) (tab : CTab) (objs : Objs) (step : String) : Option Objs := do
  let cs := step.toList
  let x ← cs.head?
  let rest := String.ofList (cs.drop 1)
  let set (e : SE) : Objs := (x, e) :: objs.filter (·.1 != x)
  if rest.startsWith ":=" then
    match (rest.drop 2).toString.splitOn "/" with
    | ["all", st] => do let st ← st.toList.head?.bind parseSt; pure (set (initSE st .univ))
    | ["box", st, b] | ["ibox", st, b] => do
      let st ← st.toList.head?.bind parseSt; let b ← parseBoxN n b; pure (set (initSE st (.cl [b])))
    | ["fn", _, id] | ["nc", _, id] => do let i ← id.toNat?; let c ← tab.cs.lookup i; let e ← cstrSE c; pure (set e)
    | ["sys", _, ids] => do
      let l ← (ids.splitOn ".").mapM fun id => do let i ← id.toNat?; let c ← tab.cs.lookup i; cstrSE c
      pure (set (SE.interL l))
    | ["load"] => do let e ← objs.lookup x; pure (set e)
    | _ => none
  else if rest.startsWith "*=" then
    let body := (rest.drop 2).toString
    match body.splitOn "/" with
    | "sep" :: _ :: tree => do
      let t ← parseTree ("/".intercalate tree); let s ← sepSE n tab t; let e ← objs.lookup x
      pure (set (.inter e s))
    | "isep" :: _ :: ss :: tree => do
      let t ← parseTree ("/".intercalate tree); let s ← sepSE n tab t; let e ← objs.lookup x
      match ss.toList with
      | [a, b] => do let a ← parseSt a; let b ← parseSt b; pure (set (.meet e (statusImage a b s)))
      | _ => none
    | _ => none
  else if rest.startsWith "&=" then do
    let y ← (rest.drop 2).toString.toList.head?; let a ← objs.lookup x; let b ← objs.lookup y; pure (set (.inter a b))
  else if rest.startsWith "|=" then do
    let y ← (rest.drop 2).toString.toList.head?; let a ← objs.lookup x; let b ← objs.lookup y; pure (set (.union a b))
  else none

def parseLeaf (n : Nat) (s : String) : Option Leaf :=
  match s.splitOn "@" with
  | [st, b] => do let st ← st.toList.head?.bind parseSt; let b ← parseBoxN n b; pure { box := b, st := st }
  | _ => none

def showR (p : RPt) : String := ",".intercalate (p.map fun (q : Rat) => toString q)
def showSt : St → String | .yes => "YES" | .no => "NO" | .maybe => "MAYBE"

/-- first failing (leaf, representative, rule) of the cell rules -/
def firstBad (cuts : Nat → List Rat) (iset : Bool) (e : SE) (leaves : List Leaf) : Option (Leaf × RPt × String) :=
  leaves.findSome? fun L =>
    if L.st == .maybe then none else
    match (if iset then none else (repsIn cuts 0 L.box).find? fun r => !okB e L.st r) with
    | some r => some (L, r, "point-of-the-leaf")
    | none => ((gapsIn cuts 0 L.box).find? fun r => !okR e L.st r).map fun r => (L, r, "full-dimensional-cell")

/-- sample points of a leaf: corners, midpoint, midpoints of the faces (clipped to [-16,16]) -/
def leafPts (b : Box) : List RPt :=
  let per : List (List Rat) := b.map fun I =>
    match I with
    | .mk lo hi =>
      let a : Rat := match lo with | .fin a => a | .ninf => (match hi with | .fin h => min (h - 1) (-16) | _ => -16) | .pinf => 16
      let c : Rat := match hi with | .fin c => c | .pinf => (match lo with | .fin l => max (l + 1) 16 | _ => 16) | .ninf => -16
      if a == c then [a] else [a, (a + c) / 2, c]
    | .empty => []
  per.foldr (fun l acc => l.flatMap fun v => acc.map (v :: ·)) [[]]

def sqDist (pt : RPt) (b : Box) : Rat :=
  (List.zipWith (fun (v : Rat) (I : Itv) =>
    match I with
    | .mk lo hi =>
      let d1 : Rat := match lo with | .fin a => if v < a then a - v else 0 | _ => 0
      let d2 : Rat := match hi with | .fin c => if c < v then v - c else 0 | _ => 0
      (d1 + d2) * (d1 + d2)
    | .empty => 0) pt b).foldl (· + ·) 0

def minOpt (l : List Rat) : Option Rat := l.foldl (fun acc x => match acc with | none => some x | some m => some (min m x)) none

/-- upper bound of the number of cells of the box `b` enumerated by `repsIn` -/
def cellEstimate (cuts : Nat → List Rat) (b : Box) : Nat :=
  ((List.range b.length).map fun j =>
    let I := b.getD j .empty
    2 * (((cuts j).filter fun c => inItv c I).length) + 3).foldl (· * ·) 1

/-- number of boxes and nodes of an expression (cost of one membership test) -/
def seSize : SE → Nat
  | .univ => 1
  | .cl W => 1 + W.length
  | .cmp _ _ => 1
  | .inv _ s => 1 + seSize s
  | .not s => 1 + seSize s
  | .inter a b => 1 + seSize a + seSize b
  | .union a b => 1 + seSize a + seSize b
  | .thick a b => 1 + seSize a + seSize b
  | .meet a b => 1 + seSize a + seSize b

/-- budget per line: cells x size of the expression (larger cases are reported as not examined) -/
def cellBudget : Nat := 4000000

def pavLine (ins outs : List String) : Option String := do
  let (hd, qs) := splitAt ins
  match hd with
  | n :: k :: rest =>
    let n ← n.toNat?; let k ← k.toNat?
    let steps := rest.take k
    let tab ← (rest.drop k).foldlM parseCDef ({} : CTab)
    let objs ← steps.foldlM (stepSE n tab) ([] : Objs)
    let e ← objs.lookup 'A'
    let iset := steps.any fun s => (s.splitOn "ibox/").length > 1
    if outs == ["EXC"] then return ("FAIL exception-escaped-from-step " ++ (steps.getLast?.getD "?")) else
    -- outputs
    let leafToks := outs.filter fun s => (s.splitOn "@").length == 2
    let leaves ← leafToks.mapM (parseLeaf n)
    let get (key : String) : Option String := (outs.find? (·.startsWith key)).map fun s => (s.drop key.length).toString
    let empty ← get "empty="; let sup ← get "sup="; let dist ← get "dist="; let pre ← get "pre="
    if pre != "1" then return "FAIL sub-separator-called-with-x_in!=x_out" else
    let cuts := e.fastCuts (e.cutTable n)
    let ny := (leaves.filter (·.st == .yes)).length
    let nn := (leaves.filter (·.st == .no)).length
    let nm := (leaves.filter (·.st == .maybe)).length
    let counts := " y=" ++ toString ny ++ " n=" ++ toString nn ++ " m=" ++ toString nm
    -- is_empty
    if iset then
      if empty == "1" then
        -- the i-set is claimed empty: justified only by a point certainly in and certainly out
        if e.boxy && !consistentOk e n then return "ok iset-empty-justified"
        else return "FAIL i-set-reported-empty-but-the-information-is-consistent"
    else if empty == "1" && !(leaves.all (·.st == .no)) then return "FAIL is_empty-but-some-leaf-is-not-NO"
    else if empty == "0" && (match leaves with | [L] => L.st == .no | _ => false) then return "FAIL single-NO-leaf-but-is_empty-false"
    -- sample points (constraint class)
    let pts : List RPt ← (match qs.find? (·.startsWith "pts:") with
      | some s => parsePts (s.drop 4).toString
      | none => some [])
    -- the leaves
    if !coverOk n leaves then return "FAIL leaves-do-not-cover-the-space" else
    if e.boxy && ((leaves.filter (·.st != .maybe)).map fun L => cellEstimate cuts L.box).foldl (· + ·) (if iset then cellEstimate cuts (List.replicate n Itv.all) else 0) * seSize e > cellBudget then
      return ("ok exact-too-many-cells" ++ counts) else
    -- an i-set whose information is contradictory somewhere contains no set: no claim can be wrong
    if iset && e.boxy && !consistentOk e n then return ("ok iset-contradictory-information" ++ counts) else
    if iset && !e.boxy && (pts ++ leaves.flatMap fun L => leafPts L.box).any (incons e) then return ("ok iset-contradictory-information" ++ counts) else
    let mut decided := false
    let flat := (leaves.filter fun L => L.st != .maybe && L.box.any Itv.isDegenerated).length
    if e.boxy then
      -- (same verdict as `pavingOk iset e n leaves`, with the failing leaf and point)
      if pavingOk iset e n leaves then decided := leaves.any fun L => L.st != .maybe && !(gapsIn cuts 0 L.box).isEmpty
      else match firstBad cuts iset e leaves with
      | some (L, r, why) => return ("FAIL leaf " ++ showSt L.st ++ " " ++ showBox L.box ++ " wrong-at " ++ showR r ++ " " ++ why ++
          " (certainly-in=" ++ toString (e.lo r) ++ " possibly-in=" ++ toString (e.hi r) ++ ")")
      | none => return "FAIL pavingOk-rejects-the-paving"
    else
      match leaves.findSome? fun L => (leafRefuted iset e L (pts ++ (if L.st == .maybe then [] else leafPts L.box))).map fun r => (L, r) with
      | some (L, r) => return ("FAIL leaf " ++ showSt L.st ++ " " ++ showBox L.box ++ " refuted-at " ++ showR r ++
          " (certainly-in=" ++ toString (e.lo r) ++ " possibly-in=" ++ toString (e.hi r) ++ ")")
      | none => decided := leaves.any fun L => L.st != .maybe && (pts ++ leafPts L.box).any fun r => inBox r L.box
    -- is_superset
    let supQs := (qs.filter (·.startsWith "sup:")).map fun s => (s.drop 4).toString
    let supAns := if sup == "-" then [] else sup.toList
    if supQs.length != supAns.length then none else
    let mut supYes := 0
    for (qb, a) in supQs.zip supAns do
      let B ← parseBoxN n qb
      if a == 'E' then return ("FAIL is_superset-returned-EMPTY_BOOL box=" ++ qb)
      if a == 'Y' then
        supYes := supYes + 1
        if e.boxy then
          if supOk e n B then pure ()
          else match firstBad cuts false e [{ box := B, st := .yes }] with
          | some (_, r, why) => return ("FAIL is_superset-YES-but-point " ++ showR r ++ " " ++ why ++ " not-in-the-set (certainly-in=" ++ toString (e.lo r) ++
              " possibly-in=" ++ toString (e.hi r) ++ ") box=" ++ qb)
          | none => return ("FAIL supOk-rejects box=" ++ qb)
        else
          match (pts ++ leafPts B).find? fun r => inBox r B && !e.hi r with
          | some r => return ("FAIL is_superset-YES-but-point " ++ showR r ++ " not-in-the-set box=" ++ qb)
          | none => pure ()
    -- dist: consistency with the leaves
    let distQs := (qs.filter (·.startsWith "dist:")).map fun s => (s.drop 5).toString
    let distAns := if dist == "-" then [] else dist.splitOn ","
    if distQs.length != distAns.length then none else
    for (q, a) in distQs.zip distAns do
      if a == "CRASH" then return "FAIL Set::dist-crashed"
      match q.splitOn ":" with
      | [ins, pt] =>
        let pt ← (pt.splitOn ";").mapM parseRatDbl
        let st : St := if ins == "1" then .yes else .no
        let m := minOpt ((leaves.filter (·.st == st)).map fun L => sqDist pt L.box)
        let d ← parseExt a
        match m, d with
        | none, .pinf => pure ()
        | some m, .fin d =>
          let tol : Rat := 1 / 1000000000
          let tiny : Rat := 1 / (10 : Rat) ^ 300   -- the squared distance underflows below the smallest positive doubles
          if !(d * d ≤ m * (1 + tol) + tiny && m * (1 - tol) ≤ d * d + tiny) then
            return ("FAIL dist-inconsistent-with-the-leaves point=" ++ showR pt ++ " dist=" ++ toString d ++ " exact-squared-distance=" ++ toString m)
        | _, _ => return ("FAIL dist-inconsistent-with-the-leaves point=" ++ showR pt ++ " dist=" ++ a)
      | _ => none
    let cls := if e.boxy then "exact" else "sampled"
    pure ("ok " ++ cls ++ (if decided then "-decided" else if ny + nn > 0 then "-untested" else "-allmaybe") ++
      (if supYes > 0 then "+sup" else "") ++ (if distAns.isEmpty then "" else "+dist") ++ counts ++ (if flat > 0 then " flat=" ++ toString flat else ""))
  | _ => none

def sepxLine (ins outs : List String) : Option String := do
  let (hd, rest) := splitAt ins
  match hd, rest, outs with
  | n :: tree :: defs, [xs], [si, so, pre] =>
    let n ← n.toNat?
    let t ← parseTree tree
    let tab ← defs.foldlM parseCDef ({} : CTab)
    let e ← sepSE n tab t
    let x ← parseBoxN n xs
    let i ← parseBoxN n si
    let o ← parseBoxN n so
    if pre != "pre=1" then pure "FAIL sub-separator-called-with-x_in!=x_out" else
    if !Comb.Oracle.subBox i x || !Comb.Oracle.subBox o x then pure "FAIL not-a-subbox" else
    if !e.boxy then none else
    if cellEstimate (sepCuts (e.fastCuts (e.cutTable n)) i o) x * seSize e > cellBudget then pure "ok sepx-too-many-cells" else
    if sepOk e x i o then pure (if showBox i == showBox x && showBox o == showBox x then "ok sepx-unchanged" else "ok sepx-contracted") else
    match (repsIn (sepCuts (e.fastCuts (e.cutTable n)) i o) 0 x).find? fun r => !sepOkAt e i o r with
    | some r =>
      pure ("FAIL " ++ (if !inBox r i && !e.lo r then "removed-from-inner-but-not-certainly-in-the-set " else "removed-from-outer-but-possibly-in-the-set ") ++
        showR r ++ " x=" ++ xs ++ " impl=" ++ si ++ " " ++ so)
    | none => pure "FAIL sepOk-rejects"
  | _, _, _ => none

/-! predicates over `PdcFwdBwd`: (all sampled points certainly in ?, some sampled point certainly out ?) by exact evaluation -/

partial def pdcK (tab : CTab) : CombOps.Node → RPt → Option (Bool × Bool)
  | .mk nm _ args, pt =>
    match idAfter "PF" nm with
    | some i => do let c ← tab.cs.lookup i; let e ← cstrSE c; pure (e.mem pt)
    | none =>
      match nm, args with
      | "and", l => (l.mapM (pdcK tab · pt)).map fun rs => (rs.all (·.1), rs.all (·.2))
      | "or", l => (l.mapM (pdcK tab · pt)).map fun rs => (rs.any (·.1), rs.any (·.2))
      | "not", [c] => (pdcK tab c pt).map fun r => (!r.2, !r.1)
      | _, _ => none

def cpdcLine (ins outs : List String) : Option String := do
  let (hd, rest) := splitAt ins
  match hd, rest, outs with
  | n :: tree :: defs, [xs, pts], [ans] =>
    let n ← n.toNat?
    let t ← parseTree tree
    let tab ← defs.foldlM parseCDef ({} : CTab)
    let x ← parseBoxN n xs
    let pts ← parsePts pts
    for p in pts do
      if inBox p x then
        let (lo, hi) ← pdcK tab t p
        if ans == "Y" && !hi then return ("FAIL YES-but-the-point " ++ showR p ++ " is-outside x=" ++ xs)
        if ans == "N" && lo then return ("FAIL NO-but-the-point " ++ showR p ++ " is-strictly-inside x=" ++ xs)
        if ans == "E" then return ("FAIL EMPTY_BOOL-on-a-non-empty-box x=" ++ xs)
    pure (if ans == "M" then "ok cpdc-maybe" else "ok cpdc-decided")
  | _, _, _ => none

def opsSet (op : String) (ins outs : List String) : Option String :=
  match op with
  | "pav" => pavLine ins outs
  | "sepx" => sepxLine ins outs
  | "cpdc" => cpdcLine ins outs
  | _ => none

end Ibex.Driver.SetOps

/-- entry point chained in `Driver/Main.lean` -/
def Ibex.Driver.opsSet (op : String) (ins outs : List String) : Option String :=
  Ibex.Driver.SetOps.opsSet op ins outs
