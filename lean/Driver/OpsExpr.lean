/- Expression workloads: parsing of DAG tokens, C02 evaluation checks. -/
import IbexModel
import Driver.Proto
namespace Ibex.Driver
open Ibex Ibex.Proto

def parseItvT (s : String) : Option Itv :=
  if s == "E" then some .empty else
  match s.splitOn "~" with
  | [l, h] => match parseDbl l, parseDbl h with
    | some (.val a), some (.val b) => some (.mk a b)
    | _, _ => none
  | _ => none

/-- `r.c.itv/itv/...` -/
def parseMatItv (s : String) : Option (Mat Itv) :=
  match s.splitOn "." with
  | [r, c, d] => do
    let r ← r.toNat?; let c ← c.toNat?
    let d ← (d.splitOn "/").mapM parseItvT
    if d.length == r * c then some ⟨r, c, d⟩ else none
  | _ => none

def parseNatList (s : String) : Option (List Nat) := (s.splitOn ".").mapM (·.toNat?)

def parseNode (s : String) : Option Node :=
  match s.splitOn "@" with
  | [body, dim] =>
    match dim.splitOn "." with
    | [r, c] => do
      let r ← r.toNat?; let c ← c.toNat?
      let k ← (match body.splitOn ":" with
        | ["v", off] => off.toNat?.map NodeK.var
        | ["k", vals] => ((vals.splitOn "/").mapM parseItvT).map NodeK.const
        | ["u", op, a] => a.toNat?.map (NodeK.un op)
        | ["b", op, a, b] => do pure (NodeK.bin op (← a.toNat?) (← b.toNat?))
        | ["p", a, n] => do pure (NodeK.pow (← a.toNat?) (← n.toInt?))
        | ["i", a, r1, r2, c1, c2] => do
          pure (NodeK.idx (← a.toNat?) (← r1.toNat?) (← r2.toNat?) (← c1.toNat?) (← c2.toNat?))
        | ["V", o, as] => (parseNatList as).map (NodeK.vec (o == "row"))
        | ["c", a, b, c] => do pure (NodeK.chi (← a.toNat?) (← b.toNat?) (← c.toNat?))
        | ["a", f, as] => do pure (NodeK.apply (← f.toNat?) (← parseNatList as))
        | _ => none)
      pure ⟨k, r, c⟩
    | _ => none
  | _ => none

def parseDag (s : String) : Option Dag := ((s.splitOn ",").mapM parseNode).map List.toArray

/-- `f0!f1!...!main` -/
def parseProgram (s : String) : Option (List Dag × Dag) := do
  let ds ← (s.splitOn "!").mapM parseDag
  match ds.reverse with
  | main :: fs => some (fs.reverse, main)
  | [] => none

open Ibex.Eval (buildCalls matSubset)

def parsePoint (s : String) : Option (List Rat) := (s.splitOn ";").mapM parseRatDbl

def ratIn (q : Rat) (x : Itv) : Bool := Itv.containsExt x (.fin q)

def matIn (v : Mat Rat) (z : Mat Itv) : Bool :=
  v.r == z.r && v.c == z.c && v.d.length == z.d.length && (List.zip v.d z.d).all fun p => ratIn p.1 p.2

def opsExpr (op : String) (ins outs : List String) : Option String :=
  match op, ins, outs with
  | "vecop", [op, a, b], [r] => do
    let A ← parseMatItv a
    let B ← (if b == "-" then some ⟨0, 0, []⟩ else parseMatItv b)
    if r == "E" then pure "FAIL empty-result-for-non-empty-operands" else
    let R ← parseMatItv r
    if R.d.any (fun I => !I.WF) then pure "FAIL result-not-well-formed" else
    if VecOps.vecopOk op A B R then
      let tight := match op with
        | "mul" => (List.range A.r).all fun i => (List.range B.c).all fun j => R.get? i j == some (VecOps.dotX (A.row i) (B.col j))
        | _ => false
      pure (if tight then s!"ok {op} exact-range" else s!"ok {op} encloses-exact-range")
    else pure s!"FAIL {op}-result-does-not-contain-the-exact-range"
  | "evalfork", [what], [res] =>
    pure (if res == "EXIT0" then s!"ok evaluated-{what}" else s!"FAIL evaluation-of-{what}-ends-with-{res}")
  | "evalpt", [dag, pt], [z] => do
    let (funs, main) ← parseProgram dag
    let p ← parsePoint pt
    match Eval.root Alg.rat p (buildCalls Alg.rat funs) main with
    | none => pure "ok undefined-or-unsupported"
    | some v =>
      if z == "E" then pure "FAIL empty-result-but-defined-at-point"
      else do
        let z ← parseMatItv z
        pure (if matIn v z then "ok value-enclosed" else "FAIL value-outside-enclosure")
  | "evalt", [_, _, _, o], [z] =>
    -- expressions with elementary functions: `o` is a rigorous enclosure (MPFR interval arithmetic, trusted oracle) of the
    -- real value at a point of the box; the value must belong to the result `z` of the evaluation over the box
    if o == "U" then pure "ok undefined-or-undecided-at-point" else do
    let o ← parseItv o
    if z == "E" then pure "FAIL empty-result-but-defined-at-point" else do
    let z ← parseItv z
    pure (if (Itv.inter o z).isEmpty then "FAIL value-outside-enclosure"
          else if Itv.subset o z then "ok value-enclosed elementary" else "ok value-at-the-bound-undecided")
  | "evalpt_comp", [dag, pt, i], [z] => do
    let (funs, main) ← parseProgram dag
    let p ← parsePoint pt; let i ← i.toNat?
    match Eval.root Alg.rat p (buildCalls Alg.rat funs) main with
    | none => pure "ok undefined-or-unsupported"
    | some v => do
      let z ← parseMatItv z
      match v.d[i]?, z.d with
      | some q, [zi] => pure (if ratIn q zi then "ok component-enclosed" else "FAIL component-outside-enclosure")
      | _, _ => none
  | "evalpt_comps", [dag, pt, sel], [z] => do
    let (funs, main) ← parseProgram dag
    let p ← parsePoint pt; let sel ← parseNatList sel
    match Eval.root Alg.rat p (buildCalls Alg.rat funs) main with
    | none => pure "ok undefined-or-unsupported"
    | some v => do
      let z ← parseMatItv z
      let qs ← sel.mapM fun i => v.d[i]?
      pure (if qs.length == z.d.length && (List.zip qs z.d).all (fun p => ratIn p.1 p.2)
            then "ok components-enclosed" else "FAIL components-outside-enclosure")
  | "sameas", [_, a], [b] => pure (if a == b then "ok" else "FAIL entry-points-disagree")
  | "evalcert", [dag, box], [doms] => do
    let (funs, main) ← parseProgram dag
    if doms == "EMPTY" then pure "ok empty-result" else
    let box ← (if box == "E" then none else (box.splitOn ";").mapM parseItv)
    let ds ← (doms.splitOn ",").mapM parseMatItv
    let bad := Eval.certBad funs main box ds.toArray
    pure (if Eval.certOk funs main box ds.toArray then "ok nodes-consistent"
          else if ds.length != main.size then "FAIL domain-count" else s!"FAIL node-not-enclosing {bad}")
  | "builderror", _, _ => pure "ok builderror"
  | "evalerror", _, _ => pure "FAIL exception-thrown-by-the-library"
  | _, _, _ => none

end Ibex.Driver
