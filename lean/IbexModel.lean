import IbexModel.Dbl
import IbexModel.Itv
import IbexModel.Box
import IbexModel.ItvG
import IbexModel.Bwd
import IbexModel.Expr
import IbexModel.HC4
import IbexModel.Cov
