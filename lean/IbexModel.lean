import IbexModel.Dbl
import IbexModel.Itv
