#!/usr/bin/env python3
"""Build everything the checks need, offline, from files on disk: /repo with hooks (out of tree), the Lean project, the driver."""
import os, subprocess, sys
ROOT = os.path.dirname(os.path.abspath(__file__))
sys.path.insert(0, ROOT)
import check
log = []
check.build_repo(log)
rc = subprocess.call(["lake", "build"], cwd=os.path.join(ROOT, "lean"))
for h in sorted(f[:-4] for f in os.listdir(os.path.join(ROOT, "harness")) if f.endswith(".cpp")):
    check.build_harness(h)
sys.exit(rc)
