"""PROPS["C13"] — derived systems describe the same problem as the original.

Merge into props.py with:   from props_C13 import ENTRY as _e; PROPS["C13"] = _e
"""


def _nontrivial(line, verdict):
    # a derived system decided symbolically (all constraints, goal and f_ctrs), an exact point comparison where the
    # original system is defined, or an extended-box round trip
    return verdict.startswith(("ok decided", "ok feasible", "ok infeasible", "ok roundtrip"))


def _workloads(tier, seed):
    q = tier == "quick"
    full = [] if q else ["full"]
    return [
        # random systems through SystemFactory (levels 0-3) -> NormalizedSystem / ExtendedSystem (eps, levels), copies, chains
        {"harness": "h_sys", "tag": "derived", "args": ["c13", seed, 1500 if q else 20000] + full},
        # pairs of systems over overlapping named symbols -> merged system (+ normalized merged system)
        {"harness": "h_sys", "tag": "merge", "args": ["c13merge", seed, 2500 if q else 30000] + full},
    ]


ENTRY = {
    "modules": ["IbexProofs.Props.C13"],
    "harnesses": ["h_sys"],
    "workloads": _workloads,
    "nontrivial": _nontrivial,
    "rule": "random systems built through SystemFactory (1-4 named symbols: scalars, row/column vectors, matrices; variables added at once "
            "or one by one; simplification level 0-3 or default, levels 2-3 only for expressions whose expansion stays small; 0-4 "
            "constraints, scalar / vector / matrix valued, all five operators, optional goal, shared sub-expressions between constraints "
            "and goal, applied functions, 20% non-smooth operators, thick right-hand sides in 18% of the systems), constraints planted "
            "around a point (tight, with margin, off by eps in {0,1e-3,0.5,1}, violated); derived: NormalizedSystem (eps in "
            "{0,1e-3,0.5,1,1e-8}, level 0-3, default arguments), ExtendedSystem (same), System(sys,COPY/EQ_ONLY/INEQ_ONLY), copy of a "
            "normalized system, System(sys1,sys2) on overlapping symbol sets in different orders (+ its normalization), "
            "write/read_ext_box/vec; per derived system one `sysrel` line (arguments, box, goal, every constraint, f_ctrs/ops through the "
            "verified checkers) and 2-8 `syspt` lines (planted point, +-1/8, +-eps, random; goal variable = exact goal value, shifted, "
            "random) deciding satisfaction exactly; every batch of 50 iterations runs in a child process (a crash of the library is "
            "reported as a failing iteration); non-trivial = fully decided relation / exact point comparison with the original defined at "
            "the point / round trip; distinct = distinct lines",
    "assumptions": [
        "the symbolic tie (ctrsCheckT / flatCheckT) decides the rational fragment (+ - * / minus sqr pow(int), vectors, matrices, "
        "indexing, products, applied functions, degenerate constants) with thick interval constants as atoms (the same interval "
        "denotes the same member in both systems: thick right-hand sides, constants copied unchanged); abs max min sign chi and "
        "constants folded by the simplifier with outward rounding are compared by exact evaluation at the sampled points only "
        "(about 20% of the relations are `partly-decided`)",
        "accepted pairs have the same value wherever BOTH are defined; definedness (a simplification removing a division) is compared "
        "at sampled points",
        "set values at a point (thick constants) are read as 'some member satisfies' and 'every member satisfies'; the real system must "
        "not contradict the statement under both readings (a constant folded with outward rounding is accepted)",
        "the order of the entries of f_ctrs is not prescribed (NormalizedSystem interleaves f_k-eps, -eps-f_k; ctrs does not): "
        "f_ctrs/ops are compared with ctrs up to a permutation; the position of each constraint in ctrs IS prescribed by the model "
        "(goal constraint first, two inequalities per thickened equality in the order f-eps<=0, -eps-f<=0)",
        "the domain of the goal variable of an extended system is only required to contain the goal value at the sampled points of the box",
        "transcendental operators are not generated (no exact oracle); Minibex-text systems are covered by C10",
    ],
    "trusted": ["expr_io.h dumper; h_sys.cpp reads args/box/goal/ctrs/f_ctrs/ops of the real System objects",
                "exact rational / exact interval evaluation in the driver (Alg.rat proved equal to the real semantics in C02; Alg.itvX)"],
    "technique": "Lean 4 proof (model of normalize / extend / copy / merge on (DAG, op) lists has the stated solution sets over the reals, "
                 "for all systems; verified normal-form checkers for the tie, sound for every selection of thick constants) + checkers "
                 "run on the dumps of the real derived systems + exact point oracle",
    "level_text": "Kernel-checked, for all systems, all eps >= 0 and all real points: normalized_iff (normalized constraints hold iff the "
                  "original inequalities hold and every entry of every equality is within eps of 0; exactly the original solutions when "
                  "eps = 0), extended_iff ((x,y) satisfies goal(x)-y=0 :: normalized iff x satisfies the normalized system and y = goal(x); "
                  "the new goal is y), copy_exactly / copy_keeps (filter by operator, order kept), merge_keeps (merged constraints with "
                  "renamed variables hold iff both systems hold at the points read through the variable names), ext_box_roundtrip; "
                  "stated for every RealLike algebra: Alg.real and every selection of thick constants (Alg.realWith ch). Tie: "
                  "accepted_normalized / accepted_extended / accepted_copy / accepted_merge / accepted_fctrs / accepted_goal: when the "
                  "verified checkers accept the dump of the real derived system against the model applied to the dump of the original "
                  "one, the real system has exactly the stated solutions at EVERY real point where the functions are defined, for every "
                  "selection of the thick constants. Arguments, boxes and goal presence are compared = with the model; satisfaction, "
                  "goal values and the domain of the goal variable are decided exactly at every sampled point.",
    "level_note": "Trusted: Lean kernel + Mathlib (axioms propext/Classical.choice/Quot.sound); dumper/driver glue; systems and points are "
                  "those generated. Genuine defects found (C13_proposed_fixes.diff): System(sys1,sys2) sizes the boxes of the symbols of "
                  "sys2 with ExprNode::size (number of DAG nodes) instead of the dimension of the symbol (wrong domains); level-1 "
                  "simplification treats scalar*(unit vector) and (unit column)*(row) as a selection (a stated vector constraint becomes "
                  "a different scalar one); level-1 simplification re-associates (C*a)*r into C*(a*r) with a*r an outer product, which the "
                  "library cannot evaluate (crash); ~SystemFactory of an unbuilt factory aborts on constraints of incompatible shapes.",
}
