// hand-written texts (included in main of h_mbx.cpp, workload "corner").
// `paren` = a fully parenthesised text with the same meaning (precedence / associativity of the real parser is then
// checked against explicit parentheses, independently of the reference reader), or NULL.
{
  struct TC { const char* kind; const char* text; const char* paren; };
  static const TC cases[] = {
    // ---- precedence and associativity (bison table of parser.yc)
    {"prec-unary-minus-product", "variables x,y; constraints -x*y>=0; end", "variables x,y; constraints (-(x*y))>=0; end"},
    {"prec-unary-minus-sum", "variables x,y; constraints -x+y>=0; end", "variables x,y; constraints ((-x)+y)>=0; end"},
    {"prec-unary-minus-power", "variables x; constraints -x^2>=0; end", "variables x; constraints (-(x^2))>=0; end"},
    {"prec-power-negative-exponent-product", "variables x,y; constraints x^-2*y=1; end", "variables x,y; constraints (x^(-(2*y)))=1; end"},
    {"prec-power-left-assoc", "variables x; constraints x^2^3=1; end", "variables x; constraints ((x^2)^3)=1; end"},
    {"prec-product-minus", "variables x,y,z; constraints x*-y*z=1; end", "variables x,y,z; constraints (x*(-(y*z)))=1; end"},
    {"prec-sub-left-assoc", "variables x,y,z; constraints x-y-z=1; end", "variables x,y,z; constraints ((x-y)-z)=1; end"},
    {"prec-div-left-assoc", "variables x,y,z; constraints x/y/z=1; end", "variables x,y,z; constraints ((x/y)/z)=1; end"},
    {"prec-div-mul", "variables x,y,z; constraints x/y*z=1; end", "variables x,y,z; constraints ((x/y)*z)=1; end"},
    {"prec-transpose-power", "variables x[2],y[2]; constraints x'*y+x(1)^2'=1; end", "variables x[2],y[2]; constraints (((x')*y)+((x(1)^2)'))=1; end"},
    {"prec-index-binds-tighter-than-power", "variables x[2],y[3]; constraints x(1)^y(2)=1; end", "variables x[2],y[3]; constraints ((x(1))^(y(2)))=1; end"},
    {"prec-unary-plus", "variables x,y; constraints +x*+y=1; end", "variables x,y; constraints (x*y)=1; end"},
    {"prec-double-minus", "variables x,y; constraints x--y=1; end", "variables x,y; constraints (x-(-y))=1; end"},
    {"prec-minus-index", "variables x[2]; constraints -x(1)=1; end", "variables x[2]; constraints (-(x(1)))=1; end"},
    {"prec-minus-transpose", "variables x[2],y[2]; constraints -x'*y=1; end", "variables x[2],y[2]; constraints (-((x')*y))=1; end"},
    // ---- documented forms
    {"doc-system", "Variables\n  x in [-1,1];\n  y in [-1,1];\n\nMinimize\n  x+y;\n\nConstraints\n  x^2+y^2<=1;\nend\n", NULL},
    {"doc-constants", "Constants\n e=0.5772156649;\n y=-1.0;\n x[2] = (0; 1);\n r[1][2] = (0, 1);\n M[3][2] = ((0 , 0) ; (0 , 1) ; (1 , 0));\n c[10][10] in [0,0];\nvariables v[2];\nconstraints\n M*v=(e;y;0);\n r*v>=x(2)+c(3,4);\nend", NULL},
    {"doc-loop", "Variables\n x[10];\nConstraints\n for i=1:10;\n  x(i) <= i;\n end\nend", NULL},
    {"doc-function", "function distance(xa,ya,xb,yb)\n return sqrt((xa-xb)^2+(ya-yb)^2);\nend\nvariables xA,yA,xB in [0,1];\nconstraints\n distance(xA,1.0,yA,1.0)<=0;\n distance(xA,xB+yA,yA,yA)=0;\nend", NULL},
    {"doc-euler", "function euler(phi,theta,psi)\n cphi = cos(phi);\n sphi = sin(phi);\n ctheta = cos(theta);\n stheta = sin(theta);\n cpsi = cos(psi);\n spsi = sin(psi);\n return ( (ctheta*cpsi, -cphi*spsi+stheta*cpsi*sphi, spsi*sphi+stheta*cpsi*cphi) ;\n (ctheta*spsi, cpsi*cphi+stheta*spsi*sphi, -cpsi*sphi+stheta*cphi*spsi) ;\n (-stheta, ctheta*sphi, ctheta*cphi) );\nend\nvariables a,b,c;\nconstraints euler(a,b,c)(1,2)=0; euler(a,b,c)*(a;b;c)=(1;2;3); end", NULL},
    {"doc-intervals", "variables x in [0,+oo], y in [-oo,oo], z in [1.01e-02,1.02e-02], w[2] in ([-oo,0];[0,+oo]);\nconstraints x+y+z+w(1)<=1; end", NULL},
    {"comments-and-case", "VARIABLES x; // comment ; end\n/* a\n * multi-line ** comment */ CONSTRAINTS x>=0 /**/ ; END", NULL},
    // ---- forms of the grammar that the documentation does not list
    {"in-constraint", "variables x; constraints x^2 in [1,4]; end", NULL},
    {"in-constraint-unbounded", "variables x; constraints x in [0,oo]; end", NULL},
    {"in-constraint-unbounded-below", "variables x in [-5,5]; constraints x in [-oo,3]; end", NULL},
    {"integer-constraint", "variables x,y; constraints integer(x+2*y); x<=y; end", NULL},
    {"parenthesised-constraint", "variables x; constraints (x>=0); ((x<=1)); end", NULL},
    {"tmp-symbols", "variables x[3]; constraints for i=1:2; z=x(i)+x(i+1); z*z>=i; end; z=x(3); z<=0; end", NULL},
    {"tmp-symbol-shadowing-iterator", "variables x[3]; constraints for i=1:2; z=x(i); for i=3:3; z+x(i)>=0; end end end", NULL},
    {"nested-loops-and-sum", "constants n=3; variables x[n][n]; constraints for i=1:n; for j=i:n; x(i,j)=x(j,i); end; sum(k=1:n, x(i,k)^k)<=i; end end", NULL},
    {"empty-loop", "variables x; constraints for i=3:1; x>=i; end; x<=0; end", NULL},
    // ---- ball constants <centre,radius>: the interval must contain the whole ball (radius rounded upward)
    {"ball-third", "variables x; constraints x in <0,1/3>; end", NULL},
    {"ball-pi", "variables x,y; constraints x*<1,pi>+y=<0,pi/4>; end", NULL},
    {"ball-domain-and-vector", "constants r=1/3; variables x in <0,r>, v[2] in <(1;2),0.1>; constraints x+v(1)<=<2,[0.5,2]>; end", NULL},
    {"ball-exact", "variables x; constraints x=<1,0.5>; end", "variables x; constraints x=[0.5,1.5]; end"},
    // ---- a single range index on a matrix selects rows
    {"single-range-on-matrix", "variables A[3][4]; constraints A(2:3)(1,2)=1; A(2:3)(2,4)<=2; end", "variables A[3][4]; constraints A(2,2)=1; A(3,4)<=2; end"},
    {"single-range-on-tall-matrix", "variables A[4][2],y[2]; constraints A(1:3)*y=(1;2;3); end", "variables A[4][2],y[2]; constraints A(1:3,:)*y=(1;2;3); end"},
    {"single-range-on-constant-matrix", "constants M[3][3]=((1,2,3);(4,5,6);(7,8,9)); variables x; constraints x=M(2:3)(2,2); end", "variables x; constraints x=8; end"},
    // ---- an iterator where the text is evaluated while it is read (no value yet): rejected, not read as -1
    {"iterator-in-interval-bound", "variables x[3]; constraints for i=1:3; x(i) in [i,i+1]; end end", NULL},
    {"iterator-in-interval-factor", "variables x[3]; constraints for i=1:3; x(i)=[i,i]*2; end end", NULL},
    {"iterator-right-of-in", "variables x[3]; constraints for i=1:3; x(i) in i; end end", NULL},
    {"iterator-minus-one-is-a-value", "variables x[3]; constraints for i=-1:1; x(i+2)>=i; end end", "variables x[3]; constraints x(1)>=-1; x(2)>=0; x(3)>=1; end"},
    // ---- calls with constant arguments are folded when the text is read: every call has its own value
    {"constant-calls-difference", "function g(a) return a^2+1; end variables x,y; minimize x+(g(2)-g(5)); constraints y-g(1)*g(3)<=0; end", "function g(a) return a^2+1; end variables x,y; minimize x+(5-26); constraints y-2*10<=0; end"},
    {"constant-calls-two-arguments", "function h(a,b) return a*b-a; end variables x; constraints (h(2,3)-h(4,1))*x>=h(1,1)+h(3,5); end", "variables x; constraints (4-0)*x>=0+12; end"},
    {"constant-calls-nested-and-vector", "function g(a) return 2*a+1; end function v(a) return (a;a+1); end variables x[2]; constraints x-(v(1)+v(4))=(g(g(1))-g(0);g(2)-g(3)); end", "variables x[2]; constraints x-((1;2)+(4;5))=(7-1;5-7); end"},
    {"constant-calls-in-loop", "function g(a) return a*a; end variables x[3]; constraints for i=1:3; x(i)+g(i)-g(i+1)>=g(2)-g(1); end end", "variables x[3]; constraints x(1)+1-4>=3; x(2)+4-9>=3; x(3)+9-16>=3; end"},
    {"range-growing-with-iterator", "variables x[3]; constraints for i=1:3; x(1:i)'*x(1:i)=i; end end", "variables x[3]; constraints x(1)*x(1)=1; x(1:2)'*x(1:2)=2; x(1:3)'*x(1:3)=3; end"},
    {"range-shrinking-with-iterator", "variables x[3]; constraints for i=1:3; x(i:3)'*x(i:3)>=i; end end", "variables x[3]; constraints x(1:3)'*x(1:3)>=1; x(2:3)'*x(2:3)>=2; x(3)*x(3)>=3; end"},
    {"range-degenerate-in-the-middle", "variables x[4]; constraints for i=1:3; x(2:i+1)'*x(2:i+1)<=i; end end", "variables x[4]; constraints x(2)*x(2)<=1; x(2:3)'*x(2:3)<=2; x(2:4)'*x(2:4)<=3; end"},
    {"matrix-row-range-with-iterator", "variables M[3][3]; constraints for i=1:3; M(i,1:i)*M(i,1:i)'=i; end end", "variables M[3][3]; constraints M(1,1)*M(1,1)=1; M(2,1:2)*M(2,1:2)'=2; M(3,1:3)*M(3,1:3)'=3; end"},
    {"sum-with-range-on-iterator", "function f(x[3]) return sum(i=1:3, x(1:i)'*x(1:i)); end variables x[3]; constraints f(x)=20; end", "variables x[3]; constraints x(1)*x(1)+x(1:2)'*x(1:2)+x(1:3)'*x(1:3)=20; end"},
    {"nested-loops-range-on-both-iterators", "variables x[3]; constraints for i=1:2; for j=i:3; x(i:j)'*x(i:j)>=i+j; end end end", "variables x[3]; constraints x(1)*x(1)>=2; x(1:2)'*x(1:2)>=3; x(1:3)'*x(1:3)>=4; x(2)*x(2)>=4; x(2:3)'*x(2:3)>=5; end"},
    {"optional-semicolons", "variables x,y; minimize x constraints x>=0; for i=1:2; y>=i end y<=3 end", NULL},
    {"empty-constraints", "variables x; minimize x; constraints end", NULL},
    {"c-style-index", "variables x[3],M[2][3]; constraints x[0]+M[1][2]=M(2,3)+x(1); M[1]*x>=0; end", NULL},
    {"ranges", "variables x[4],M[3][3]; constraints x(2:3)=M(1,2:3)'; M(:,2)=x(1:3); M(2:3,:)*x(2:4)<=(0;0); M(:,:)*M(2,:)'=x(1:3); end", NULL},
    {"row-vector-variable", "variables r[1][3]; constraints r(2)=1; r*r'>=1; r'=(1;2;3); end", NULL},
    {"matrix-literals", "variables x,y; constraints ((x,y);(y,x))*(1;2)=(3;4); ((x;y),(1;2))=((1,1);(2,2)); end", NULL},
    {"power-forms", "variables x,y; constraints x^0=1; x^1=y; x^2=y; x^-1=y; x^(1+1)=y; x^y=2; x^0.5=2; x^2.0=y; pow(x,3)=y; sqr(x)=y; end", NULL},
    {"constant-power-of-variable", "variables x; constraints 2^x=3; end", NULL},
    {"max-min-nary", "variables x,y,z; constraints max(x,y,z)<=1; min(x,y,z,1)>=0; max(1,2,3)=x; end", NULL},
    {"constant-folding", "constants a=2; b=a*3+1; c[2]=(a;b); variables x; constraints x=b; c(2)*x+c(1)>=a^2-b/2; abs(-3)+sqr(2)+floor(2.5)+ceil(2.5)=x; end", NULL},
    {"chi-of-constants", "constants c=chi(1,2,3); variables x; constraints x>=c; end", NULL},
    {"elementary-function-of-constant", "constants c=cos(0); variables x; constraints x>=c; end", NULL},
    {"pi", "variables x in [0,pi]; constraints sin(x)=0; x<=pi; end", NULL},
    {"hex-constants", "variables x in [#3fe0000000000000,#4000000000000000]; constraints x=#3ff8000000000000; x>=-#3fe0000000000000; end", NULL},
    {"hex-negzero", "variables x in [-1,#8000000000000000]; constraints x=0; end", NULL},
    {"hex-uppercase", "variables x; constraints x=#3FF8000000000000; end", NULL},
    {"number-forms", "variables x; constraints x=1.; x=.5; x=1e2; x=1.5e-1; x=12345e+1; x=123456; x=0001; x=1.e1; end", NULL},
    {"function-before-and-after-variables", "function f(a) return a+1; end variables x; function g(b[2]) return f(b(1))*b(2); end constraints g((x;x))=f(x); end", NULL},
    {"function-vector-result", "function f(a,b[2]) t=a*b; return (t(1);t(2);a); end variables x,y[2]; constraints f(x,y)=(1;2;3); f(x,y)(3)=x; end", NULL},
    {"function-shadowing-constant", "constants c=2; function f(a) c=a+1; return c*a; end variables x; constraints f(x)=c; end", NULL},
    {"constant-named-like-argument", "constants a=2; function f(x) return a*x; end variables x; constraints f(x)=a; end", NULL},
    // ---- malformed texts
    {"bad-index-in-goal", "variables x; minimize x(5); constraints x>=0; end", NULL},
    {"bad-range-in-goal", "variables x[3]; minimize x(2:1); constraints x(1)>=0; end", NULL},
    {"bad-index-in-function", "variables x[3]; function f(y[2]) return y(3); end constraints f(x(1:2))>=0; end", NULL},
    {"bad-index-in-constraint", "variables x[3]; constraints x(5)>=0; end", NULL},
    {"zero-index", "variables x[2]; constraints x(0)=0; end", NULL},
    {"dimension-mismatch-goal", "variables x[2],y[3]; minimize x*y; constraints x(1)>=0; end", NULL},
    {"dimension-mismatch-constraint", "variables x[2],y[3]; constraints x+y=0; end", NULL},
    {"scalar-vs-vector", "variables x[2]; constraints x=0; end", NULL},
    {"negative-dimension", "variables x[-1]; constraints x=0; end", NULL},
    {"zero-dimension", "variables x[0]; constraints x(1)=0; end", NULL},
    {"fractional-dimension", "variables x[1.5]; constraints x=0; end", NULL},
    {"reversed-sum", "variables x; constraints sum(i=3:1,x)>=0; end", NULL},
    {"vector-exponent", "variables x; constraints x^(1,2)=0; end", NULL},
    {"duplicate-variable", "variables x, x; constraints x=0; end", NULL},
    {"constant-redeclared-as-variable", "constants c=1; variables c; constraints c=0; end", NULL},
    {"infinity-in-expression", "variables x; constraints x=oo; end", NULL},
    {"inf-of-variable", "variables x; constraints inf(x)=0; end", NULL},
    {"duplicate-function", "variables x; function f(a) return a; end function f(b) return b; end constraints f(x)=0; end", NULL},
    {"wrong-number-of-arguments", "function f(a,b) return a+b; end variables x; constraints f(x)=0; end", NULL},
    {"wrong-argument-dimension", "function f(a[2]) return a(1); end variables x; constraints f(x)=0; end", NULL},
    {"undefined-symbol", "variables x; constraints x+y=0; end", NULL},
    {"variable-inside-function", "variables x; function f(a) return a+x; end constraints f(x)=0; end", NULL},
    {"missing-end", "variables x; constraints x=0;", NULL},
    {"not-a-system", "variables x;", NULL},
    {"only-a-function", "function f(a) return a; end", NULL},
    {"empty-text", "", NULL},
    {"unbalanced", "variables x; constraints (x+1=0; end", NULL},
    {"double-semicolon", "variables x; constraints x=0;; x=1; end", NULL},
    {"empty-loop-body", "variables x; constraints for i=1:2; end end", NULL},
    {"chained-comparison", "variables x; constraints 0<=x<=1; end", NULL},
    {"unterminated-comment", "variables x; constraints x=0; /* end", NULL},
    {"three-dimensions", "variables x[2][2][2]; constraints x(1,1)=0; end", NULL},
    {"vector-goal", "variables x[2]; minimize x; constraints x(1)>=0; end", NULL},
    {"huge-hex", "variables x; constraints x=#123456789abcdef01; end", NULL},
    {"nan-hex", "variables x; constraints x=#7ff8000000000000; end", NULL},
    {"thick-index", "constants c in [1,2]; variables x[2]; constraints x(c)=0; end", NULL},
    {"overflowing-literal", "variables x; constraints x<=1e400; end", NULL},
    {"huge-exponent", "variables x; constraints x^99999999999=0; end", NULL},
  };
  // variables whose names look like the names the library generates for its own intermediate symbols ("_x_<k>", k = a
  // process-wide counter): whatever the value of the counter is (below 96), the serialised text must not re-use one of them
  static string gen_names_text, gen_names_text2;
  if (gen_names_text.empty()) {
    string decl, sum; for (int k = 0; k < 96; k++) { decl += (k ? "," : "") + string("_x_") + to_string(k); sum += (k ? "+" : "") + string("_x_") + to_string(k); }
    gen_names_text = "variables " + decl + "; constraints " + sum + ">=1; _x_0^2-4<=0; end";
    gen_names_text2 = "variables " + decl + "; minimize _x_3*_x_5; constraints _x_0^2-4<=0; end";
  }
  vector<TC> all_cases(cases, cases + sizeof(cases) / sizeof(cases[0]));
  all_cases.push_back(TC{"variables-named-like-generated-symbols", gen_names_text.c_str(), NULL});
  all_cases.push_back(TC{"variables-named-like-generated-symbols-with-goal", gen_names_text2.c_str(), NULL});
  for (const TC& tc : all_cases) {
    if (g_timeouts > MAX_TIMEOUTS) { EMIT("mbxstop too-many-timeouts\n"); break; }
    string text = tc.text; mbx::RefResult R = mbx::read_system(text);
    string valid = "variables x in [0,1]; constraints x^2<=1; end";
    vector<string> rec = parse_sequence(text, valid, 0, false, 4);
    if (getenv("VERIF_TRACE")) fprintf(stderr, "CORNER %s ref=%d(%s) real=%s\n", tc.kind, (int)R.t, R.why.c_str(), rec[0].substr(0, 60).c_str());
    string rt = ref_tokens(R);
    if (R.t == mbx::RefResult::ACCEPT) { string pts = points(r, R.m.nvar()); EMIT("mbxsys strict corner:%s %s %s => %s\n", tc.kind, model_dump(R.m).c_str(), pts.c_str(), rec[0].c_str()); }
    else EMIT("mbxmut corner:%s %s => %s\n", tc.kind, rt.c_str(), rec[0].c_str());
    { mbx::RefResult V = mbx::read_system(valid); string pts = points(r, 1); string first = rec[0].substr(0, rec[0].find(' '));
      EMIT("mbxsys strict corner-after:%s:%s %s %s => %s\n", tc.kind, slug(first, 20).c_str(), model_dump(V.m).c_str(), pts.c_str(), rec[1].c_str()); }
    if (tc.paren) {
      string fa = scratch(".mbx"), fb = scratch(".mbx"); spit(fa, text); spit(fb, tc.paren);
      Child c = isolated([&](int fd) { wr(fd, parse_system_file(fb, 0) + "\n"); wr(fd, parse_system_file(fa, 0) + "\n"); }, 4);
      vector<string> rr = records(c, 2);
      if (rr[0].compare(0, 7, "parsed ") == 0) { mbx::RefResult P = mbx::read_system(tc.paren); string pts = points(r, P.t == mbx::RefResult::ACCEPT ? P.m.nvar() : 3);
        EMIT("mbxsys strict pair:%s %s %s => %s\n", tc.kind, rr[0].substr(7).c_str(), pts.c_str(), rr[1].c_str()); }
      else EMIT("mbxmut pair-paren:%s accept - - - - - - - => %s\n", tc.kind, rr[0].c_str());
    }
    // the loaded system must also survive serialisation
    if (rec[0].compare(0, 7, "parsed ") == 0) {
      string fn = scratch(".mbx"); spit(fn, text);
      Child c = isolated([&](int fd) { string res = guarded([&]() { System s(fn.c_str(), 0); string d = sys_dump(s); string t2 = s.minibex(false); string fn2 = fn + ".rt"; spit(fn2, t2);
                                                                     return to_string(s.nb_var) + "\n" + d + "\n" + guarded([&]() { System s2(fn2.c_str(), 0); return sys_dump(s2); }); }); wr(fd, res + "\n"); }, 4);
      vector<string> rr = records(c, 3);
      if (rr[0].compare(0, 7, "parsed ") == 0) { int nv = atoi(rr[0].c_str() + 7); string pts = points(r, nv); EMIT("mbxsys flat corner-rt:%s %s %s => %s\n", tc.kind, rr[1].c_str(), pts.c_str(), rr[2].c_str()); }
    }
  }
  // ---- mutable constants ("*c = v"): ONE object of the loaded system; after the value is changed through System::constant(name)
  //      the whole system (constraints AND the functions that use the constant) must denote the text written with the new value
  {
    struct MC { const char* kind; const char* text; const char* name; double val; const char* after; int simpl; };
    static const MC mcs[] = {
      // (no mutation, name == NULL: the text with mutable constants loaded at simplification level 2 / 3 against the same text
      //  with plain constants at level 0)
      {"mutable-constant-range-index-level2", "constants *b[3]=(1;2;3); *B[2][2]=((1,2);(3,4)); variables y[2]; constraints y=b(2:3); y=B(:,2); y(1)=b(2); y'=B(2,:); end", NULL, 0.0,
                                              "constants b[3]=(1;2;3); B[2][2]=((1,2);(3,4)); variables y[2]; constraints y=b(2:3); y=B(:,2); y(1)=b(2); y'=B(2,:); end", 2},
      {"mutable-constant-range-index-level3", "constants *b[4]=(1;2;3;4); *B[3][2]=((1,2);(3,4);(5,6)); variables y[2]; constraints y=b(3:4)+b(1:2); y=B(2:3,1); B(1:2,:)*y=b(2:3); end", NULL, 0.0,
                                              "constants b[4]=(1;2;3;4); B[3][2]=((1,2);(3,4);(5,6)); variables y[2]; constraints y=b(3:4)+b(1:2); y=B(2:3,1); B(1:2,:)*y=b(2:3); end", 3},
      // (products of two CONSTANTS folded while the text is read: column * row is an outer product)
      {"constant-outer-product-folded", "constants u[2]=(1;2); v[1][2]=(3,4); variables x,y; constraints x=(u*v)(1,2); y>=(u*v)(2,1); x+y<=(v*u); end", NULL, 0.0,
                                        "variables x,y; constraints x=4; y>=6; x+y<=11; end", 0},
      {"constant-outer-product-3x2", "constants u[3]=(1;2;5); v[1][2]=(3,4); variables x[2]; constraints x'=(u*v)(3,:); x(1)>=(u*v)(2,2); end", NULL, 0.0,
                                        "variables x[2]; constraints x'=(15,20); x(1)>=8; end", 0},
      {"mutable-constant-range-index-level1", "constants *b[3]=(1;2;3); variables y[2]; constraints y=b(1:2); end", NULL, 0.0, "constants b[3]=(1;2;3); variables y[2]; constraints y=b(1:2); end", 1},
      {"mutable-constant-in-function", "constants *c=2; d=5; function g(y) return c*y+d; end variables x; constraints g(x)=0; c*x=1; g(x)-c*x=d; end", "c", 4.0,
                                       "constants c=4; d=5; function g(y) return c*y+d; end variables x; constraints g(x)=0; c*x=1; g(x)-c*x=d; end", 0},
      {"mutable-constant-in-nested-functions", "constants *c=2; function h(z) return z+c; end function g(y) return h(y)*c; end variables x; minimize g(x)+c; constraints h(g(x))>=c; end", "c", -1.5,
                                       "constants c=-1.5; function h(z) return z+c; end function g(y) return h(y)*c; end variables x; minimize g(x)+c; constraints h(g(x))>=c; end", 0},
      {"mutable-constant-in-constraints-only", "constants *c=1; variables x,y; constraints x+c*y=c; x-y<=c^2; end", "c", 3.0, "constants c=3; variables x,y; constraints x+c*y=c; x-y<=c^2; end", 0},
      {"mutable-constant-in-loop-and-function", "constants *c=2; function g(y) return y^2-c; end variables x[2]; constraints for i=1:2; g(x(i))+c*i>=0; end end", "c", 0.5,
                                       "constants c=0.5; function g(y) return y^2-c; end variables x[2]; constraints for i=1:2; g(x(i))+c*i>=0; end end", 0},
    };
    for (const MC& mc : mcs) {
      string fa = scratch(".mbx"), fb = scratch(".mbx"); spit(fa, mc.text); spit(fb, mc.after);
      Child c = isolated([&](int fd) { wr(fd, parse_system_file(fb, 0) + "\n");
                                       wr(fd, guarded([&]() { System s(fa.c_str(), mc.simpl); if (mc.name) s.constant(mc.name).i() = Interval(mc.val); return sys_dump(s); }) + "\n"); }, 4);
      vector<string> rr = records(c, 2);
      if (rr[0].compare(0, 7, "parsed ") == 0) { mbx::RefResult P = mbx::read_system(mc.after); string pts = points(r, P.t == mbx::RefResult::ACCEPT ? P.m.nvar() : 3);
        EMIT("mbxsys strict pair:%s %s %s => %s\n", mc.kind, rr[0].substr(7).c_str(), pts.c_str(), rr[1].c_str()); }
      else EMIT("mbxmut pair-paren:%s accept - - - - - - - => %s\n", mc.kind, rr[0].c_str());
    }
  }
}
