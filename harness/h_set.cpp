// Workloads for C19, last sentence: "set pavings label a leaf inside/outside only if all its points are".
// Drives the real ibex::Set / ibex::SetInterval (constructors, Sep::contract, &=, |=, is_superset, is_empty, dist,
// save / load) with separators over (a) synthetic exact leaves (unions of boxes, comb_gen.h) and (b) polynomial
// constraints, walks the paving with a SetVisitor and prints every leaf.   Usage: h_set <workload> <seed> <count> [full]
//
// line formats (see lean/Driver/OpsSet.lean):
//   pav <n> <k> <step1> ... <stepk> <leaf defs...> @ <queries...> => <leaves...> empty=<0|1> sup=<answers|-> dist=<d,d|->
//       steps:   A:=all/<st>   A:=box/<st>/<box>   A:=ibox/<st>/<box>   A:=fn/<eps>/<C id>   A:=nc/<eps>/<C id>
//                A:=sys/<eps>/<C id>.<C id>...   A*=sep/<eps>/<tree>   A*=isep/<eps>/<s1><s2>/<tree>   A&=B   A|=B   A:=load
//       queries: sup:<box>   dist:<0|1>:<point>   pts:<point>|<point>...
//       leaves:  <Y|N|M>@<box>      (the leaves of object A after the last step)
//   sepx <n> <sep-tree> <leaf defs...> @ <x> => <x_in> <x_out>            (one call of Sep::separate)
//   cpdc <n> <pdc-tree> <constraint defs...> @ <x> <points> => <Y|N|M|E>  (predicates over PdcFwdBwd)
//   cst  ...                                                              (see comb_gen.h; repeated calls of one CtcInverse)
#include "comb_gen.h"
#include <unistd.h>
#include <sys/wait.h>

struct Collect : public SetVisitor {
  vector<pair<IntervalVector, BoolInterval> > L;
  void visit_leaf(const IntervalVector& b, BoolInterval s) { L.push_back(make_pair(b, s)); }
};
static char stc(BoolInterval b) { return b == YES ? 'Y' : b == NO ? 'N' : b == MAYBE ? 'M' : 'E'; }
static long skipped = 0;
static const size_t MAX_LEAVES = 2600;

static double pick_eps(Gen& g, int n) {
  if (g.general && g.r.coin(60)) return (30 + g.r.below(171)) / 100.0 * (n >= 3 ? 2 : 1);
  static const double E2[] = {0.5, 1.0, 0.5, 2.0, 0.25, 1.0};
  static const double E3[] = {1.0, 2.0, 1.0, 1.5};
  return n >= 3 ? E3[g.r.below(4)] : E2[g.r.below(6)];
}
// bounded box around the core point of the case
static IntervalVector bounded_box(Gen& g, int n) {
  if (!g.core_set) g.set_core();
  IntervalVector v(n);
  for (int i = 0; i < n; i++) {
    double lo = g.general ? (50 + g.r.below(250)) / 100.0 : g.r.range(1, 6) / 2.0, hi = g.general ? (50 + g.r.below(250)) / 100.0 : g.r.range(1, 6) / 2.0;
    v[i] = Interval(g.core[i] - lo, g.core[i] + hi);
  }
  return v;
}
static BoolInterval rand_status(Rng& r, int py, int pm) { int k = r.below(100); return k < py ? YES : k < py + pm ? MAYBE : NO; }

static string tmpfile_name() { char buf[128]; snprintf(buf, sizeof buf, "/tmp/vh_set_%d.bin", (int)getpid()); return buf; }

// Set::dist in a child process (a crash of the library must not stop the workload)
static string forked_dist(const Set& s, const Vector& pt, bool inside) {
  int fd[2]; if (pipe(fd) != 0) return "CRASH";
  fflush(stdout);
  pid_t pid = fork();
  if (pid == 0) { close(fd[0]); double d = s.dist(pt, inside); ssize_t k = write(fd[1], &d, 8); VH_EXIT(k == 8 ? 0 : 3); }
  close(fd[1]); double d = 0; ssize_t k = read(fd[0], &d, 8); close(fd[0]); int st = 0; waitpid(pid, &st, 0);
  if (k != 8 || !WIFEXITED(st) || WEXITSTATUS(st) != 0) return "CRASH";
  return hex(d);
}

// polynomial as an expression over the symbols xs (for NumConstraint / System)
static const ExprNode& poly_expr(const Poly& p, const Array<const ExprSymbol>& xs) {
  const ExprNode* sum = NULL;
  for (size_t k = 0; k < p.mons.size(); k++) {
    const ExprNode* t = &ExprConstant::new_scalar(Interval(p.mons[k].first));
    for (int i = 0; i < p.n; i++) if (p.mons[k].second[i] > 0) t = &((*t) * pow(xs[i], p.mons[k].second[i]));
    sum = sum ? &((*sum) + (*t)) : t;
  }
  return *sum;
}
// polynomials whose zero set is bounded and whose forward-backward contraction of R^n is finite: positive definite
// quadratic form minus a positive constant (every variable occurs once); in dimension 1 also a*x^k + c.
// `inner`: the set {p <= 0} is bounded (then {p op 0} is bounded for op in {<, <=, =})
static Poly bounded_poly(Rng& r, int n, bool& inner) {
  Poly p; p.n = n; inner = false;
  if (n == 1 && r.coin(50)) {
    vector<int> e(1, 1 + (int)r.below(3)), z(1, 0);
    p.mons.push_back(make_pair(small_coef(r), e)); p.mons.push_back(make_pair((r.coin() ? 1 : -1) * (r.range(0, 8) / 2.0), z));
    if (e[0] == 2 && p.mons[0].first * p.mons[1].first > 0) p.mons[1].first = -p.mons[1].first;
    inner = e[0] == 2 && p.mons[0].first > 0;
    return p;
  }
  static const double A[] = {1, 1, 0.5, 2, 0.25};
  for (int i = 0; i < n; i++) { vector<int> e(n, 0); e[i] = 2; p.mons.push_back(make_pair(A[r.below(5)], e)); }
  vector<int> z(n, 0); p.mons.push_back(make_pair(-(r.range(1, 12) / 2.0), z));
  inner = true;
  if (r.coin(30)) { inner = false; for (size_t k = 0; k < p.mons.size(); k++) p.mons[k].first = -p.mons[k].first; }   // the exterior
  return p;
}

static void trace(const string& what) { if (getenv("VH_DEBUG")) fprintf(stderr, "[trace] %s\n", what.c_str()); }
struct SetCase {
  Gen g; CGen cg; Rng& r; int n; bool cons;   // cons: constraint-based separators allowed (point refutation only)
  vector<string> steps;
  Set *A, *B, *C; SetInterval* IA;
  vector<NumConstraint*> ncs; vector<System*> syss;
  SetCase(Rng& r, bool general, int depth, int n, bool cons) : g(r, general, depth), cg(g), r(r), n(n), cons(cons), A(NULL), B(NULL), C(NULL), IA(NULL) {
    g.allow_bnd = true; cg.allow_bndc = true;
  }
  ~SetCase() {
    delete A; delete B; delete C; delete IA;
    for (size_t i = 0; i < syss.size(); i++) delete syss[i];
    for (size_t i = 0; i < ncs.size(); i++) delete ncs[i];
  }
  int def_poly(const Poly& p, const char* opn) { int id = cg.nC++; g.leafdefs.push_back("C" + to_string(id) + "=" + opn + "=" + p.tok()); return id; }
  void step(const string& s) { steps.push_back(s); trace(s); }

  // some leaf that is not NO is unbounded: only exact separators without thick boundary may refine it (dimension 1),
  // otherwise the refinement down to eps does not terminate
  static bool unbounded_live(const Set& s) {
    Collect v; s.visit(v);
    for (size_t i = 0; i < v.L.size(); i++) if (v.L[i].second != NO && v.L[i].first.is_unbounded()) return true;
    return false;
  }
  Sep* some_sep(string& tree, bool thin, bool exact_only) {
    g.thin = thin;
    int depth = r.range(0, n >= 3 ? 1 : g.maxdepth);
    if (cons && !exact_only && r.coin(75)) return cg.sep(n, min(depth, 2), tree);
    return g.sep(n, depth, tree);
  }
  Set* box_set(const string& name) {
    BoolInterval st = rand_status(r, 70, 20);
    IntervalVector b = bounded_box(g, n);
    step(name + ":=box/" + stc(st) + "/" + tok(b));
    return new Set(b, st);
  }
  void cut_by_box(Set& s, const string& name) {   // intersection with a bounded set held by object C
    delete C; C = NULL; C = box_set("C"); step(name + "&=C"); s &= (*C);
  }
  // separator step on the Set s (named `name`): the separator is chosen so that the refinement terminates
  void sep_step(Set& s, const string& name) {
    bool unb = unbounded_live(s);
    if (unb && (n > 1 || r.coin(40))) { cut_by_box(s, name); return; }
    string tree; Sep* sp = some_sep(tree, unb || r.coin(35), unb); double eps = pick_eps(g, n);
    step(name + "*=sep/" + hex(eps) + "/" + tree); trace(g.defs());
    // history of the separator OBJECT: it may have been used before on an i-set with other statuses (result thrown away);
    // the contraction of a plain set must not depend on it
    if (r.coin(30)) { IntervalVector tb = bounded_box(g, n); SetInterval tmp(tb, MAYBE); int j = r.below(3);
      try { sp->contract(tmp, std::max(eps, 0.25), j == 0 ? NO : (j == 1 ? MAYBE : NO), j == 0 ? YES : (j == 1 ? YES : MAYBE)); } catch (...) {} }
    sp->contract(s, eps);
  }
  Set* init_set(const string& name) {
    int k = r.below(100);
    if (k < 70) return box_set(name);
    if (k < 73) {   // whole space, status YES / MAYBE, then intersected with a bounded set
      BoolInterval st = r.coin(70) ? YES : MAYBE; Set* s = new Set(n, st); step(name + ":=all/" + stc(st));
      cut_by_box(*s, name); return s;
    }
    if (k < 76) {   // empty set, then union with a bounded set
      Set* s = new Set(n, NO); step(name + ":=all/N");
      delete C; C = NULL; C = box_set("C"); step(name + "|=C"); (*s) |= (*C); return s;
    }
    if (k < 88 || !cons) {   // whole space contracted by a separator
      Set* s = new Set(n, YES); step(name + ":=all/Y");
      sep_step(*s, name); return s;
    }
    // constructors from a function / a constraint / a system (bounded zero sets)
    double eps = pick_eps(g, n); int kind = r.below(3);
    bool inner; Poly p = bounded_poly(r, n, inner); CmpOp op = rand_op(r); if (r.coin(15)) op = EQ;
    // is the set {p op 0} bounded?  (the zero set always is; -q + c >= 0 is the inside of the ellipsoid)
    bool bounded_set = op == EQ || (inner && (op == LEQ || op == LT)) || (!inner && n > 1 && (op == GEQ || op == GT));
    if (kind == 0) {
      Function* f = make_fn(p); g.fns.push_back(f); int id = def_poly(p, opname(op));
      step(name + ":=fn/" + hex(eps) + "/" + to_string(id)); return new Set(*f, op, eps);
    }
    if (kind == 1) {
      Function* f = make_fn(p); g.fns.push_back(f); int id = def_poly(p, opname(op));
      NumConstraint* c = new NumConstraint(*f, op); ncs.push_back(c);
      step(name + ":=nc/" + hex(eps) + "/" + to_string(id)); return new Set(*c, eps);
    }
    SystemFactory fac; Array<const ExprSymbol> xs(n);
    for (int i = 0; i < n; i++) { char nm[16]; snprintf(nm, sizeof nm, "x%d", i + 1); xs.set_ref(i, ExprSymbol::new_(nm)); fac.add_var(xs[i]); }
    string ids; int m = bounded_set ? r.range(1, 3) : 1;   // further constraints only inside a bounded set (finite refinement)
    for (int j = 0; j < m; j++) {
      Poly q = j == 0 ? p : rand_poly(r, n); CmpOp o = j == 0 ? op : rand_op(r);
      if (o == EQ && j > 0) o = LEQ;
      int id = def_poly(q, opname(o)); if (j) ids += "."; ids += to_string(id);
      fac.add_ctr(ExprCtr(poly_expr(q, xs), o));
    }
    System* sys = new System(fac); syss.push_back(sys);
    step(name + ":=sys/" + hex(eps) + "/" + ids); return new Set(*sys, eps);
  }
  void reload(bool iset) {
    string f = tmpfile_name();
    step("A:=load");
    if (iset) { IA->save(f.c_str()); delete IA; IA = NULL; IA = new SetInterval(f.c_str()); }
    else { A->save(f.c_str()); delete A; A = NULL; A = new Set(f.c_str()); }
    unlink(f.c_str());
  }
  void build_set() {
    if (r.coin(4)) {   // a whole-space set of any status, possibly combined with one bounded set (is_empty on one-leaf pavings)
      BoolInterval st = rand_status(r, 34, 33); A = new Set(n, st); step(string("A:=all/") + stc(st));
      if (r.coin(50)) { delete B; B = NULL; B = box_set("B"); if (r.coin()) { step("A&=B"); (*A) &= (*B); } else { step("A|=B"); (*A) |= (*B); } }
      return;
    }
    A = init_set("A");
    int nops = r.range(1, 3);
    for (int k = 0; k < nops; k++) {
      int c = r.below(100);
      if (c < 60) sep_step(*A, "A");
      else if (c < 88) {
        delete B; B = NULL; B = init_set("B");
        if (r.coin(40)) sep_step(*B, "B");
        if (r.coin()) { step("A&=B"); (*A) &= (*B); } else { step("A|=B"); (*A) |= (*B); }
      }
      else reload(false);
    }
  }
  // i-set: the successive pieces of information are all true for the sets X with lo(S*) <= X <= hi(S*), where
  // S* = inter(T0, box separator): the information is consistent by construction (when the box is MAYBE)
  void build_iset() {
    BoolInterval st = rand_status(r, 10, 75);
    IntervalVector b = bounded_box(g, n);
    step(string("A:=ibox/") + stc(st) + "/" + tok(b)); IA = new SetInterval(b, st);
    int nops = r.range(1, 3);
    static const BoolInterval S1[] = {YES, YES, YES, YES, MAYBE, NO, NO, MAYBE}, S2[] = {NO, NO, NO, MAYBE, NO, YES, MAYBE, YES};
    // separator of the box b (exact leaf) and truth separator
    Boxes U, V; U.push_back(b);
    for (int i = 0; i < n; i++) { IntervalVector h(n); h[i] = Interval(NEG_INFINITY, b[i].lb()); V.push_back(h); IntervalVector k(n); k[i] = Interval(b[i].ub(), POS_INFINITY); V.push_back(k); }
    int sid = g.nS++; g.leafdefs.push_back("S" + to_string(sid) + "=" + Gen::tokB(U) + "=" + Gen::tokB(V));
    Sep* sb = g.keep(new SepOfBoxes(n, U, V)); string tb = "S" + to_string(sid);
    string t0; Sep* s0 = some_sep(t0, r.coin(35), false);
    Array<Sep> a2(2); a2.set_ref(0, *s0); a2.set_ref(1, *sb);
    Sep* star = g.keep(new SepInter(a2)); string tstar = "inter(" + t0 + "," + tb + ")";
    for (int k = 0; k < nops; k++) {
      if (!r.coin(85)) { reload(true); continue; }
      double eps = pick_eps(g, n);
      Sep* sp; string tree; BoolInterval s1, s2;
      if (st != MAYBE && r.coin(60)) {   // arbitrary information (possibly contradictory): exact separators only
        sp = some_sep(tree, r.coin(35), true); int j = r.below(8); s1 = S1[j]; s2 = S2[j];
      } else {
        int kind = r.below(4);
        if (kind == 0) { sp = star; tree = tstar; int j = r.below(3); s1 = j == 2 ? MAYBE : YES; s2 = j == 1 ? MAYBE : NO; }
        else if (kind == 1) { sp = g.keep(new SepNot(*star)); tree = "not(" + tstar + ")"; int j = r.below(3); s1 = j == 2 ? MAYBE : NO; s2 = j == 1 ? MAYBE : YES; }
        else {
          string t1; Sep* s1p = some_sep(t1, r.coin(35), false);
          Array<Sep> a(2); a.set_ref(0, *star); a.set_ref(1, *s1p);
          if (kind == 2) { sp = g.keep(new SepUnion(a)); tree = "union(" + tstar + "," + t1 + ")"; s1 = MAYBE; s2 = NO; }
          else { sp = g.keep(new SepInter(a)); tree = "inter(" + tstar + "," + t1 + ")"; s1 = YES; s2 = MAYBE; }
        }
      }
      step("A*=isep/" + hex(eps) + "/" + stc(s1) + stc(s2) + "/" + tree); trace(g.defs());
      sp->contract(*IA, eps, s1, s2);
    }
  }
};

static double clip(double v) { return v < -12 ? -12 : v > 12 ? 12 : v; }
static double rnd_in(Rng& r, bool general, double lo, double hi) {
  lo = clip(lo); hi = clip(hi); if (lo > hi) swap(lo, hi);
  if (r.coin(25)) return r.coin() ? lo : hi;
  if (!general || r.coin(50)) { double q = std::ceil(lo * 4) / 4 + r.below(1 + (uint64_t)std::max(0.0, std::floor((hi - lo) * 4))) / 4.0; if (q >= lo && q <= hi) return q; }
  double t = (double)(r.next() >> 11) / 9007199254740992.0; double v = lo + t * (hi - lo); return (v >= lo && v <= hi) ? v : lo;
}

static void wl_pav(Rng& r, long count, bool general, int maxdepth, bool cons) {
  for (long it = 0; it < count; it++) {
    int n = r.coin(cons ? 12 : 18) ? 3 : r.range(1, 2);
    SetCase c(r, general, maxdepth, n, cons);
    bool iset = r.coin(25);
    sep_pre_ok = true;
    try { if (iset) c.build_iset(); else c.build_set(); }
    catch (InvalidIntervalVectorOp& e) {   // an exception of the library escaped from the last step
      string line = string("pav ") + to_string(n) + " " + to_string(c.steps.size());
      for (size_t i = 0; i < c.steps.size(); i++) line += " " + c.steps[i];
      EMIT("%s %s@ => EXC\n", line.c_str(), c.g.defs().c_str());
      c.A = c.B = c.C = NULL; c.IA = NULL;   // the trees may be half-destroyed: not deleted
      continue;
    }
    Collect v; bool empty;
    if (iset) { empty = c.IA->is_empty(); if (!empty) c.IA->visit(v); } else { empty = c.A->is_empty(); c.A->visit(v); }
    if (v.L.size() > MAX_LEAVES) { skipped++; continue; }
    // queries
    string q, sup, dist;
    if (!iset && !v.L.empty()) {
      int ns = r.range(1, 4);
      for (int k = 0; k < ns; k++) {
        vector<size_t> ys; for (size_t i = 0; i < v.L.size(); i++) if (v.L[i].second == YES) ys.push_back(i);
        size_t i = (!ys.empty() && r.coin(75)) ? ys[r.below(ys.size())] : r.below(v.L.size());
        IntervalVector b(n);
        for (int d = 0; d < n; d++) { double lo = clip(v.L[i].first[d].lb()), hi = clip(v.L[i].first[d].ub()); b[d] = lo <= hi ? Interval(lo, hi) : Interval(hi); }
        int kind = r.below(6);
        if (kind == 1) { size_t j = (!ys.empty() && r.coin(80)) ? ys[r.below(ys.size())] : r.below(v.L.size());   // hull with another leaf
          for (int d = 0; d < n; d++) b[d] |= Interval(clip(v.L[j].first[d].lb()), clip(v.L[j].first[d].ub())); }
        else if (kind == 2) for (int d = 0; d < n; d++) { double a = rnd_in(r, general, b[d].lb(), b[d].ub()), e = rnd_in(r, general, b[d].lb(), b[d].ub()); b[d] = a <= e ? Interval(a, e) : Interval(e, a); }
        else if (kind == 3) { int d = r.below(n); double w = r.coin() ? 0.25 : 0.5; if (r.coin()) b[d] = Interval(b[d].lb() - w, b[d].ub()); else b[d] = Interval(b[d].lb(), b[d].ub() + w); }
        else if (kind == 4) { int d = r.below(n); double a = r.coin() ? b[d].lb() : b[d].ub(); b[d] = Interval(a); }   // flat box on a face
        q += " sup:" + tok(b); sup += stc(c.A->is_superset(b));
      }
      if (r.coin(30)) {
        int nd = r.range(1, 2);
        for (int k = 0; k < nd; k++) {
          Vector pt(n); for (int d = 0; d < n; d++) pt[d] = general ? rnd_in(r, true, -8, 8) : r.range(-14, 14) / 2.0;
          bool inside = r.coin(60);
          q += string(" dist:") + (inside ? "1" : "0") + ":" + tokpt(pt);
          if (!dist.empty()) dist += ","; dist += forked_dist(*c.A, pt, inside);
        }
      }
    }
    if (cons && !v.L.empty()) {   // sample points for the exact refutation rules
      string pts; int np = 0;
      for (int k = 0; k < 40; k++) {
        Vector p(n);
        if (k < 16) for (int d = 0; d < n; d++) p[d] = r.range(-24, 24) / 4.0;
        else { size_t i = r.below(v.L.size()); if (k < 34 && v.L[i].second == MAYBE) i = r.below(v.L.size());
          for (int d = 0; d < n; d++) p[d] = rnd_in(r, true, v.L[i].first[d].lb(), v.L[i].first[d].ub()); }
        if (np++) pts += "|"; pts += tokpt(p);
      }
      q += " pts:" + pts;
    }
    string line = string("pav ") + to_string(n) + " " + to_string(c.steps.size());
    for (size_t i = 0; i < c.steps.size(); i++) line += " " + c.steps[i];
    line += " " + c.g.defs() + "@" + q + " =>";
    for (size_t i = 0; i < v.L.size(); i++) { line += " "; line += stc(v.L[i].second); line += "@" + tok(v.L[i].first); }
    line += string(" empty=") + (empty ? "1" : "0") + " sup=" + (sup.empty() ? "-" : sup) + " dist=" + (dist.empty() ? "-" : dist) + " pre=" + (sep_pre_ok ? "1" : "0");
    EMIT("%s\n", line.c_str());
    check_round_up("pav");
  }
}

// one call of separate() on separator trees that may contain SepBoundaryCtc leaves (decided by the verified cell rule)
static void wl_sepx(Rng& r, long count, bool general, int maxdepth) {
  for (long it = 0; it < count; it++) {
    Gen g(r, general, maxdepth); g.allow_bnd = true; g.thin = r.coin(40);
    int n = r.range(1, 3);
    string tree; Sep* s = r.coin(45) ? g.bnd(n, tree) : g.sep(n, r.range(0, maxdepth), tree);
    IntervalVector x = input_box(g, n);
    if (x.is_empty()) continue;
    IntervalVector xi(x), xo(x); sep_pre_ok = true;
    s->separate(xi, xo);
    EMIT("sepx %d %s %s@ %s => %s %s pre=%d\n", n, tree.c_str(), g.defs().c_str(), tok(x).c_str(), tok(xi).c_str(), tok(xo).c_str(), sep_pre_ok ? 1 : 0);
  }
}

// predicates over PdcFwdBwd (Function and NumConstraint constructors) combined by PdcAnd / PdcOr / PdcNot
struct PGen {
  Gen& g; CGen& cg; Rng& r; vector<NumConstraint*> ncs;
  PGen(Gen& g, CGen& cg) : g(g), cg(cg), r(g.r) {}
  ~PGen() { for (size_t i = 0; i < ncs.size(); i++) delete ncs[i]; }
  Pdc* pdc(int n, int depth, string& s) {
    int k = depth <= 0 ? 0 : r.below(10);
    if (k < 3) {
      Function* f; CmpOp op = rand_op(r); if (r.coin(12)) op = EQ;
      int id = cg.new_poly(n, f, opname(op)); s = "PF" + to_string(id);
      if (r.coin()) return g.keep(new PdcFwdBwd(*f, op));
      NumConstraint* c = new NumConstraint(*f, op); ncs.push_back(c); return g.keep(new PdcFwdBwd(*c));
    }
    if (k < 5) { string a; Pdc* p = pdc(n, depth - 1, a); s = "not(" + a + ")"; return g.keep(new PdcNot(*p)); }
    int m = r.range(2, 3); if (r.coin(25)) m = r.range(4, 6);
    Array<Pdc> arr(m); string args;
    for (int i = 0; i < m; i++) { string a; arr.set_ref(i, *pdc(n, depth - 1, a)); if (i) args += ","; args += a; }
    if (k < 8) { s = "and(" + args + ")"; return g.keep(mk_pand(arr, r.coin(70))); }
    s = "or(" + args + ")"; return g.keep(mk_por(arr, r.coin(70)));
  }
};
static void wl_cpdc(Rng& r, long count, int maxdepth) {
  for (long it = 0; it < count; it++) {
    Gen g(r, false, maxdepth); CGen cg(g); PGen pg(g, cg);
    int n = r.range(1, 3);
    string tree; Pdc* p = pg.pdc(n, r.range(0, maxdepth), tree);
    IntervalVector x(n);
    if (!g.core_set) g.set_core();
    for (int i = 0; i < n; i++) { double w = r.coin(30) ? 0 : r.range(1, 4) / 4.0; double a = g.core[i] + r.range(-4, 4) / 4.0; x[i] = Interval(a, a + w); }
    BoolInterval res = p->test(x);
    string pts;
    for (int k = 0; k < 12; k++) { Vector q(n); for (int i = 0; i < n; i++) q[i] = sample_coord(r, x[i]); if (k) pts += "|"; pts += tokpt(q); }
    EMIT("cpdc %d %s %s@ %s %s => %c\n", n, tree.c_str(), g.defs().c_str(), tok(x).c_str(), pts.c_str(), stc(res));
  }
}

// several calls of the SAME CtcInverse object; the sub-contractor reports INACTIVE on some calls
static void wl_cinv(Rng& r, long count) {
  for (long it = 0; it < count; it++) {
    Gen g(r, false, 2); CGen cg(g);
    int n = r.range(1, 2);
    Function* f; int id = cg.new_poly(n, f, "le");
    string a; Ctc* sub;
    int k = r.below(4);
    if (k == 0) { sub = g.keep(new CtcIdentity(1)); a = "id"; }
    else if (k == 1) { Boxes U = g.boxes(1, 1, 2); int lid = g.nL++; g.leafdefs.push_back("L" + to_string(lid) + "=01=" + Gen::tokB(U)); a = "L" + to_string(lid); sub = g.keep(new CtcUnionOfBoxes(1, U, false, true)); }
    else if (k == 2) { string b; Ctc* l = g.leafOf(1, g.boxes(1, 1, 2), b); Ctc* idc = g.keep(new CtcIdentity(1)); sub = g.keep(new CtcUnion(*l, *idc)); a = "union(" + b + ",id)"; }
    else sub = g.leafOf(1, g.boxes(1, 1, 3), a);
    string tree = "inv[" + to_string(id) + "](" + a + ")";
    CtcInverse inv(*sub, *f);
    int calls = r.range(2, 4);
    for (int c = 0; c < calls; c++) {
      IntervalVector x = r.coin(60) ? g.core_box(n) : g.box(n, 4, 10);
      if (c > 0 && r.coin(40)) for (int i = 0; i < n; i++) if (!x[i].is_unbounded()) x[i] += (r.coin() ? 6.0 : -6.0);   // far from the previous box
      if (x.is_empty()) continue;
      IntervalVector out(x);
      inv.contract(out);
      string pts; int kept = 0;
      for (int s = 0; s < 60 && kept < 14; s++) {
        Vector p(n); for (int i = 0; i < n; i++) p[i] = sample_coord(r, x[i]);
        if (!out.is_empty() && out.contains(p)) continue;
        if (kept++) pts += "|"; pts += tokpt(p);
      }
      if (!kept) pts = "-";
      EMIT("cst %d %s %s@ %s %s => %s\n", n, tree.c_str(), g.defs().c_str(), tok(x).c_str(), pts.c_str(), tok(out).c_str());
    }
  }
}

int main(int argc, char** argv) {
  string wl = argc > 1 ? argv[1] : "pav";
  uint64_t seed = argc > 2 ? strtoull(argv[2], 0, 10) : 1;
  long n = argc > 3 ? atol(argv[3]) : 100;
  bool full = argc > 4 && string(argv[4]) == "full";
  Rng r(seed * 15485863 + 19);
  int depth = full ? 3 : 2;
  if (wl == "pav") wl_pav(r, n, false, depth, false);
  else if (wl == "pavg") wl_pav(r, n, true, depth, false);
  else if (wl == "pavc") wl_pav(r, n, false, depth, true);
  else if (wl == "sepx") wl_sepx(r, n, false, full ? 4 : 3);
  else if (wl == "sepxg") wl_sepx(r, n, true, full ? 4 : 3);
  else if (wl == "cpdc") wl_cpdc(r, n, full ? 3 : 2);
  else if (wl == "cinv") wl_cinv(r, n);
  else { fprintf(stderr, "unknown workload\n"); return 2; }
  fprintf(stderr, "emitted %ld skipped %ld\n", emitted, skipped);
  return 0;
}
