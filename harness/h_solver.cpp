// C05 / C06: the solver.  Real Solver runs with logging wrappers around its components.
//   solvelog <root box> <events> <paving> => <status>
//        events: P~box  T~box  C~in~out  O~box  F   joined by ','   ("-" when empty)
//        paving: U~box (unknown) B~box (boundary) D~box (pending) I~box (inner) S~existence~unicity, joined by ','  ("-" when empty)
//   solvept <dags> <specs> <point> <paving> => 1       an exactly feasible point must be in some box of the paving
//   solveinner <dags> <specs> <box> => 1               a box reported inner: every constraint proved on the box by the model's evaluation
//   solveunknown <box> <eps_min> => 1                   an unknown box is not wider than eps_min (or not bisectable)
//   solvestatus <status> <nsol> <nbnd> <nunk> <npend> <ninner> <interrupted> => 1
//   solvetwo <p1> <p2> <existence box> => 1            two distinct planted solutions never share a 'solution' box of a square system
//   defaultsolver <what> => <status | ABORT:msg>
// C18 (second half): interrupted search, saved, reloaded, resumed (workload c18r)
//   resumeload <items saved> => <items loaded>          the loaded paving is the saved one
//   resumelog <dags> <specs> <items the run starts from> <events> <items of the resumed run> => <status>
//        items: I~box  S~existence~unicity~vars  B~box[~vars]  U~box  D~box  joined by ','  ("-" when empty)
#include "common.h"
#include "expr_io.h"
#include "sys_gen.h"
#include <sys/stat.h>
#include <unistd.h>

static long emitted = 0;
#define EMIT(...) do { printf(__VA_ARGS__); emitted++; } while (0)

static vector<string>* LOG = 0;
// hook H4: cells that Solver::check_sol discards after a certification attempt are noted in the log ("X~cell"):
// the replay ignores the note (such a cell must still be justified), it only names the call site of a rejected step
namespace ibex { namespace verif { extern void (*solver_discard_hook)(const IntervalVector&, const IntervalVector&); extern void (*solver_replace_hook)(const IntervalVector&, const IntervalVector&); } }
static vector<IntervalVector> REPLACED;     // cells replaced by the existence box of a certified solution / boundary box (hook H4b)
static void note_replace(const IntervalVector& cell, const IntervalVector& ex) { if (REPLACED.size() < 100000 && !cell.is_subset(ex)) REPLACED.push_back(cell); }
static vector<IntervalVector> DISCARDS;     // cells discarded by check_sol during the current run (also for runs without log)
static void note_discard(const IntervalVector& cell, const IntervalVector&) { if (LOG) LOG->push_back("X~" + tok(cell)); if (DISCARDS.size() < 100000) DISCARDS.push_back(cell); }
struct LogCtc : public Ctc {
  Ctc& c;
  LogCtc(Ctc& c) : Ctc(c.nb_var), c(c) {}
  void contract(IntervalVector& box) { string in = tok(box); c.contract(box); if (LOG) LOG->push_back("C~" + in + "~" + tok(box)); }
  void contract(IntervalVector& box, ContractContext& ctx) { string in = tok(box); c.contract(box, ctx); if (LOG) LOG->push_back("C~" + in + "~" + tok(box)); }
  void add_property(const IntervalVector& b, BoxProperties& m) { c.add_property(b, m); }
};
struct LogBuffer : public CellBuffer {
  CellBuffer& b;
  LogBuffer(CellBuffer& b) : b(b) {}
  void add_property(const IntervalVector& box, BoxProperties& m) { b.add_property(box, m); }
  void flush() { b.flush(); if (LOG) LOG->push_back("F"); }
  unsigned int size() const { return b.size(); }
  bool empty() const { return b.empty(); }
  void push(Cell* c) { if (LOG) LOG->push_back("P~" + tok(c->box)); b.push(c); }
  Cell* pop() { Cell* c = b.pop(); if (LOG) LOG->push_back("O~" + tok(c->box)); return c; }
  Cell* top() const { Cell* c = b.top(); if (LOG) LOG->push_back("T~" + tok(c->box)); return c; }
  std::ostream& print(std::ostream& os) const { return os; }
};

static string paving_token(const CovSolverData& d, int n, int m) {
  vector<string> out;
  for (size_t i = 0; i < d.nb_inner(); i++) out.push_back("I~" + tok(d.inner(i)));
  if (m > 0) for (size_t i = 0; i < d.nb_solution(); i++) {
    // indices of the variables (the other coordinates are the parameters of the solution)
    string vs; if (m == n) { for (int k = 0; k < n; k++) { if (k) vs += "."; vs += to_string(k); } }
    else { const VarSet& v = d.solution_varset(i); for (int k = 0; k < v.nb_var; k++) { if (k) vs += "."; vs += to_string(v.var(k)); } }
    out.push_back("S~" + tok(d.solution(i)) + "~" + tok(d.unicity(i)) + "~" + vs); }
  for (size_t i = 0; i < d.nb_boundary(); i++) {
    if (m == 0) { out.push_back("B~" + tok(d.boundary(i))); continue; }
    // a boundary box of a system with equations is also a Newton existence box: same record as a solution (unicity box = itself)
    string vs; if (m == n) { for (int k = 0; k < n; k++) { if (k) vs += "."; vs += to_string(k); } }
    else { const VarSet& v = d.boundary_varset(i); for (int k = 0; k < v.nb_var; k++) { if (k) vs += "."; vs += to_string(v.var(k)); } }
    out.push_back("S~" + tok(d.boundary(i)) + "~" + tok(d.boundary(i)) + "~" + vs); }
  for (size_t i = 0; i < d.nb_unknown(); i++) out.push_back("U~" + tok(d.unknown(i)));
  for (size_t i = 0; i < d.nb_pending(); i++) out.push_back("D~" + tok(d.pending(i)));
  if (out.empty()) return "-";
  string s; for (size_t i = 0; i < out.size(); i++) { if (i) s += ","; s += out[i]; } return s;
}
// every box of the data with its verdict (C18: carried over unchanged / re-queued)
static string items_token(const CovSolverData& d, int n, int m) {
  vector<string> out;
  string all; for (int k = 0; k < n; k++) { if (k) all += "."; all += to_string(k); }
  for (size_t i = 0; i < d.nb_inner(); i++) out.push_back("I~" + tok(d.inner(i)));
  if (m > 0) for (size_t i = 0; i < d.nb_solution(); i++)
    out.push_back("S~" + tok(d.solution(i)) + "~" + tok(d.unicity(i)) + "~" + (m == n ? all : varset_tok(d.solution_varset(i))));
  for (size_t i = 0; i < d.nb_boundary(); i++) {
    if (m == 0) out.push_back("B~" + tok(d.boundary(i)));
    else out.push_back("B~" + tok(d.boundary(i)) + "~" + (m == n ? all : varset_tok(d.boundary_varset(i)))); }
  for (size_t i = 0; i < d.nb_unknown(); i++) out.push_back("U~" + tok(d.unknown(i)));
  for (size_t i = 0; i < d.nb_pending(); i++) out.push_back("D~" + tok(d.pending(i)));
  if (out.empty()) return "-";
  string s; for (size_t i = 0; i < out.size(); i++) { if (i) s += ","; s += out[i]; } return s;
}

static const char* status_name(Solver::Status s) {
  switch (s) { case Solver::SUCCESS: return "SUCCESS"; case Solver::INFEASIBLE: return "INFEASIBLE"; case Solver::NOT_ALL_VALIDATED: return "NOT_ALL_VALIDATED";
    case Solver::TIME_OUT: return "TIME_OUT"; case Solver::CELL_OVERFLOW: return "CELL_OVERFLOW"; default: return "USER_BREAK"; }
}
static string vtok(const Vector& v) { string s; for (int i = 0; i < v.size(); i++) { if (i) s += ";"; s += hex(v[i]); } return s; }

static bool C06_LINES = false;
static long RUN_ID = 0;      // id of the solver run the lines come from (last input token of solvelog / solvept / resumelog lines)
static void report(Rng& r, Problem& P, const IntervalVector& root, const CovSolverData& d, Solver::Status st, const vector<string>& log, const Vector& eps_min, bool with_log) {
  string pv = paving_token(d, P.n, P.m);
  if (C06_LINES && P.m > 0) {
    // every reported solution: existence box, unicity box, variables; all the exactly known zeros
    string pts; for (size_t k = 0; k < P.planted.size(); k++) { if (k) pts += "|"; pts += ptok(P.planted[k]); }
    string all; for (int k = 0; k < P.n; k++) { if (k) all += "."; all += to_string(k); }
    size_t N = d.nb_solution(), step = N > 40 ? N / 40 : 1;
    for (size_t i = 0; i < N; i += step)
      EMIT("solbox %s %s %s %s %s %s %s => 1\n", P.dags.c_str(), P.specs.c_str(), tok(root).c_str(), tok(d.solution(i)).c_str(), tok(d.unicity(i)).c_str(),
           (P.m == P.n ? all : varset_tok(d.solution_varset(i))).c_str(), pts.c_str());
  }
  if (with_log) {
    string ev; if (log.empty()) ev = "-"; for (size_t i = 0; i < log.size(); i++) { if (i) ev += ","; ev += log[i]; }
    EMIT("solvelog %s %s %s %s %s %s run%ld => %s\n", P.dags.c_str(), P.specs.c_str(), tok(root).c_str(), ev.c_str(), pv.c_str(), vtok(eps_min).c_str(), RUN_ID, status_name(st));
  }
  // planted and sampled points
  vector<Vector> pts = P.planted;
  for (int k = 0; k < 12; k++) { Vector q(P.n); for (int i = 0; i < P.n; i++) { double t = r.range(0, 32) / 32.0; q[i] = root[i].lb() + t * (root[i].ub() - root[i].lb()); if (!root[i].contains(q[i])) q[i] = root[i].lb(); }
    if (r.coin(40)) { int i = r.below(P.n); q = P.planted[0]; q[i] = root[i].lb() + r.range(0, 32) / 32.0 * (root[i].ub() - root[i].lb()); if (!root[i].contains(q[i])) q[i] = P.planted[0][i]; }
    pts.push_back(q); }
  if (!C06_LINES)   // (completeness is property C05)
  for (auto& q : pts) if (root.contains(q)) {
    // the cells discarded by check_sol (hook H4) that contain the point: names the call site if the point is lost
    string notes; int nn = 0; for (auto& c : DISCARDS) if (c.contains(q) && nn < 4) { if (nn++) notes += "|"; notes += tok(c); }
    for (auto& c : REPLACED) if (c.contains(q) && nn < 6) { if (nn++) notes += "|"; notes += "R" + tok(c); }
    if (!nn) notes = "-";
    EMIT("solvept %s %s %s %s %s run%ld => 1\n", P.dags.c_str(), P.specs.c_str(), ptok(q).c_str(), pv.c_str(), notes.c_str(), RUN_ID); }
  // (a sample of at most 25 boxes of each kind)
  { size_t N = d.nb_inner(), step = N > 25 ? N / 25 : 1; for (size_t i = 0; i < N; i += step) if (P.m == 0) EMIT("solveinner %s %s %s => 1\n", P.dags.c_str(), P.specs.c_str(), tok(d.inner(i)).c_str()); }
  { size_t N = d.nb_unknown(), step = N > 25 ? N / 25 : 1; for (size_t i = 0; i < N; i += step) EMIT("solveunknown %s %s => 1\n", tok(d.unknown(i)).c_str(), vtok(eps_min).c_str()); }
  bool interrupted = st == Solver::CELL_OVERFLOW || st == Solver::TIME_OUT;
  EMIT("solvestatus %s %zu %zu %zu %zu %zu %d => 1\n", status_name(st), P.m > 0 ? d.nb_solution() : (size_t)0, d.nb_boundary(), d.nb_unknown(), d.nb_pending(), d.nb_inner(), interrupted ? 1 : 0);
}


// The box given to solve() need not be the declared domain of the variables (System::box): in part of the runs the declared
// domain is made smaller than / different from / larger than the box that is searched (the search box `root` is unchanged)
static void redeclare_domain(Rng& r, System& sys, const IntervalVector& root) {
  int k = r.below(100);
  if (k < 25) { for (int i = 0; i < root.size(); i++) { double w = root[i].diam(); if (!(w > 0) || w == POS_INFINITY) continue;
                  double a = root[i].lb() + w * r.range(0, 3) / 8.0, b = root[i].ub() - w * r.range(0, 3) / 8.0; if (a <= b) sys.box[i] = Interval(a, b); } }
  else if (k < 33) { for (int i = 0; i < root.size(); i++) { double w = root[i].diam(); if (!(w > 0) || w == POS_INFINITY) continue; sys.box[i] = Interval(root[i].lb() + w / 2, root[i].ub() + w / 4); } }
  else if (k < 45) { for (int i = 0; i < root.size(); i++) sys.box[i] = Interval(root[i].lb() - r.range(0, 2), root[i].ub() + r.range(0, 2)); }
}

// ---------------------------------------------------------------------------------------------------
// C18 (second half): every interruption point, save, reload, resume, chains
struct Config { int ctc_kind; bool newton; int bsc_kind; int buf_kind; int btest = -1; bool byname = false; Vector eps_min, eps_max; Config() : eps_min(1), eps_max(1) {} };

static string FROM_FILE;    // (resume through the file name: Solver::solve(const char*))
// one run with fresh components; `from` = NULL: start from the initial box, else resume from the data
struct Run {
  CtcHC4* hc4; CtcAcid* acid; CtcCompo* compo; CtcNewton* newton; CtcCompo* withnewton; LogCtc* lctc; Bsc* bsc;
  CellStack stack; CellList list; LogBuffer* lbuf; Solver* s; vector<string> log; Solver::Status st;
  Run(Problem& P, const Config& c, const CovSolverData* from, long cell_limit, double time_limit, const IntervalVector& root, long interactive = -1) {
    System& sys = *P.sys;
    hc4 = new CtcHC4(sys, 0.01); acid = new CtcAcid(sys, *hc4); compo = new CtcCompo(*hc4, *acid);
    Ctc* base = c.ctc_kind == 0 ? (Ctc*)hc4 : (Ctc*)compo;
    newton = 0; withnewton = 0;
    if (c.newton) { newton = new CtcNewton(sys.f_ctrs, 5e8, 1e-7, 0.01); withnewton = new CtcCompo(*base, *newton); base = withnewton; }
    lctc = new LogCtc(*base);
    switch (c.bsc_kind) { case 0: bsc = new RoundRobin(c.eps_min, 0.45); break; case 1: bsc = new LargestFirst(c.eps_min, 0.5); break; default: bsc = new SmearSumRelative(sys, c.eps_min, 0.45); }
    lbuf = new LogBuffer(c.buf_kind == 0 ? (CellBuffer&)stack : (CellBuffer&)list);
    s = new Solver(sys, *lctc, *bsc, *lbuf, c.eps_min, c.eps_max);
    s->cell_limit = cell_limit; s->time_limit = time_limit; s->trace = 0;
    if (c.btest >= 0) s->boundary_test = (Solver::boundary_test_strength)c.btest;
    RNG::srand(1);
    LOG = &log;
    if (interactive >= 0) {
      // the interactive API (documented way to store the state of a search): start(), some calls of next(), flush().
      // No status is written in this mode: the paving keeps the default one although it contains pending boxes.
      s->start(root); CovSolverData::BoxStatus bs;
      for (long i = 0; i < interactive; i++) if (!s->next(bs)) break;
      s->flush(); st = (Solver::Status)s->get_data().solver_status();
    } else
    st = from ? (c.byname && !FROM_FILE.empty() ? s->solve(FROM_FILE.c_str()) : s->solve(*from)) : s->solve(root);
    LOG = 0;
    check_round_up("solver");
  }
  ~Run() { delete s; delete lbuf; delete bsc; delete lctc; if (withnewton) delete withnewton; if (newton) delete newton; delete compo; delete acid; delete hc4; }
  string events() const { if (log.empty()) return "-"; string ev; for (size_t i = 0; i < log.size(); i++) { if (i) ev += ","; ev += log[i]; } return ev; }
};

static void wl_resume(Rng& r, long count, bool full, const string& file) {
  for (long it = 0; it < count; it++) {
    try {
      Problem P; bool okp = r.coin(35) ? make_singular(r, P) : make_problem(r, P); if (!okp) continue;
      System& sys = *P.sys; IntervalVector root = sys.box;
      // a solution ON the border of the search box (boundary boxes of square / inequality-only systems with a non-default boundary test)
      if (r.coin(35)) { const Vector& z = P.planted[0]; for (int i = 0; i < P.n; i++) if (r.coin(60) && root[i].contains(z[i])) { if (r.coin()) root[i] = Interval(z[i], root[i].ub()); else root[i] = Interval(root[i].lb(), z[i]); } sys.box = root; }
      redeclare_domain(r, sys, root);
      Config c; double e = r.coin() ? 0.125 : 0.03125;
      c.eps_min = Vector(P.n, e); c.eps_max = Vector(P.n, r.coin(80) ? POS_INFINITY : 1.0);
      if (r.coin(45)) { static const int BT[] = {Solver::ALL_TRUE, Solver::ALL_TRUE, Solver::FULL_RANK, Solver::ALL_FALSE}; c.btest = BT[r.below(4)]; } c.byname = r.coin(40); FROM_FILE = file;
      c.ctc_kind = r.coin(70) ? 0 : 1; c.newton = (P.m == P.n && P.k == 0 && r.coin(40)); c.bsc_kind = r.below(3); c.buf_kind = r.coin(70) ? 0 : 1;
      // the uninterrupted run: number of cells N
      long maxN = full ? 600 : 160;
      long N;
      { Run u(P, c, 0, maxN, 60, root); N = (long)u.s->get_nb_cells(); if (u.st == Solver::CELL_OVERFLOW || u.st == Solver::TIME_OUT) { delete P.sys; continue; } }
      // interruption points: every k when the search is small (the limit is reached after a bisection: odd counts),
      // otherwise a sample that keeps the first and the last ones
      vector<long> ks;
      for (long k = 1; k <= N + 1; k++) ks.push_back(k);
      long maxk = full ? 120 : 24;
      if ((long)ks.size() > maxk) { vector<long> sel; for (long k : ks) if (k <= 3 || k >= N - 8 || r.coin((int)(100 * maxk / ks.size()))) sel.push_back(k); ks = sel; }
      ks.push_back(-2);   // interruption by the time limit (non-deterministic point)
      ks.push_back(-3); if (N > 2) ks.push_back(-3);   // interactive mode: start(), a few next(), flush(); then save / reload / resume with solve()
      for (long k : ks) {
        RUN_ID++; DISCARDS.clear(); REPLACED.clear();   // (one id for the whole chain of interrupted / resumed runs: a lost solution shows at the end of the chain)
        int links = r.coin(25) ? (int)r.range(2, 3) : 1;
        Run* cur = (k == -3) ? new Run(P, c, 0, -1, 60, root, r.range(0, (int)std::min(N, 6L))) :
                   (k == -2) ? new Run(P, c, 0, -1, 1e-4 * r.range(1, 20), root) : new Run(P, c, 0, k, 60, root);
        if (cur->log.size() < 3000) {
          string pv = paving_token(cur->s->get_data(), P.n, P.m);
          EMIT("solvelog %s %s %s %s %s %s run%ld => %s\n", P.dags.c_str(), P.specs.c_str(), tok(root).c_str(), cur->events().c_str(), pv.c_str(), vtok(c.eps_min).c_str(), RUN_ID, status_name(cur->st));
        }
        for (int l = 0; l < links; l++) {
          string saved = items_token(cur->s->get_data(), P.n, P.m);
          cur->s->get_data().save(file.c_str());
          delete cur; cur = 0;
          CovSolverData data(file.c_str());
          string loaded = items_token(data, P.n, P.m);
          EMIT("resumeload %s => %s\n", saved.c_str(), loaded.c_str());
          long k2 = (l + 1 < links) ? r.range(1, (int)std::max(2L, N / 2)) : -1;
          cur = new Run(P, c, &data, k2, 60, root);
          if (cur->log.size() < 8000)
            EMIT("resumelog %s %s %s %s %s %s run%ld => %s\n", P.dags.c_str(), P.specs.c_str(), loaded.c_str(), cur->events().c_str(),
                 items_token(cur->s->get_data(), P.n, P.m).c_str(), vtok(c.eps_min).c_str(), RUN_ID, status_name(cur->st));
        }
        // the final data must satisfy the guarantees of an uninterrupted run
        vector<string> nolog;
        report(r, P, root, cur->s->get_data(), cur->st, nolog, c.eps_min, false);
        delete cur;
      }
      delete P.sys;
    } catch (VerifAbort& a) { string m = a.what(); for (auto& ch : m) if (ch == ' ' || ch == '\n') ch = '_'; EMIT("harnesserror c18r abort:%s => 0\n", m.c_str()); }
      catch (std::exception& e) { EMIT("harnesserror c18r %s => 0\n", typeid(e).name()); }
  }
}

int main(int argc, char** argv) {
  ibex::verif::solver_discard_hook = note_discard; ibex::verif::solver_replace_hook = note_replace;
  string wl = argc > 1 ? argv[1] : "c05";
  uint64_t seed = argc > 2 ? strtoull(argv[2], 0, 10) : 1;
  long n = argc > 3 ? atol(argv[3]) : 50;
  Rng r(seed * 67867967 + 1);
  if (wl == "c18r") {
    bool full = false; for (int i = 4; i < argc; i++) if (string(argv[i]) == "full") full = true;
    string a0 = argv[0]; size_t ps = a0.rfind('/'); string dir = (ps == string::npos ? string(".") : a0.substr(0, ps)) + "/runs";
    mkdir(dir.c_str(), 0777);
    string file = dir + "/h_solver_" + to_string(seed) + "_" + to_string((long)getpid()) + ".cov";
    wl_resume(r, n, full, file);
    unlink(file.c_str());
    fprintf(stderr, "emitted %ld\n", emitted);
    return 0;
  }
  if (wl != "c05" && wl != "c06") { fprintf(stderr, "unknown workload\n"); return 2; }
  C06_LINES = (wl == "c06");
  for (long it = 0; it < n; it++) {
    try {
      Problem P;
      VECTOR_INEQS = true; STRICT_INEQS = C06_LINES;
      if (r.coin(6)) { if (!(r.coin() ? make_pole(r, P) : make_domain(r, P))) continue; }     // a pole between two zeros / a restricted domain of definition
      else if (r.coin(8)) { if (!make_quot(r, P)) continue; }                                  // a quotient with a non-constant denominator (Newton prunes)
      else if (C06_LINES && r.coin(45)) { int fam = r.below(100); if (!(fam < 45 ? make_multi(r, P) : fam < 70 ? make_singular(r, P) : make_param(r, P))) continue; }
      else if (!C06_LINES && r.coin(25)) { if (!make_touch(r, P)) continue; }
      else if (!make_problem(r, P)) continue;
      System& sys = *P.sys; IntervalVector root = sys.box; redeclare_domain(r, sys, root);
      double e = r.coin() ? 0.125 : (r.coin() ? 1e-3 : 0.03125);
      Vector eps_min(P.n, e); if (r.coin(30)) for (int i = 0; i < P.n; i++) eps_min[i] = r.coin() ? e : e * 4;
      Vector eps_max(P.n, r.coin(70) ? POS_INFINITY : 1.0);
      // ---- explicit assembly with logging wrappers --------------------------------------------------
      for (int cfgk = 0; cfgk < 2; cfgk++) {
        CtcHC4 hc4(sys, 0.01);
        CtcAcid acid(sys, hc4);
        CtcCompo compo(hc4, acid);
        Ctc* base = r.coin(60) ? (Ctc*)&hc4 : (Ctc*)&compo;
        CtcNewton* newton = 0; CtcCompo* withnewton = 0;
        if (P.m == P.n && P.k == 0 && r.coin(50)) { newton = new CtcNewton(sys.f_ctrs, 5e8, 1e-7, 0.01); withnewton = new CtcCompo(*base, *newton); base = withnewton; }
        LogCtc lctc(*base);
        Bsc* bsc; switch (r.below(3)) { case 0: bsc = new RoundRobin(eps_min, 0.45); break; case 1: bsc = new LargestFirst(eps_min, 0.5); break; default: bsc = new SmearSumRelative(sys, eps_min, 0.45); }
        CellStack stack; CellList list; CellBuffer* inner = r.coin(70) ? (CellBuffer*)&stack : (CellBuffer*)&list;
        LogBuffer lbuf(*inner);
        Solver s(sys, lctc, *bsc, lbuf, eps_min, eps_max);
        // non-default settings: the test applied to boundary boxes, parameters forced by the user (under-constrained systems)
        if (r.coin(35)) { static const Solver::boundary_test_strength BT[] = {Solver::ALL_TRUE, Solver::FULL_RANK, Solver::ALL_FALSE}; s.boundary_test = BT[r.below(3)]; }
        if (P.m > 0 && P.m < P.n && r.coin(35)) { BitSet pb = BitSet::empty(P.n); int np = r.range(1, P.n - P.m); while ((int)pb.size() < np) pb.add(r.below(P.n)); s.set_params(VarSet(P.n, pb, false)); }
        if (r.coin(35)) s.cell_limit = r.range(1, 60);
        else if (P.m < P.n) s.cell_limit = r.range(100, 400);   // pavings of sets: keep the log small
        else s.cell_limit = 3000;
        s.time_limit = r.coin(12) ? 1e-4 * r.range(1, 20) : 20.0; s.trace = 0;   // (some searches are stopped by the time limit: the buffer must be flushed into pending boxes)
        vector<string> log; LOG = &log; RUN_ID++; DISCARDS.clear(); REPLACED.clear();
        Solver::Status st = s.solve(root);
        LOG = 0;
        check_round_up("solver");
        report(r, P, root, s.get_data(), st, log, eps_min, log.size() < 6000 && !C06_LINES);
        delete bsc; if (withnewton) delete withnewton; if (newton) delete newton;
      }
      // ---- shaving as the solver's contractor, the solution a few floats away from the end point of a slice of the ROOT box:
      //      x0 - x1 = 0, x0 + x1 = 2c (solution (c,c), exact for every double c), slices computed as Ctc3BCid computes them
      if (!C06_LINES && r.coin(30)) {
        int s3b = r.range(3, 12);
        double lb = r.range(-40, 40) / 8.0 + (r.coin() ? 0.0 : r.range(1, 9) / 10.0), diam = r.range(1, 40) / 4.0 + (r.coin() ? 0.0 : r.range(1, 9) / 10.0);
        volatile double ub = lb + diam; volatile double w = (ub - lb) / s3b;
        vector<double> cand;
        for (int k = 1; k < s3b; k++) { volatile double b1 = lb + k * w; volatile double b0 = lb + (k - 1) * w; volatile double b2 = b0 + w;
          double lo = std::min((double)b1, (double)b2), hi = std::max((double)b1, (double)b2);
          if (lo != hi) for (double c = lo; c <= hi && cand.size() < 48; c = std::nextafter(c, 1e300)) cand.push_back(c); }
        { int k = r.range(1, s3b - 1); volatile double b1 = lb + k * w; double c = b1; for (int q = 0; q < 2; q++) c = std::nextafter(c, -1e300);
          for (int q = 0; q < 5; q++) { cand.push_back(c); c = std::nextafter(c, 1e300); } }
        size_t next_cand = 0;
        for (int rep = 0; rep < 20 && next_cand < cand.size(); rep++) {
        Problem Q; Q.n = 2; Q.m = 2; Q.k = 0;
        double c = cand[next_cand++];
        Array<const ExprSymbol> sx(2); sx.set_ref(0, ExprSymbol::new_("z0", Dim::scalar())); sx.set_ref(1, ExprSymbol::new_("z1", Dim::scalar()));
        const ExprNode& e1 = sx[0] - sx[1]; const ExprNode& e2 = sx[0] + sx[1] - ExprConstant::new_scalar(2 * c);
        IntervalVector rb(2); int var = r.below(2); rb[var] = Interval(lb, ub); rb[1 - var] = Interval(c - r.range(1, 16) / 4.0, c + r.range(1, 16) / 4.0);
        SystemFactory fac; fac.add_var(sx, rb); fac.add_ctr(ExprCtr(e1, EQ)); fac.add_ctr(ExprCtr(e2, EQ));
        Q.dags = dump_expr(e1, sx) + "|" + dump_expr(e2, sx); Q.specs = "eq|eq"; Q.sys = new System(fac);
        Vector pl(2); pl[0] = c; pl[1] = c; Q.planted.push_back(pl);
        {
          CtcHC4 hc4(*Q.sys, 0.01); Ctc3BCid cid(hc4, s3b, 1, -1, 1e-11); LogCtc lctc(cid);
          Vector em(2, 0.125); RoundRobin rr(em, 0.45); CellStack stack; LogBuffer lbuf(stack);
          Solver s(*Q.sys, lctc, rr, lbuf, em, Vector(2, POS_INFINITY)); s.cell_limit = 3000; s.time_limit = 20; s.trace = 0;
          vector<string> log; LOG = &log; RUN_ID++; DISCARDS.clear(); REPLACED.clear();
          Solver::Status st = s.solve(rb);
          LOG = 0; check_round_up("solver-3bcid");
          report(r, Q, rb, s.get_data(), st, log, em, log.size() < 6000);
        }
        delete Q.sys;
        }
      }
      // ---- the default solver must deliver a paving and a status (no LP library in this build) ----
      if (r.coin(50)) {
        try {
          bool scalar_eps = r.coin(40); double e0 = eps_min[0]; if (scalar_eps) for (int i = 0; i < P.n; i++) eps_min[i] = e0;
          DefaultSolver ds0(sys, e0, POS_INFINITY, r.coin(), 1.0); DefaultSolver ds1(sys, eps_min, POS_INFINITY, r.coin(), 1.0); DefaultSolver& ds = scalar_eps ? ds0 : ds1;
          ds.time_limit = 20; ds.cell_limit = P.m < P.n ? 300 : 2000;
          RUN_ID++; DISCARDS.clear(); REPLACED.clear();
          if (getenv("H_SOLVER_TRACE")) { std::cerr << "RUN " << RUN_ID << " default solver root=" << root << " declared=" << sys.box << " eps_min=" << eps_min << "\n" << sys << std::endl; }
          Solver::Status st = ds.solve(root);
          EMIT("defaultsolver run => %s\n", status_name(st));
          vector<string> nolog; report(r, P, root, ds.get_data(), st, nolog, eps_min, false);
        } catch (VerifAbort& a) { string m = a.what(); for (auto& ch : m) if (ch == ' ') ch = '_'; EMIT("defaultsolver run => ABORT:%s\n", m.c_str()); }
      }
    } catch (std::exception& e) { EMIT("harnesserror c05 %s => 0\n", typeid(e).name()); }
  }
  fprintf(stderr, "emitted %ld\n", emitted);
  return 0;
}
