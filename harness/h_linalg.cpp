// C15: interval linear algebra (src/numeric/ibex_Linear.cpp).
//
//  Tokens: interval matrix  r.c.lo~hi/lo~hi/...   (vh::mtok, row major);  real (double) matrix  r.c.hex/hex/...  (qtok);
//          box  lo:hi;lo:hi;...  or E  (vh::tok);  instances joined by '|' ('-' = none);  a linear-system instance is  <A_k>@<x_k>
//          (b_k := A_k x_k is recomputed EXACTLY by the driver, which also re-checks A_k in [A], b_k in [b], x_k in [x]).
//
//  Verdicts (Driver/OpsLin.lean): every line is decided on its planted / sampled instances with exact rational arithmetic; in addition
//  "all-..." tags mean that a verified checker covers ALL real instances (model comparison, vertex enumeration, certificates).
//
//  gs      <A> <b> <x> <ratio> <insts>            => <x'>                     gauss_seidel
//  igs     <A> <b> <x> <min_dist> <mu_max> <insts> => <x'> <ret>              inflating_gauss_seidel
//  precond <A> <b> <C|-> <insts>                  => <A'> <b'> | exc:<name> <A> <b>   precond(A,b); C = preconditioner recomputed like the library
//  precondA <A> <C|->                             => <A'> | exc:<name> <A>    precond(A)
//  hb      <A> <b> <insts>                        => <x> | exc:<name>         hansen_bliek
//  ninv / rinv <A> <insts(A_k)>                   => <invA> | exc:<name>      neumaier_inverse / precond_rohn_inverse
//  det     <A> <insts>                            => <itv> | exc:<name>
//  ilu     <A> <insts>                            => <LU> <p> | exc:<name>    interval_LU, partial pivoting
//  ilu2    <A> <insts>                            => <LU> <pr> <pc> | exc:<name>   interval_LU, full pivoting
//  frank   <A> <insts>                            => <0|1>
//  dd      <A>                                    => <0|1>                    is_diagonal_dominant
//  pds / pdr <A> <symmetric insts>                => <0|1> | exc:<name>       is_posdef_sylvester / is_posdef_rohn
//  rlu     <A(real)>                              => <p> | exc:<name>         real_LU: p must be a permutation
#include "common.h"
#include "expr_io.h"
#include <set>
using namespace ibex; using namespace vh; using namespace std;

static long emitted = 0;
#define EMIT(...) do { printf(__VA_ARGS__); emitted++; } while (0)
static int MAXN = 4;

// ------------------------------------------------------------------ tokens
static string qtok(const Matrix& m) {
  ostringstream s; s << m.nb_rows() << "." << m.nb_cols() << ".";
  for (int i = 0; i < m.nb_rows(); i++) for (int j = 0; j < m.nb_cols(); j++) { if (i || j) s << "/"; s << vh::hex(m[i][j]); }
  return s.str();
}
static string qtok(const Vector& v) {
  ostringstream s; s << v.size() << ".1.";
  for (int i = 0; i < v.size(); i++) { if (i) s << "/"; s << vh::hex(v[i]); }
  return s.str();
}
static string ptoks(const int* p, int n) { ostringstream s; for (int i = 0; i < n; i++) { if (i) s << "."; s << p[i]; } return s.str(); }
static string join(const vector<string>& v) { if (v.empty()) return "-"; string s; for (size_t i = 0; i < v.size(); i++) { if (i) s += "|"; s += v[i]; } return s; }

// ------------------------------------------------------------------ numbers
static double dy(Rng& r, int den = 8, int lim = 32) { return r.range(-lim, lim) / (double)den; }           // small dyadic
static double rad(Rng& r) {
  switch (r.below(6)) {
    case 0: return 0.0;
    case 1: return ldexp(1.0, -r.range(8, 40));
    case 2: return ldexp(1.0, -r.range(1, 7));
    case 3: return r.range(1, 16) / 16.0;
    case 4: return r.range(1, 12) / 4.0;
    default: return 0.0;
  }
}
static Interval around(double c, double ra) { return ra == 0 ? Interval(c) : Interval(c - ra, c + ra); }

// a double inside x (bounds, midpoint, dyadic inside)
static double pick_in(Rng& r, const Interval& x, int mode) {
  double lo = x.lb(), hi = x.ub();
  if (lo == NEG_INFINITY && hi == POS_INFINITY) return dy(r);
  if (lo == NEG_INFINITY) return hi - r.range(0, 8) / 4.0;
  if (hi == POS_INFINITY) return lo + r.range(0, 8) / 4.0;
  switch (mode) {
    case 0: return lo;
    case 1: return hi;
    case 2: { double m = x.mid(); return (m >= lo && m <= hi) ? m : lo; }
    default: {
      int k = r.range(0, 16); double v = lo + (hi - lo) * (k / 16.0);
      if (!(v >= lo)) v = lo; if (!(v <= hi)) v = hi; return v; }
  }
}
static Matrix pick_instance(Rng& r, const IntervalMatrix& A, int mode /*0 lb,1 ub,2 mid,3 random vertex,4 random*/) {
  Matrix M(A.nb_rows(), A.nb_cols());
  for (int i = 0; i < A.nb_rows(); i++) for (int j = 0; j < A.nb_cols(); j++) {
    int m = mode <= 2 ? mode : mode == 3 ? (int)r.below(2) : (int)r.below(5);
    M[i][j] = pick_in(r, A[i][j], m);
  }
  return M;
}
static Matrix pick_sym_instance(Rng& r, const IntervalMatrix& A, int mode) {
  int n = A.nb_rows(); Matrix M(n, n);
  for (int i = 0; i < n; i++) for (int j = i; j < n; j++) {
    Interval c = A[i][j] & A[j][i]; if (c.is_empty()) c = A[i][j];
    int m = mode <= 2 ? mode : mode == 3 ? (int)r.below(2) : (int)r.below(5);
    M[i][j] = M[j][i] = pick_in(r, c, m);
  }
  return M;
}
// Rohn's vertex matrices A_z = A_c - T_z Delta T_z : diagonal = lower bounds, (i,j) = lb if z_i z_j = 1, ub otherwise
static Matrix rohn_vertex(const IntervalMatrix& A, unsigned z) {
  int n = A.nb_rows(); Matrix M(n, n);
  for (int i = 0; i < n; i++) for (int j = 0; j < n; j++) {
    bool same = (((z >> i) & 1) == ((z >> j) & 1));
    Interval c = A[i][j] & A[j][i]; if (c.is_empty()) c = A[i][j];
    M[i][j] = same ? c.lb() : c.ub();
  }
  return M;
}

// ------------------------------------------------------------------ interval matrices
static IntervalMatrix gen_imat(Rng& r, int m, int n, int kind) {
  IntervalMatrix A(m, n);
  switch (kind) {
    case 0: // dyadic centre, mixed radii
      for (int i = 0; i < m; i++) for (int j = 0; j < n; j++) A[i][j] = around(dy(r), r.coin(40) ? 0.0 : rad(r));
      break;
    case 1: { // diagonally dominant (sometimes only weakly / not quite)
      for (int i = 0; i < m; i++) {
        double s = 0;
        for (int j = 0; j < n; j++) if (j != i) { double c = dy(r, 8, 16), ra = r.coin(50) ? 0 : r.range(0, 8) / 16.0; A[i][j] = around(c, ra); s += fabs(c) + ra; }
        if (i < n) { double ra = r.coin(50) ? 0 : r.range(0, 8) / 16.0; double extra = r.coin(15) ? 0.0 : r.coin(10) ? -0.125 : r.range(1, 16) / 8.0;
          double c = s + ra + extra; if (r.coin()) c = -c; A[i][i] = around(c, ra); }
      } } break;
    case 2: { // singular centre (dependent last row / column), thin or slightly thick
      Matrix C(m, n);
      for (int i = 0; i < m; i++) for (int j = 0; j < n; j++) C[i][j] = r.range(-4, 4);
      if (m >= 2 && m <= n) { for (int j = 0; j < n; j++) { double s = 0; for (int i = 0; i + 1 < m; i++) s += (i % 2 ? -1 : 2) * C[i][j]; C[m - 1][j] = s; } }
      else if (n >= 2) { for (int i = 0; i < m; i++) { double s = 0; for (int j = 0; j + 1 < n; j++) s += (j % 2 ? -1 : 2) * C[i][j]; C[i][n - 1] = s; } }
      else C[0][0] = 0;
      double ra = r.coin(50) ? 0.0 : ldexp(1.0, -r.range(3, 30));
      for (int i = 0; i < m; i++) for (int j = 0; j < n; j++) A[i][j] = around(C[i][j], r.coin(70) ? ra : 0.0);
      } break;
    case 3: { // Hilbert-like (ill-conditioned): enclosures of 1/(i+j+1), optionally thin lower bounds
      bool thin = r.coin(); double sc = r.coin() ? 1.0 : (double)r.range(1, 5);
      for (int i = 0; i < m; i++) for (int j = 0; j < n; j++) { Interval h = Interval(sc) / Interval(i + j + 1); A[i][j] = thin ? Interval(h.lb()) : r.coin(30) ? h + around(0, ldexp(1.0, -r.range(10, 30))) : h; }
      } break;
    case 4: { // zero-straddling pivots
      for (int i = 0; i < m; i++) for (int j = 0; j < n; j++) A[i][j] = around(dy(r), r.coin(50) ? 0.0 : rad(r));
      for (int i = 0; i < m && i < n; i++) if (r.coin(70)) A[i][i] = Interval(-r.range(0, 8) / 8.0, r.range(0, 8) / 8.0);
      } break;
    case 5: { // identity + Delta (midpoint-preconditioned form); row sums of Delta usually < 1
      int den = 1 << r.range(2, 8);
      for (int i = 0; i < m; i++) for (int j = 0; j < n; j++) {
        double d = r.coin(25) ? 0.0 : r.range(0, den) / (double)(den * (r.coin(80) ? n : 1));
        A[i][j] = around(i == j ? 1.0 : 0.0, d);
      } } break;
    case 6: // wild magnitudes (huge, tiny, infinite bounds)
      for (int i = 0; i < m; i++) for (int j = 0; j < n; j++) { Interval x; do { x = rand_itv(r, 0); } while (x.is_empty()); A[i][j] = r.coin(60) ? around(dy(r), rad(r)) : x; }
      break;
    case 7: { // near-singular: singular thin matrix with one entry perturbed by 2^-k
      A = gen_imat(r, m, n, 2);
      for (int i = 0; i < m; i++) for (int j = 0; j < n; j++) A[i][j] = Interval(A[i][j].mid());
      int i = r.below(m), j = r.below(n); A[i][j] = Interval(A[i][j].lb() + ldexp(1.0, -r.range(1, 45)));
      } break;
    case 8: { // symmetric, B B^T + eps I with small integer B (positive (semi-)definite centre), symmetric radii
      int k = r.coin(70) ? n : max(1, n - 1);
      Matrix B(n, k); for (int i = 0; i < n; i++) for (int j = 0; j < k; j++) B[i][j] = r.range(-3, 3);
      double eps = r.coin(30) ? 0.0 : r.range(1, 8) / 8.0;
      for (int i = 0; i < m; i++) for (int j = i; j < n; j++) {
        double s = (i == j ? eps : 0.0); for (int l = 0; l < k; l++) s += B[i][l] * (j < n && j < B.nb_rows() ? B[j][l] : 0);
        Interval e = around(s, r.coin(50) ? 0.0 : rad(r) / 4); A[i][j] = e; if (j < m && i < n) A[j][i] = e;
      } } break;
    default: { // scaled: powers of two of very different magnitude times a dyadic matrix
      for (int i = 0; i < m; i++) { double sc = ldexp(1.0, r.range(-40, 40)); for (int j = 0; j < n; j++) A[i][j] = sc * around(dy(r), r.coin(50) ? 0.0 : rad(r)); }
      } break;
  }
  return A;
}
static const int NKIND = 10;

static IntervalMatrix symmetrize(const IntervalMatrix& A) { IntervalMatrix S(A); for (int i = 0; i < A.nb_rows(); i++) for (int j = 0; j < i; j++) S[i][j] = S[j][i]; return S; }

static string exc_name(const std::exception_ptr& ep) {
  try { std::rethrow_exception(ep); }
  catch (SingularMatrixException&) { return "exc:SingularMatrixException"; }
  catch (NotSquareMatrixException&) { return "exc:NotSquareMatrixException"; }
  catch (NotInversePositiveMatrixException&) { return "exc:NotInversePositiveMatrixException"; }
  catch (NullPivotException&) { return "exc:NullPivotException"; }
  catch (LinearException&) { return "exc:LinearException"; }
  catch (Exception&) { return "exc:OtherIbexException"; }
  catch (std::exception& e) { return string("exc:std_") + typeid(e).name(); }
  catch (...) { return "exc:unknown"; }
}

static vector<Matrix> instances_of(Rng& r, const IntervalMatrix& A, int k) {
  vector<Matrix> v;
  v.push_back(pick_instance(r, A, 2)); v.push_back(pick_instance(r, A, 0)); v.push_back(pick_instance(r, A, 1));
  for (int i = 0; i < k; i++) v.push_back(pick_instance(r, A, r.coin(60) ? 3 : 4));
  return v;
}
static string inst_tokens(const vector<Matrix>& v) { vector<string> s; for (auto& m : v) s.push_back(qtok(m)); return join(s); }

// ------------------------------------------------------------------ linear systems with planted solutions
struct Sys { IntervalMatrix A; IntervalVector b, x; vector<string> insts; Sys(int m, int n) : A(m, n), b(m), x(n) {} };

static Sys gen_sys(Rng& r, int m, int n, int kind, bool need_x) {
  Sys S(m, n);
  S.A = gen_imat(r, m, n, kind);
  int ninst = r.coin(30) ? 1 : r.range(1, 6);
  IntervalVector xh(n); xh.set_empty(); IntervalVector bh(m); bh.set_empty();
  bool first = true;
  Vector x0(n); for (int j = 0; j < n; j++) x0[j] = dy(r, 4, 16);
  bool samex = r.coin(40);
  for (int k = 0; k < ninst; k++) {
    Matrix Ak = pick_instance(r, S.A, k == 0 ? (int)r.below(5) : (r.coin(70) ? 3 : 4));
    Vector xk(n); for (int j = 0; j < n; j++) xk[j] = (samex || k == 0) ? x0[j] : dy(r, 4, 16);
    bool fin = true; for (int i = 0; i < m; i++) for (int j = 0; j < n; j++) if (!(fabs(Ak[i][j]) < 1e300)) fin = false;
    if (!fin) continue;
    IntervalVector bk = IntervalMatrix(Ak) * IntervalVector(xk);   // outward rounded (exact for small dyadics)
    if (first) { xh = IntervalVector(xk); bh = bk; first = false; } else { xh |= IntervalVector(xk); bh |= bk; }
    S.insts.push_back(qtok(Ak) + "@" + qtok(xk));
  }
  if (first) { for (int j = 0; j < n; j++) xh[j] = Interval(x0[j]); for (int i = 0; i < m; i++) bh[i] = Interval(dy(r)); }
  // right-hand side: exact hull, inflated, or with one unbounded side
  for (int i = 0; i < m; i++) {
    switch (r.below(6)) { case 0: case 1: case 2: S.b[i] = bh[i]; break; case 3: S.b[i] = bh[i] + around(0, rad(r)); break;
      case 4: S.b[i] = bh[i] | Interval(bh[i].lb() - r.range(0, 8) / 8.0, bh[i].ub() + r.range(0, 8) / 8.0); break;
      default: S.b[i] = r.coin(10) ? Interval(bh[i].lb(), POS_INFINITY) : bh[i]; }
  }
  // starting box around the planted points
  for (int j = 0; j < n; j++) {
    double l = xh[j].lb(), u = xh[j].ub();
    switch (r.below(7)) { case 0: S.x[j] = Interval(l, u); break;
      case 1: S.x[j] = Interval(l - r.range(0, 16) / 4.0, u + r.range(0, 16) / 4.0); break;
      case 2: S.x[j] = Interval(l - r.range(0, 64), u + r.range(0, 64)); break;
      case 3: S.x[j] = Interval(l - ldexp(1.0, -r.range(1, 30)), u + ldexp(1.0, -r.range(1, 30))); break;
      case 4: S.x[j] = r.coin() ? Interval(NEG_INFINITY, u + r.range(0, 4)) : Interval(l - r.range(0, 4), POS_INFINITY); break;
      case 5: S.x[j] = r.coin(30) ? Interval::all_reals() : Interval(l - 1e6, u + 1e6); break;
      default: S.x[j] = Interval(l - r.range(0, 8) / 8.0, u + r.range(0, 8) / 8.0); }
  }
  (void)need_x;
  return S;
}

static void do_gs(Rng& r) {
  int n = r.range(1, MAXN), m = r.coin(60) ? n : r.range(1, MAXN + 1);
  int kind = r.coin(35) ? 1 : r.coin(25) ? 5 : (int)r.below(NKIND);
  Sys S = gen_sys(r, m, n, kind, true);
  static const double ratios[] = {0.01, 0.1, 0.5, 2.0, 0.001, 0.3, 1.0};
  double ratio = ratios[r.below(7)];
  IntervalVector x = S.x;
  string out;
  try { gauss_seidel(S.A, S.b, x, ratio); out = tok(x); } catch (...) { out = exc_name(std::current_exception()); }
  check_round_up("gauss_seidel");
  EMIT("gs %s %s %s %s %s => %s\n", mtok(S.A).c_str(), mtok(S.b).c_str(), tok(S.x).c_str(), vh::hex(ratio).c_str(), join(S.insts).c_str(), out.c_str());
}

static void do_igs(Rng& r) {
  int n = r.range(1, MAXN);
  int kind = r.coin(50) ? 1 : r.coin(40) ? 5 : (int)r.below(NKIND);
  Sys S = gen_sys(r, n, n, kind, true);
  // the inflating variant needs a bounded starting box (distance between iterates)
  for (int j = 0; j < n; j++) if (S.x[j].is_unbounded()) S.x[j] = Interval(max(S.x[j].lb(), -1e6), min(S.x[j].ub(), 1e6));
  double min_dist = r.coin(70) ? 1e-12 : ldexp(1.0, -r.range(4, 30));
  double mu_max = r.coin(70) ? 1.0 : r.coin() ? 0.9 : 0.5;   // mu_max > 1 may loop forever (constant distance between iterates): excluded
  IntervalVector x = S.x; bool ret = false; string out;
  if (getenv("H_LIN_TRACE")) { fprintf(stderr, "igs %s %s %s %s %s\n", mtok(S.A).c_str(), mtok(S.b).c_str(), tok(S.x).c_str(), vh::hex(min_dist).c_str(), vh::hex(mu_max).c_str()); fflush(stderr); }
  try { ret = inflating_gauss_seidel(S.A, S.b, x, min_dist, mu_max); out = tok(x) + " " + tok(ret); } catch (...) { out = exc_name(std::current_exception()); }
  check_round_up("inflating_gauss_seidel");
  EMIT("igs %s %s %s %s %s %s => %s\n", mtok(S.A).c_str(), mtok(S.b).c_str(), tok(S.x).c_str(), vh::hex(min_dist).c_str(), vh::hex(mu_max).c_str(), join(S.insts).c_str(), out.c_str());
}

// the preconditioner chosen by the library (ibex_Linear.cpp: inverse of mid, else lb, else ub)
static bool lib_precond_matrix(const IntervalMatrix& A, Matrix& C) {
  try { real_inverse(A.mid(), C); return true; } catch (SingularMatrixException&) {
    try { real_inverse(A.lb(), C); return true; } catch (SingularMatrixException&) {
      try { real_inverse(A.ub(), C); return true; } catch (SingularMatrixException&) { return false; } } }
}
static bool bounded(const IntervalMatrix& A) { for (int i = 0; i < A.nb_rows(); i++) for (int j = 0; j < A.nb_cols(); j++) if (A[i][j].is_unbounded()) return false; return true; }

static void do_precond(Rng& r) {
  int n = r.range(1, MAXN);
  int kind = (int)r.below(NKIND); if (kind == 6 && r.coin(70)) kind = 0;
  Sys S = gen_sys(r, n, n, kind, false);
  if (!bounded(S.A)) return;                       // A.mid() of an unbounded matrix is meaningless
  Matrix C(n, n); bool hasC = lib_precond_matrix(S.A, C);
  IntervalMatrix A = S.A; IntervalVector b = S.b; string out;
  try { precond(A, b); out = mtok(A) + " " + mtok(b); } catch (...) { out = exc_name(std::current_exception()) + " " + mtok(A) + " " + mtok(b); }
  check_round_up("precond");
  EMIT("precond %s %s %s %s => %s\n", mtok(S.A).c_str(), mtok(S.b).c_str(), hasC ? qtok(C).c_str() : "-", join(S.insts).c_str(), out.c_str());
  if (r.coin(30)) {
    IntervalMatrix A2 = S.A; string o2;
    try { precond(A2); o2 = mtok(A2); } catch (...) { o2 = exc_name(std::current_exception()) + " " + mtok(A2); }
    EMIT("precondA %s %s => %s\n", mtok(S.A).c_str(), hasC ? qtok(C).c_str() : "-", o2.c_str());
  }
}

static void do_hb(Rng& r) {
  int n = r.range(1, MAXN);
  int kind = r.coin(70) ? 5 : r.coin(50) ? 1 : (int)r.below(NKIND);
  Sys S = gen_sys(r, n, n, kind, false);
  if (!bounded(S.A)) return;
  for (int i = 0; i < n; i++) if (S.b[i].is_unbounded()) S.b[i] = Interval(S.b[i].lb() == NEG_INFINITY ? -8 : S.b[i].lb(), S.b[i].ub() == POS_INFINITY ? 8 : S.b[i].ub());
  IntervalVector x(n); string out;
  try { hansen_bliek(S.A, S.b, x); out = tok(x); } catch (...) { out = exc_name(std::current_exception()); }
  check_round_up("hansen_bliek");
  EMIT("hb %s %s %s => %s\n", mtok(S.A).c_str(), mtok(S.b).c_str(), join(S.insts).c_str(), out.c_str());
}

static void do_inv(Rng& r) {
  int n = r.range(1, MAXN);
  { // Neumaier: any square matrix (and sometimes a rectangular one: NotSquareMatrixException is documented)
    int m = r.coin(8) ? n + 1 : n;
    int kind = r.coin(35) ? 5 : r.coin(30) ? 1 : (int)r.below(NKIND); if (kind == 6) kind = 9;
    IntervalMatrix A = gen_imat(r, m, n, kind);
    if (bounded(A)) {
      IntervalMatrix inv(n, n); string out;
      try { neumaier_inverse(A, inv); out = mtok(inv); } catch (...) { out = exc_name(std::current_exception()); }
      check_round_up("neumaier_inverse");
      EMIT("ninv %s %s => %s\n", mtok(A).c_str(), inst_tokens(instances_of(r, A, 4)).c_str(), out.c_str());
    }
  }
  { // Rohn: documented for a midpoint-preconditioned matrix (midpoint = identity): A = I + [-Delta, Delta]
    IntervalMatrix A = gen_imat(r, n, n, 5);
    IntervalMatrix inv(n, n); string out;
    try { precond_rohn_inverse(A, inv); out = mtok(inv); } catch (...) { out = exc_name(std::current_exception()); }
    check_round_up("precond_rohn_inverse");
    EMIT("rinv %s %s => %s\n", mtok(A).c_str(), inst_tokens(instances_of(r, A, 4)).c_str(), out.c_str());
  }
}

static void do_det(Rng& r) {
  int n = r.range(1, MAXN);
  int kind = (int)r.below(NKIND);
  { // det (square; sometimes rectangular -> NotSquareMatrixException)
    int m = r.coin(6) ? n + 1 : n;
    IntervalMatrix A = gen_imat(r, m, n, kind); string out;
    try { Interval d = det(A); out = tok(d); } catch (...) { out = exc_name(std::current_exception()); }
    check_round_up("det");
    EMIT("det %s %s => %s\n", mtok(A).c_str(), inst_tokens(instances_of(r, A, 5)).c_str(), out.c_str());
  }
  { // interval LU, both pivotings, and full_rank (rectangular too)
    int m = r.coin(50) ? n : r.range(1, MAXN);
    IntervalMatrix A = gen_imat(r, m, n, (int)r.below(NKIND));
    string insts = inst_tokens(instances_of(r, A, 5));
    { IntervalMatrix LU(m, n); vector<int> p(m); string out;
      try { interval_LU(A, LU, p.data()); out = mtok(LU) + " " + ptoks(p.data(), m); } catch (...) { out = exc_name(std::current_exception()); }
      EMIT("ilu %s %s => %s\n", mtok(A).c_str(), insts.c_str(), out.c_str()); }
    { IntervalMatrix LU(m, n); vector<int> pr(m), pc(n); string out;
      try { interval_LU(A, LU, pr.data(), pc.data()); out = mtok(LU) + " " + ptoks(pr.data(), m) + " " + ptoks(pc.data(), n); } catch (...) { out = exc_name(std::current_exception()); }
      EMIT("ilu2 %s %s => %s\n", mtok(A).c_str(), insts.c_str(), out.c_str()); }
    { string out; try { out = tok(full_rank(A)); } catch (...) { out = exc_name(std::current_exception()); }
      EMIT("frank %s %s => %s\n", mtok(A).c_str(), insts.c_str(), out.c_str()); }
    check_round_up("interval_LU");
    if (r.coin(25)) { // real LU of the midpoint: the permutation must be a permutation
      bool ok = bounded(A);
      if (ok) { Matrix M = A.mid(); Matrix LU(m, n); vector<int> p(m, -1); string out;
        try { real_LU(M, LU, p.data()); out = ptoks(p.data(), m); } catch (...) { out = exc_name(std::current_exception()); }
        EMIT("rlu %s => %s\n", qtok(M).c_str(), out.c_str()); }
    }
  }
}

static void do_cert(Rng& r) {
  int n = r.range(1, MAXN);
  { // diagonal dominance (m <= n rows: the routine reads A[i][i] for every row)
    int m = r.coin(85) ? n : r.range(1, n);
    IntervalMatrix A = gen_imat(r, m, n, r.coin(70) ? 1 : (int)r.below(NKIND));
    EMIT("dd %s => %s\n", mtok(A).c_str(), tok(is_diagonal_dominant(A)).c_str());
  }
  { // positive definiteness: symmetric interval matrices
    int kind = r.coin(55) ? 8 : r.coin(50) ? 1 : (int)r.below(NKIND); if (kind == 6) kind = 0;
    IntervalMatrix A = symmetrize(gen_imat(r, n, n, kind));
    if (kind == 1) for (int i = 0; i < n; i++) A[i][i] = abs(A[i][i]);
    if (!bounded(A)) return;
    vector<Matrix> v;
    for (unsigned z = 0; z < (1u << (n - 1)); z++) v.push_back(rohn_vertex(A, z << 1));
    v.push_back(pick_sym_instance(r, A, 2));
    for (int k = 0; k < 4; k++) v.push_back(pick_sym_instance(r, A, r.coin() ? 3 : 4));
    string insts = inst_tokens(v), out;
    try { out = tok(is_posdef_sylvester(A)); } catch (...) { out = exc_name(std::current_exception()); }
    EMIT("pds %s %s => %s\n", mtok(A).c_str(), insts.c_str(), out.c_str());
    if (n >= 2 || r.coin(0)) {   // n = 1: the routine writes v[1] of a 1-vector (see report); not exercised
      try { out = tok(is_posdef_rohn(A)); } catch (...) { out = exc_name(std::current_exception()); }
      EMIT("pdr %s %s => %s\n", mtok(A).c_str(), insts.c_str(), out.c_str());
    }
    check_round_up("is_posdef");
  }
  if (r.coin(5)) { // documented exception of is_posdef_rohn on a rectangular matrix
    IntervalMatrix A = gen_imat(r, n + 1, n, 0); string out;
    try { out = tok(is_posdef_rohn(A)); } catch (...) { out = exc_name(std::current_exception()); }
    EMIT("pdr %s - => %s\n", mtok(A).c_str(), out.c_str());
  }
}

// ------------------------------------------------------------------ fixed special cases (always emitted first)
static void specials(const string& wl) {
  Rng r(12345);
  if (wl == "inv") {
    // 1x1 and diagonal matrices: the enclosure formulas are tight, so every rounding direction matters
    double cs[] = {1.0, 3.0, 0.75, 1.5, 7.0, 0.1, 10.0};
    double rs[] = {0.5, 0.25, 0.125, 0.3, 0.7, 1.0 / 3};
    for (double c : cs) for (double ra : rs) if (ra < c) {
      IntervalMatrix A(1, 1); A[0][0] = Interval(c - ra, c + ra); IntervalMatrix inv(1, 1); string out;
      try { neumaier_inverse(A, inv); out = mtok(inv); } catch (...) { out = exc_name(std::current_exception()); }
      EMIT("ninv %s %s => %s\n", mtok(A).c_str(), inst_tokens(instances_of(r, A, 2)).c_str(), out.c_str());
    }
    for (double ra : rs) for (int n = 1; n <= 2; n++) {
      IntervalMatrix A(n, n); for (int i = 0; i < n; i++) for (int j = 0; j < n; j++) A[i][j] = i == j ? Interval(1 - ra / n, 1 + ra / n) : n == 1 ? Interval(0) : Interval(-ra / 4, ra / 4);
      IntervalMatrix inv(n, n); string out;
      try { precond_rohn_inverse(A, inv); out = mtok(inv); } catch (...) { out = exc_name(std::current_exception()); }
      EMIT("rinv %s %s => %s\n", mtok(A).c_str(), inst_tokens(instances_of(r, A, 6)).c_str(), out.c_str());
    }
  }
}

int main(int argc, char** argv) {
  string wl = argc > 1 ? argv[1] : "gs";
  uint64_t seed = argc > 2 ? strtoull(argv[2], 0, 10) : 1;
  long n = argc > 3 ? atol(argv[3]) : 1000;
  bool full = argc > 4 && string(argv[4]) == "full";
  MAXN = full ? 6 : 4;
  Rng r(seed * 7919 + 15);
  specials(wl);
  for (long i = 0; i < n; i++) {
    if (wl == "gs") do_gs(r);
    else if (wl == "igs") do_igs(r);
    else if (wl == "pre") do_precond(r);
    else if (wl == "hb") do_hb(r);
    else if (wl == "inv") do_inv(r);
    else if (wl == "det") do_det(r);
    else if (wl == "cert") do_cert(r);
    else { fprintf(stderr, "unknown workload\n"); return 2; }
  }
  fprintf(stderr, "emitted %ld\n", emitted);
  return 0;
}
