// generator of scalar expressions with every elementary function (shared by the workloads judged with the MPFR oracle of mp_dag.h)
#ifndef VERIF_ELEM_GEN_H
#define VERIF_ELEM_GEN_H
#include "expr_io.h"
using namespace ibex; using namespace vh;
static const ExprNode& gen_elem(Rng& r, ExprGen& g, int depth) {
  if (depth <= 0) return g.gen(1, 1, r.range(0, 1));
  const ExprNode& a = gen_elem(r, g, depth - 1);
  switch (r.below(26)) {
    case 0: return exp(a); case 1: return log(sqr(a) + ExprConstant::new_scalar(r.range(1, 8) / 4.0)); case 2: return log(a);
    case 3: return cos(a); case 4: return sin(a); case 5: return tan(a);
    case 6: return acos(a); case 7: return asin(a); case 8: return atan(a);
    case 9: return cosh(a); case 10: return sinh(a); case 11: return tanh(a);
    case 12: return acosh(a); case 13: return asinh(a); case 14: return atanh(a);
    case 15: return acos(sin(a)); case 16: return atanh(tanh(a) * 0.5); case 17: return acosh(cosh(a) + 0.25);
    case 18: return atan2(a, sqr(gen_elem(r, g, depth - 1)) + ExprConstant::new_scalar(r.range(1, 8) / 8.0));
    case 19: return sqrt(abs(a)) + pow(a, (int)r.range(-2, 4));
    case 20: return a + gen_elem(r, g, depth - 1); case 21: return a * gen_elem(r, g, depth - 1); case 22: return a - gen_elem(r, g, depth - 1);
    case 23: return a / (sqr(gen_elem(r, g, depth - 1)) + 1.0);
    case 24: return max(a, gen_elem(r, g, depth - 1)) - min(a, exp(-a));
    default: return chi(a, sin(a), cos(gen_elem(r, g, depth - 1)));
  }
}
#endif
