// Grammar-based random generator of well-formed Minibex systems (property C10), their printing with
// syntactic noise, and single-token mutations.  Independent of the library (uses only mbx_ref.h types
// and the PRNG of common.h).  The generator produces an abstract syntax tree; the expected model is
// the denotation of that tree (mbx::Denoter), the text is its printing — the reference reader applied
// to the text must give the same tree denotation again (checked by the harness: generator and reader
// validate each other before the real parser is judged).
#ifndef VERIF_MBX_GEN_H
#define VERIF_MBX_GEN_H
#include "mbx_ref.h"
#include "common.h"
#include <set>

namespace mbx {

// ---------------------------------------------------------------------------------------------
// printing: AST -> token list -> text
struct Printer {
  vh::Rng* r; bool noise;
  std::vector<std::string> out;
  Printer(vh::Rng* rr, bool n) : r(rr), noise(n) {}
  void t(const std::string& s) { out.push_back(s); }
  bool coin(int pct) { return noise && r && r->coin(pct); }

  static int prec(const EP& e) {
    switch (e->k) { case K_ADD: case K_SUB: return 1; case K_NEG: return 1; case K_MUL: case K_DIV: return 2; case K_POW: case K_TRANS: return 3; case K_IDX: return 4; default: return 5; }
  }
  void ex(const EP& e, int ctx) {
    bool par = false;
    if (e->k == K_NEG) par = ctx >= 2; else par = prec(e) < ctx;
    if (!par && coin(6)) par = true;
    if (par) t("(");
    switch (e->k) {
      case K_NUM: t(e->spell); break;
      case K_PI: t("pi"); break;
      case K_INF: t("oo"); break;
      case K_ITV: t("["); ex(e->a[0], 1); t(","); ex(e->a[1], 1); t("]"); break;
      case K_BALL: t("<"); ex(e->a[0], 1); t(","); ex(e->a[1], 1); t(">"); break;
      case K_SYM: t(e->name); break;
      case K_NEG: t("-"); ex(e->a[0], 2); break;
      case K_ADD: ex(e->a[0], 1); t("+"); ex(e->a[1], 2); break;
      case K_SUB: ex(e->a[0], 1); t("-"); ex(e->a[1], 2); break;
      case K_MUL: ex(e->a[0], 2); t("*"); ex(e->a[1], 3); break;
      case K_DIV: ex(e->a[0], 2); t("/"); ex(e->a[1], 3); break;
      case K_POW: ex(e->a[0], 3); t("^"); ex(e->a[1], 4); break;
      case K_TRANS: ex(e->a[0], 3); t("'"); break;
      case K_CALL: t(e->name); t("("); for (size_t i = 0; i < e->a.size(); i++) { if (i) t(","); ex(e->a[i], 1); } t(")"); break;
      case K_IDX: {
        ex(e->a[0], 4); t(e->matlab ? "(" : "[");
        for (size_t i = 1; i < e->a.size(); i++) { if (i > 1) t(","); const EP& ix = e->a[i];
          if (ix->k == K_IDXALL) t(":"); else if (ix->k == K_IDXONE) ex(ix->a[0], 1); else { ex(ix->a[0], 1); t(":"); ex(ix->a[1], 1); } }
        t(e->matlab ? ")" : "]"); break; }
      case K_ROW: case K_COL: t("("); for (size_t i = 0; i < e->a.size(); i++) { if (i) t(e->k == K_ROW ? "," : ";"); ex(e->a[i], 1); } t(")"); break;
      case K_SUM: t("sum"); t("("); t(e->name); t("="); ex(e->a[0], 1); t(":"); ex(e->a[1], 1); t(","); ex(e->a[2], 1); t(")"); break;
      default: break;
    }
    if (par) t(")");
  }
  std::string kw(const char* k) { std::string s = k; if (coin(25)) { s[0] = toupper(s[0]); if (coin(50)) for (auto& c : s) c = toupper(c); } return s; }
  void decl(const Decl& d) { t(d.name); if (d.d1) { t("["); ex(d.d1, 1); t("]"); } if (d.d2) { t("["); ex(d.d2, 1); t("]"); } }
  void func(const Func& f) {
    t(kw("function")); t(f.name); t("("); for (size_t i = 0; i < f.args.size(); i++) { if (i) t(","); decl(f.args[i]); } t(")");
    for (auto& c : f.code) { t(c.first); t("="); ex(c.second, 1); t(";"); }
    t(kw("return")); ex(f.ret, 1); if (!noise || !r->coin(30)) t(";"); t(kw("end"));
  }
  void items(const std::vector<IP>& l, bool last_semi) {
    for (size_t i = 0; i < l.size(); i++) {
      const IP& it = l[i];
      if (it->paren) t("(");
      switch (it->t) {
        case Item::CTR: ex(it->l, 1); t(cmptext(it->op)); ex(it->r, 1); break;
        case Item::IN: ex(it->l, 1); t("in"); ex(it->r, 1); break;
        case Item::INTEGER: t("integer"); t("("); ex(it->l, 1); t(")"); break;
        case Item::TMP: t(it->name); t("="); ex(it->l, 1); break;
        case Item::LOOP: t(kw("for")); t(it->name); t("="); ex(it->l, 1); t(":"); ex(it->r, 1); t(";"); items(it->body, coin(50)); t(kw("end")); break;
      }
      if (it->paren) t(")");
      bool need = (i + 1 < l.size()) && it->t != Item::LOOP;
      if (need || (i + 1 < l.size() && !coin(40)) || (i + 1 == l.size() && last_semi)) t(";");
    }
  }
  void program(const Program& P) {
    if (P.has_consts) { t(kw("constants")); for (auto& d : P.consts) { decl(d); t(d.use_in ? "in" : "="); ex(d.init, 1); t(";"); } }
    for (auto& f : P.funcs1) func(f);
    if (P.has_vars) t(kw("variables"));
    if (P.has_vars) for (size_t i = 0; i < P.vars.size(); i++) { decl(P.vars[i]); if (P.vars[i].init) { t("in"); ex(P.vars[i].init, 1); } t(i + 1 < P.vars.size() ? (coin(50) ? "," : ";") : ";"); }
    for (auto& f : P.funcs2) func(f);
    if (P.goal) { t(kw("minimize")); ex(P.goal, 1); if (!noise || !r->coin(30)) t(";"); }
    if (P.has_ctrs) { t(kw("constraints")); if (P.ctrs.empty()) { if (coin(50)) t(";"); } else items(P.ctrs, !noise || !r->coin(30)); t(kw("end")); }
  }
};

inline bool alnum_edge(char c) { return isalnum((unsigned char)c) || c == '_' || c == '.' || c == '#'; }
// join tokens into a text; `r` = null: single spaces and a newline after ';'
inline std::string join_tokens(const std::vector<std::string>& tk, vh::Rng* r) {
  std::string s;
  for (size_t i = 0; i < tk.size(); i++) {
    if (i) {
      bool must = alnum_edge(s.back()) && alnum_edge(tk[i][0]);
      // never create a two-character token or a comment opener by juxtaposition
      char a = s.back(), b = tk[i][0];
      if ((a == '<' || a == '>' || a == ':') && b == '=') must = true;
      if (a == '/' && (b == '/' || b == '*')) must = true;
      if (a == '*' && b == '/') must = true;
      std::string sep;
      if (!r) sep = (tk[i - 1] == ";" ? "\n" : " ");
      else switch (r->below(must ? 5 : 9)) {
        case 0: sep = " "; break; case 1: sep = "\n"; break; case 2: sep = "  \t"; break; case 3: sep = " /* c*m */ "; break; case 4: sep = " // rem ; end\n"; break;
        default: sep = ""; }
      s += sep;
    }
    s += tk[i];
  }
  s += "\n";
  return s;
}

// ---------------------------------------------------------------------------------------------
// random well-formed programs
struct GenCfgM { bool transcendental = true; int max_depth = 3; bool loops = true; bool funcs = true; bool consts = true; bool inexact_literals = false; };

struct SysGen {
  vh::Rng& r; GenCfgM cfg;
  struct SymI { std::string name; int rows, cols; bool isconst; int ival; bool isint; int lo, hi; /* iterator range */ char kind; /* v c t i */ };
  std::vector<SymI> syms;                       // visible symbols (variables, constants, temporaries, iterators)
  struct FSig { std::string name; std::vector<std::pair<int, int>> args; int rows, cols; };
  std::vector<FSig> fsigs;
  int fresh = 0;
  SysGen(vh::Rng& rr, const GenCfgM& c) : r(rr), cfg(c) {}

  std::string name(const char* base) { return std::string(base) + std::to_string(fresh++); }
  EP lit_int(int v) { EP e = mknum(std::abs(v), std::to_string(std::abs(v))); return v < 0 ? mk(K_NEG, {e}) : e; }
  // exactly representable literal, various spellings
  EP lit(bool allow_neg = true) {
    int k = r.range(0, 40); double v; std::string sp; char buf[64];
    switch (r.below(7)) {
      case 0: v = k; sp = std::to_string(k); break;
      case 1: v = k / 4.0; snprintf(buf, sizeof buf, "%.2f", v); sp = buf; break;
      case 2: v = k / 8.0; snprintf(buf, sizeof buf, "%.3f", v); sp = buf; break;
      case 3: v = k * 0.5; snprintf(buf, sizeof buf, "%.1fe0", v); sp = buf; break;
      case 4: v = k * 100.0; snprintf(buf, sizeof buf, "%de2", k); sp = buf; break;
      case 5: { v = k / 16.0; uint64_t u; std::memcpy(&u, &v, 8); snprintf(buf, sizeof buf, "#%llx", (unsigned long long)u); sp = buf; break; }
      default: if (cfg.inexact_literals && r.coin(50)) { v = 0; snprintf(buf, sizeof buf, "0.%d", r.range(1, 999)); sp = buf; EP e = mk(K_NUM); double nr, lo, hi; decimal_value(sp, nr, lo, hi); e->num = lo == hi ? CI(lo) : CI(lo, hi); e->spell = sp; return e; }
               v = k + 0.5; snprintf(buf, sizeof buf, "%d.5", k); sp = buf; break;
    }
    EP e = mknum(v, sp);
    if (allow_neg && r.coin(25)) return mk(K_NEG, {e});
    return e;
  }
  // ---- leaves
  std::vector<const SymI*> cands(int rows, int cols, bool constonly, bool nonconstonly) {
    std::vector<const SymI*> c; for (auto& s : syms) { if (s.rows != rows || s.cols != cols) continue; if (constonly && !s.isconst) continue; if (nonconstonly && s.isconst) continue; c.push_back(&s); } return c;
  }
  EP idx_lit(int i, bool matlab) { return mk(K_IDXONE, {intexpr(matlab ? i + 1 : i)}); }
  // an integer-valued constant expression equal to v for every value of the iterators: literal, constant symbol, arithmetic
  EP intexpr(int v) {
    std::vector<const SymI*> ic; for (auto& s : syms) if (s.isconst && s.isint && s.kind == 'c') ic.push_back(&s);
    switch (r.below(6)) {
      case 0: if (!ic.empty()) { const SymI* s = ic[r.below(ic.size())]; int d = v - s->ival; if (d == 0) return mksym(s->name); return mk(d > 0 ? K_ADD : K_SUB, {mksym(s->name), lit_int(std::abs(d))}); } break;
      case 1: if (v >= 1) { int a = r.range(0, v); return mk(K_ADD, {lit_int(a), lit_int(v - a)}); } break;
      case 2: if (v % 2 == 0 && v > 0) return mk(K_MUL, {lit_int(2), lit_int(v / 2)}); break;
      default: break;
    }
    return lit_int(v);
  }
  // scalar component of a non-constant symbol
  EP component(const SymI& s) {
    EP b = mksym(s.name);
    if (s.rows == 1 && s.cols == 1) return b;
    bool matlab = r.coin(75);
    if (s.rows == 1 || s.cols == 1) { int n = s.rows * s.cols; EP e = mk(K_IDX, {b, idx_one(n, matlab)}); e->matlab = matlab; return e; }
    if (matlab) { EP e = mk(K_IDX, {b, idx_one(s.rows, true), idx_one(s.cols, true)}); e->matlab = true; return e; }
    EP e1 = mk(K_IDX, {b, idx_one(s.rows, false)}); e1->matlab = false; EP e2 = mk(K_IDX, {e1, idx_one(s.cols, false)}); e2->matlab = false; return e2;
  }
  // index in 0..n-1 (spelled 1-based when matlab); may use an iterator whose whole range fits
  EP idx_one(int n, bool matlab) {
    std::vector<const SymI*> its; for (auto& s : syms) if (s.kind == 'i') its.push_back(&s);
    if (!its.empty() && r.coin(50)) {
      const SymI* it = its[r.below(its.size())]; int base = matlab ? 1 : 0;
      for (int tries = 0; tries < 4; tries++) { int sh = r.range(-1, 1); if (it->lo + sh >= base && it->hi + sh <= n - 1 + base) {
          EP e = mksym(it->name); if (sh > 0) e = mk(K_ADD, {e, lit_int(sh)}); else if (sh < 0) e = mk(K_SUB, {e, lit_int(-sh)}); return mk(K_IDXONE, {e}); } }
    }
    return idx_lit((int)r.below(n), matlab);
  }
  EP nonconst(int rows, int cols) {
    std::vector<const SymI*> c = cands(rows, cols, false, true);
    if (!c.empty() && r.coin(70)) return mksym(c[r.below(c.size())]->name);
    std::vector<const SymI*> nc; for (auto& s : syms) if (!s.isconst) nc.push_back(&s);
    if (rows == 1 && cols == 1) return component(*nc[r.below(nc.size())]);
    // transposed symbol
    std::vector<const SymI*> tc = cands(cols, rows, false, true);
    if (!tc.empty() && r.coin(50)) return mk(K_TRANS, {mksym(tc[r.below(tc.size())]->name)});
    if (rows == 1) { std::vector<EP> a; for (int j = 0; j < cols; j++) a.push_back(nonconst(1, 1)); return mk(K_ROW, a); }
    if (cols == 1) { std::vector<EP> a; for (int i = 0; i < rows; i++) a.push_back(nonconst(1, 1)); return mk(K_COL, a); }
    std::vector<EP> a; for (int i = 0; i < rows; i++) a.push_back(nonconst(1, cols)); return mk(K_COL, a);
  }
  EP constant(int rows, int cols) {
    std::vector<const SymI*> c = cands(rows, cols, true, false);
    if (!c.empty() && r.coin(40)) return mksym(c[r.below(c.size())]->name);
    if (rows == 1 && cols == 1) {
      if (r.coin(8)) { EP a = lit(), b = mk(K_ADD, {a, lit(false)}); return mk(K_ITV, {a, b}); }      // thick constant [a, a+b]
      if (r.coin(5)) { // ball constant <c,r> with a radius that is (often) not a binary64 number: 1/3, pi/4, k/10
        EP rad; switch (r.below(4)) { case 0: rad = mk(K_DIV, {lit_int(1), lit_int(r.range(3, 7))}); break; case 1: rad = mk(K_DIV, {mk(K_PI), lit_int(r.range(2, 5))}); break; case 2: rad = lit_int(r.range(0, 3)); break; default: rad = mk(K_DIV, {lit_int(r.range(1, 9)), lit_int(10)}); }
        return mk(K_BALL, {lit(), rad}); }
      std::vector<const SymI*> its; for (auto& s : syms) if (s.kind == 'i') its.push_back(&s);
      if (!its.empty() && r.coin(30)) return mksym(its[r.below(its.size())]->name);
      return lit();
    }
    if (rows == 1) { std::vector<EP> a; for (int j = 0; j < cols; j++) a.push_back(constant(1, 1)); return mk(K_ROW, a); }
    if (cols == 1) { std::vector<EP> a; for (int i = 0; i < rows; i++) a.push_back(constant(1, 1)); return mk(K_COL, a); }
    std::vector<EP> a; for (int i = 0; i < rows; i++) a.push_back(constant(1, cols)); return mk(K_COL, a);
  }
  // ---- expressions.  `*isc` receives whether the generated expression is constant.
  EP gen(int rows, int cols, int depth, bool* isc = nullptr) {
    bool dummy; bool& c = isc ? *isc : dummy; c = false;
    if (depth <= 0 || r.coin(12)) { if (r.coin(25)) { c = true; return constant(rows, cols); } return nonconst(rows, cols); }
    bool scalar = rows == 1 && cols == 1; bool ca, cb;
    if (scalar) {
      switch (r.below(cfg.transcendental ? 22 : 16)) {   // 0..15: operators of the exact evaluators; 16..21: sqrt, elementary functions, atan2, real powers
        case 0: { EP a = gen(1, 1, depth - 1, &ca), b = gen(1, 1, depth - 1, &cb); c = ca && cb; return mk(K_ADD, {a, b}); }
        case 1: { EP a = gen(1, 1, depth - 1, &ca), b = gen(1, 1, depth - 1, &cb); c = ca && cb; return mk(K_SUB, {a, b}); }
        case 2: case 3: { EP a = gen(1, 1, depth - 1, &ca), b = gen(1, 1, depth - 1, &cb); c = ca && cb; return mk(K_MUL, {a, b}); }
        case 4: { EP a = gen(1, 1, depth - 1, &ca), b = gen(1, 1, depth - 1, &cb); if (ca && cb) b = nonconst(1, 1); else if (cb) { int k = r.range(1, 12); b = mknum(k / 4.0, ""); char buf[32]; snprintf(buf, sizeof buf, "%.2f", k / 4.0); b->spell = buf; } return mk(K_DIV, {a, b}); }
        case 5: { EP a = gen(1, 1, depth - 1, &ca); c = ca; return mk(K_NEG, {a}); }
        case 6: { // integer power (also 0, 1, 2 and negative), exponent possibly a constant expression
          EP a = gen(1, 1, depth - 1, &ca); if (ca) a = nonconst(1, 1); int n = r.range(-3, 5); EP ex = r.coin(30) ? intexpr(n) : lit_int(n); return mk(K_POW, {a, ex}); }
        case 7: { // dot product
          int n = r.range(2, 3); EP a = gen(1, n, depth - 1, &ca), b = gen(n, 1, depth - 1, &cb); c = ca && cb; return mk(K_MUL, {a, b}); }
        case 8: { // component of a vector / matrix expression
          int n = r.range(2, 3); bool row = r.coin(); EP v = gen(row ? 1 : n, row ? n : 1, depth - 1, &ca); c = ca; bool m = r.coin(70); EP e = mk(K_IDX, {v, idx_one(n, m)}); e->matlab = m; return e; }
        case 9: { int n = r.range(2, 3), m = r.range(2, 3); EP M = gen(n, m, depth - 1, &ca); c = ca; EP e = mk(K_IDX, {M, idx_one(n, true), idx_one(m, true)}); e->matlab = true; return e; }
        case 10: { int na = r.range(2, 4); std::vector<EP> a; bool all = true; for (int i = 0; i < na; i++) { a.push_back(gen(1, 1, depth - 1, &ca)); all = all && ca; } c = all; return mkcall(r.coin() ? "max" : "min", a); }
        case 11: { EP a = gen(1, 1, depth - 1, &ca); const char* f[] = {"abs", "sqr", "floor", "ceil"}; int k = r.below(4); if (ca && k >= 1 && !exact_safe(a)) a = nonconst(1, 1), ca = false; c = ca; return mkcall(f[k], {a}); }
        case 12: { EP a = gen(1, 1, depth - 1, &ca); if (ca) a = nonconst(1, 1); return mkcall("sign", {a}); }
        case 13: { EP a = gen(1, 1, depth - 1, &ca), b = gen(1, 1, depth - 1), d = gen(1, 1, depth - 1); if (ca) a = nonconst(1, 1); return mkcall("chi", {a, b, d}); }
        case 14: if (!fsigs.empty()) { const FSig& f = fsigs[r.below(fsigs.size())]; if (f.rows == 1 && f.cols == 1) { std::vector<EP> a; for (auto& d : f.args) a.push_back(gen(d.first, d.second, depth - 1)); a[0] = nonconst(f.args[0].first, f.args[0].second);
                     // (a constant argument becomes a constant leaf of the body: with elementary functions in the body the serialised
                     //  system would contain operators applied to constants only, which the parser folds with the interval library)
                     for (size_t i = 1; i < a.size(); i++) a[i] = nonconst(f.args[i].first, f.args[i].second); EP e = mkcall(f.name, a); e->spell = "user"; return e; } }
                 return nonconst(1, 1);
        case 15: { // sum over a small range
          std::string it = name("k"); int lo = r.range(1, 2), hi = lo + r.range(0, 2); EP a = lit_int(lo), b = intexpr(hi);
          syms.push_back({it, 1, 1, true, 0, true, lo, hi, 'i'}); EP body = gen(1, 1, depth - 1, &ca); syms.pop_back(); c = ca;
          EP e = mk(K_SUM, {a, b, body}); e->name = it; return e; }
        case 16: { EP a = gen(1, 1, depth - 1, &ca); if (ca) a = nonconst(1, 1); return mkcall("sqrt", {a}); }
        case 17: { EP a = gen(1, 1, depth - 1, &ca); if (ca) a = nonconst(1, 1);
                   const char* f[] = {"exp", "ln", "cos", "sin", "tan", "acos", "asin", "atan", "cosh", "sinh", "tanh", "acosh", "asinh", "atanh"}; return mkcall(f[r.below(14)], {a}); }
        case 18: { EP a = gen(1, 1, depth - 1, &ca), b = gen(1, 1, depth - 1, &cb); if (ca && cb) a = nonconst(1, 1); return mkcall("atan2", {a, b}); }
        case 19: { // x^y, x^0.5 : exp(y*ln(x))
          EP a = gen(1, 1, depth - 1, &ca); if (ca) a = nonconst(1, 1); EP b;
          if (r.coin()) { b = gen(1, 1, depth - 1, &cb); if (cb) b = lit_int(r.range(-3, 6)); /* (a constant exponent stays small) */ }
          else { double v = r.range(1, 7) / 2.0 + 0.25; char buf[32]; snprintf(buf, sizeof buf, "%.2f", v); b = mknum(v, buf); }
          return mk(K_POW, {a, b}); }
        case 20: { EP a = gen(1, 1, depth - 1, &ca), b = gen(1, 1, depth - 1, &cb); if (ca) a = nonconst(1, 1); return mkcall("pow", {a, (cb || r.coin()) ? lit_int(r.range(-2, 4)) : b}); }
        default: { EP a = gen(1, 1, depth - 1, &ca); c = ca; return a; }
      }
    }
    switch (r.below(8)) {
      case 0: { EP a = gen(rows, cols, depth - 1, &ca), b = gen(rows, cols, depth - 1, &cb); c = ca && cb; return mk(K_ADD, {a, b}); }
      case 1: { EP a = gen(rows, cols, depth - 1, &ca), b = gen(rows, cols, depth - 1, &cb); c = ca && cb; return mk(K_SUB, {a, b}); }
      case 2: { EP a = gen(1, 1, depth - 1, &ca), b = gen(rows, cols, depth - 1, &cb); c = ca && cb; return mk(K_MUL, {a, b}); }
      case 3: { EP a = gen(rows, cols, depth - 1, &ca); c = ca; return mk(K_NEG, {a}); }
      case 4: { EP a = gen(cols, rows, depth - 1, &ca); c = ca; return mk(K_TRANS, {a}); }
      case 5: { int k = r.range(2, 3); EP a = gen(rows, k, depth - 1, &ca), b = gen(k, cols, depth - 1, &cb); c = ca && cb; return mk(K_MUL, {a, b}); }
      case 6: { // a range of a longer vector / a block of a matrix
        if (rows == 1 || cols == 1) {
          // inside a loop / a sum: a window that MOVES with the iterator, x(i+s : i+s+n-1) (every iteration must read its own slice)
          std::vector<SymI> its; for (auto& s : syms) if (s.kind == 'i') its.push_back(s);
          if (!its.empty() && r.coin(60)) {
            SymI it = its[r.below(its.size())]; int n = rows * cols, span = it.hi - it.lo, extra = r.range(0, 1), first0 = r.range(0, extra), N = n + span + extra;
            EP v = gen(rows == 1 ? 1 : N, rows == 1 ? N : 1, depth - 1, &ca); c = ca; bool m = r.coin(75); int b = m ? 1 : 0, sh = b + first0 - it.lo;
            auto shifted = [&](int d) { EP e = mksym(it.name); if (d > 0) e = mk(K_ADD, {e, lit_int(d)}); else if (d < 0) e = mk(K_SUB, {e, lit_int(-d)}); return e; };
            EP ix = mk(K_IDXRANGE, {shifted(sh), shifted(sh + n - 1)}); EP e = mk(K_IDX, {v, ix}); e->matlab = m; return e;
          }
          int n = rows * cols, extra = r.range(0, 2), first = r.range(0, extra); EP v = gen(rows == 1 ? 1 : n + extra, rows == 1 ? n + extra : 1, depth - 1, &ca); c = ca; bool m = r.coin(75); int b = m ? 1 : 0;
          EP ix = mk(K_IDXRANGE, {intexpr(first + b), intexpr(first + n - 1 + b)}); EP e = mk(K_IDX, {v, ix}); e->matlab = m; return e; }
        EP M = gen(rows + 1, cols, depth - 1, &ca); c = ca; int first = r.range(0, 1);
        if (r.coin(40)) { // a SINGLE range index on a matrix selects rows: M(a:b) = M(a:b,:)
          EP e1 = mk(K_IDX, {M, mk(K_IDXRANGE, {lit_int(first + 1), lit_int(first + rows)})}); e1->matlab = true; return e1; }
        EP e = mk(K_IDX, {M, mk(K_IDXRANGE, {lit_int(first + 1), lit_int(first + rows)}), mk(K_IDXALL)}); e->matlab = true; return e; }
      default: { // vector / matrix literal built from components
        bool all = true; std::vector<EP> a;
        if (rows == 1) { for (int j = 0; j < cols; j++) { a.push_back(gen(1, 1, depth - 1, &ca)); all = all && ca; } c = all; return mk(K_ROW, a); }
        if (cols == 1) { for (int i = 0; i < rows; i++) { a.push_back(gen(1, 1, depth - 1, &ca)); all = all && ca; } c = all; return mk(K_COL, a); }
        if (r.coin()) { for (int i = 0; i < rows; i++) { a.push_back(gen(1, cols, depth - 1, &ca)); all = all && ca; } c = all; return mk(K_COL, a); }
        for (int j = 0; j < cols; j++) { a.push_back(gen(rows, 1, depth - 1, &ca)); all = all && ca; } c = all; return mk(K_ROW, a); }
    }
  }
  // a constant argument on which floor/ceil/sqr are folded exactly by any correct implementation: a literal
  static bool exact_safe(const EP& e) { return e->k == K_NUM || (e->k == K_NEG && e->a[0]->k == K_NUM); }

  Decl dimdecl(const std::string& n, int rows, int cols) {
    Decl d; d.name = n;
    if (rows > 1 || cols > 1) { d.d1 = intexpr(rows); if (cols > 1 || r.coin(15)) d.d2 = intexpr(cols); }
    return d;
  }
  void pickdim(int& rows, int& cols) { switch (r.below(6)) { case 0: rows = r.range(2, 3); cols = 1; break; case 1: rows = 1; cols = r.range(2, 3); break; case 2: rows = r.range(2, 3); cols = r.range(2, 3); break; default: rows = cols = 1; } }
  EP domain(int rows, int cols) {
    auto itv = [&]() -> EP { int a = r.range(-8, 8), w = r.range(0, 6); EP lo = r.coin(15) ? mk(K_NEG, {mk(K_INF)}) : lit_int(a); EP hi = r.coin(15) ? (r.coin() ? mk(K_INF) : mkpos(mk(K_INF))) : lit_int(a + w); return mk(K_ITV, {lo, hi}); };
    if ((rows == 1 && cols == 1) || r.coin(50)) return itv();
    std::vector<EP> a;
    if (rows == 1) { for (int j = 0; j < cols; j++) a.push_back(itv()); return mk(K_ROW, a); }
    if (cols == 1) { for (int i = 0; i < rows; i++) a.push_back(itv()); return mk(K_COL, a); }
    for (int i = 0; i < rows; i++) { std::vector<EP> row; for (int j = 0; j < cols; j++) row.push_back(itv()); a.push_back(mk(K_ROW, row)); } return mk(K_COL, a);
  }
  static EP mkpos(EP e) { return e; }  // "+oo" is spelled by the printer as "oo" (unary plus is the identity)

  Func function() {
    Func f; f.name = name("f"); auto saved = syms; std::vector<SymI> vis; for (auto& s : syms) if (s.kind == 'c') vis.push_back(s); syms = vis;
    int na = r.range(1, 3); FSig sig; sig.name = f.name;
    for (int i = 0; i < na; i++) { int rows, cols; pickdim(rows, cols); std::string n = name("a"); f.args.push_back(dimdecl(n, rows, cols)); syms.push_back({n, rows, cols, false, 0, false, 0, 0, 'v'}); sig.args.push_back({rows, cols}); }
    int nt = r.range(0, 2);
    for (int i = 0; i < nt; i++) { int rows, cols; pickdim(rows, cols); std::string n = name("t"); bool c; EP e = gen(rows, cols, 2, &c); if (c) e = mk(K_ADD, {e, nonconst(rows, cols)}); f.code.push_back({n, e}); syms.push_back({n, rows, cols, false, 0, false, 0, 0, 't'}); }
    if (r.coin(75)) { sig.rows = sig.cols = 1; } else pickdim(sig.rows, sig.cols);
    bool c; f.ret = gen(sig.rows, sig.cols, cfg.max_depth, &c); if (c) f.ret = mk(K_ADD, {f.ret, nonconst(sig.rows, sig.cols)});
    syms = saved; fsigs.push_back(sig); return f;
  }
  IP ctr_item(int depth) {
    IP it = std::make_shared<Item>();
    int k = r.below(100);
    if (k < 8) { it->t = Item::IN; bool c; it->l = gen(1, 1, depth, &c); if (c) it->l = nonconst(1, 1); int a = r.range(-5, 5); it->r = r.coin(20) ? lit_int(a) : mk(K_ITV, {lit_int(a), lit_int(a + r.range(0, 4))}); return it; }
    if (k < 12 && !cfg.inexact_literals) { /* (saw is outside the exact evaluators: not next to literals that are not binary64 numbers) */ it->t = Item::INTEGER; it->l = nonconst(1, 1); if (r.coin()) it->l = mk(K_MUL, {lit_int(2), it->l}); return it; }
    it->t = Item::CTR; it->op = (Cmp)r.below(5); int rows = 1, cols = 1; if (r.coin(25)) pickdim(rows, cols);
    bool c; it->l = gen(rows, cols, depth, &c); if (c) it->l = nonconst(rows, cols);
    it->r = r.coin(40) ? constant(rows, cols) : gen(rows, cols, depth > 1 ? depth - 1 : 1);
    if (r.coin(5)) it->paren = true;
    return it;
  }
  std::vector<IP> items(int n, int nest) {
    std::vector<IP> l;
    for (int i = 0; i < n; i++) {
      int k = r.below(100);
      if (cfg.loops && k < 18 && nest < 2) {
        IP it = std::make_shared<Item>(); it->t = Item::LOOP; it->name = name("i"); int lo = r.range(1, 2), hi = lo + r.range(0, 2); if (r.coin(5)) hi = lo - 1;   // (empty loop)
        it->l = lit_int(lo); it->r = intexpr(hi); size_t mark = syms.size(); syms.push_back({it->name, 1, 1, true, 0, true, lo, hi >= lo ? hi : lo, 'i'});
        it->body = items(r.range(1, 2), nest + 1); syms.resize(mark); l.push_back(it);
      } else if (k < 30) {
        IP it = std::make_shared<Item>(); it->t = Item::TMP; it->name = name("z"); int rows, cols; pickdim(rows, cols); bool c; it->l = gen(rows, cols, 2, &c); if (c) it->l = mk(K_ADD, {it->l, nonconst(rows, cols)});
        l.push_back(it); syms.push_back({it->name, rows, cols, false, 0, false, 0, 0, 't'});
      } else l.push_back(ctr_item(cfg.max_depth));
    }
    // temporaries declared in this list are not visible after it when it is a loop body (the caller truncates)
    return l;
  }
  Program program() {
    Program P; syms.clear(); fsigs.clear(); fresh = 0;
    if (cfg.consts && r.coin(60)) {
      P.has_consts = true; int nc = r.range(0, 4);
      for (int i = 0; i < nc; i++) {
        Decl d; int rows = 1, cols = 1; if (r.coin(40)) pickdim(rows, cols);
        std::string n = name("c");
        if (rows == 1 && cols == 1 && r.coin(50)) { int v = r.range(1, 3); d = dimdecl(n, 1, 1); d.init = intexpr(v); d.use_in = r.coin(20); P.consts.push_back(d); syms.push_back({n, 1, 1, true, v, true, 0, 0, 'c'}); continue; }
        d = dimdecl(n, rows, cols); d.use_in = r.coin(30);
        if ((rows > 1 || cols > 1) && r.coin(25)) d.init = constant(1, 1); else d.init = constant(rows, cols);
        P.consts.push_back(d); syms.push_back({n, rows, cols, true, 0, false, 0, 0, 'c'});
      }
    }
    auto consts_only = syms;
    // variables are declared after the first group of functions, but functions do not see them anyway
    int nv = r.range(1, 4); std::vector<SymI> vars;
    for (int i = 0; i < nv; i++) { int rows, cols; pickdim(rows, cols); std::string n = name("x"); Decl d = dimdecl(n, rows, cols); if (r.coin(60)) d.init = domain(rows, cols); P.vars.push_back(d); vars.push_back({n, rows, cols, false, 0, false, 0, 0, 'v'}); }
    P.has_vars = true;
    if (cfg.funcs) { int nf = r.below(3); for (int i = 0; i < nf; i++) { Func f = function(); if (r.coin()) P.funcs1.push_back(f); else P.funcs2.push_back(f); } }
    // (functions of the second group may call those of the first: generation order = declaration order within each group)
    for (auto& v : vars) syms.push_back(v);
    bool goal = r.coin(40);
    if (goal) { bool c; P.goal = gen(1, 1, cfg.max_depth, &c); if (c) P.goal = mk(K_ADD, {P.goal, nonconst(1, 1)}); }
    if (!goal || r.coin(85)) { P.has_ctrs = true; if (!r.coin(4)) P.ctrs = items(r.range(1, 5), 0); }
    return P;
  }
};

// functions of the second group must not be called by functions of the first group: the generator
// creates signatures in generation order, so a function placed in group 1 may have been generated
// after one placed in group 2.  `fix_order` moves to group 2 every function that calls a group-2 one.
inline void collect_calls(const EP& e, std::set<std::string>& s) { if (!e) return; if (e->k == K_CALL && e->spell == "user") s.insert(e->name); for (auto& a : e->a) collect_calls(a, s); }
inline void fix_order(Program& P) {
  // keep the generation order (names f<k> increase) inside each group, and close group 2 under "is called by a later one"
  std::vector<Func> all = P.funcs1; all.insert(all.end(), P.funcs2.begin(), P.funcs2.end());
  std::sort(all.begin(), all.end(), [](const Func& a, const Func& b) { return atoi(a.name.c_str() + 1) < atoi(b.name.c_str() + 1); });
  std::set<std::string> g2; for (auto& f : P.funcs2) g2.insert(f.name);
  bool ch = true;
  while (ch) { ch = false; for (auto& f : all) if (!g2.count(f.name)) { std::set<std::string> c; for (auto& k : f.code) collect_calls(k.second, c); collect_calls(f.ret, c); for (auto& n : c) if (g2.count(n)) { g2.insert(f.name); ch = true; break; } } }
  P.funcs1.clear(); P.funcs2.clear(); for (auto& f : all) (g2.count(f.name) ? P.funcs2 : P.funcs1).push_back(f);
}

// ---------------------------------------------------------------------------------------------
// single-token mutations
inline std::vector<std::string> mutate(const std::vector<std::string>& tk, vh::Rng& r, std::string& what) {
  std::vector<std::string> m = tk; size_t n = m.size(); size_t i = r.below(n);
  static const char* kws[] = {"constants", "variables", "function", "minimize", "constraints", "end", "for", "return", "in", "sum", "max", "min", "sin", "ln", "log", "saw", "integer", "chi", "atan2", "sqr", "pow", "inf", "oo", "pi", "diff", "abs"};
  static const char* ops[] = {"+", "-", "*", "/", "^", "'", "=", "<=", ">=", "<", ">", ":", ";", ",", "(", ")", "[", "]", ".", "#", "@", "{", "}", ":=", "&&"};
  static const char* nums[] = {"0", "1", "2", "3", "7", "70", "300", "0.5", "2e1", "1e", "1.", ".5", "#3ff0000000000000", "#ffffffffffffffff", "#7ff8000000000000", "#g", "99999999999", "00", "2.5"};
  auto isident = [&](const std::string& s) { return !s.empty() && (isalpha((unsigned char)s[0]) || s[0] == '_') && !keywords().count(s); };
  std::vector<std::string> ids; for (auto& s : tk) if (isident(s)) ids.push_back(s);
  switch (r.below(12)) {
    case 0: what = "delete"; m.erase(m.begin() + i); break;
    case 1: what = "duplicate"; m.insert(m.begin() + i, m[i]); break;
    case 2: what = "swap"; if (i + 1 < n) std::swap(m[i], m[i + 1]); else m.erase(m.begin() + i); break;
    case 3: { what = "keyword"; std::vector<size_t> k; for (size_t j = 0; j < n; j++) { std::string low = m[j]; for (auto& c : low) c = tolower(c); if (keywords().count(low)) k.push_back(j); }
              if (k.empty()) { m.erase(m.begin() + i); break; } size_t j = k[r.below(k.size())]; m[j] = r.coin(70) ? kws[r.below(sizeof(kws) / sizeof(kws[0]))] : (m[j] + "x"); break; }
    case 4: { what = "paren"; std::vector<size_t> k; for (size_t j = 0; j < n; j++) if (m[j] == "(" || m[j] == ")" || m[j] == "[" || m[j] == "]") k.push_back(j);
              if (k.empty()) { m.insert(m.begin() + i, "("); break; } size_t j = k[r.below(k.size())]; if (r.coin()) m.erase(m.begin() + j); else m.insert(m.begin() + j, r.coin() ? m[j] : (m[j] == "(" ? ")" : "(")); break; }
    case 5: { what = "identifier"; std::vector<size_t> k; for (size_t j = 0; j < n; j++) if (isident(m[j])) k.push_back(j);
              if (k.empty()) { m.erase(m.begin() + i); break; } size_t j = k[r.below(k.size())]; m[j] = r.coin(60) ? ids[r.below(ids.size())] : (r.coin() ? "undefined_symbol" : m[j] + "_"); break; }
    case 6: { what = "number"; std::vector<size_t> k; for (size_t j = 0; j < n; j++) if (isdigit((unsigned char)m[j][0]) || m[j][0] == '#' || (m[j][0] == '.' && m[j].size() > 1)) k.push_back(j);
              if (k.empty()) { m.insert(m.begin() + i, "1"); break; } size_t j = k[r.below(k.size())]; if (r.coin(25)) m.insert(m.begin() + j, "-"); else m[j] = nums[r.below(sizeof(nums) / sizeof(nums[0]))]; break; }
    case 7: what = "operator"; { std::vector<size_t> k; for (size_t j = 0; j < n; j++) if (!isalnum((unsigned char)m[j][0]) && m[j][0] != '_' && m[j][0] != '#' && m[j][0] != '.') k.push_back(j);
              if (k.empty()) { m.erase(m.begin() + i); break; } size_t j = k[r.below(k.size())]; m[j] = ops[r.below(sizeof(ops) / sizeof(ops[0]))]; break; }
    case 8: what = "insert-operator"; m.insert(m.begin() + i, ops[r.below(sizeof(ops) / sizeof(ops[0]))]); break;
    case 9: what = "insert-keyword"; m.insert(m.begin() + i, kws[r.below(sizeof(kws) / sizeof(kws[0]))]); break;
    case 10: what = "truncate"; m.resize(i); if (m.empty()) m.push_back("variables"); break;
    default: what = "insert-number"; m.insert(m.begin() + i, nums[r.below(sizeof(nums) / sizeof(nums[0]))]); break;
  }
  return m;
}

} // namespace mbx
#endif
