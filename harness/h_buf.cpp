// C17 harness: drives the REAL cell buffers / heap templates of /repo over random and bounded-exhaustive
// operation histories and prints ONE line per history (see lean/Driver/OpsBuf.lean for the token format).
//
//   buf:<label> <kind> <critpr> <beam> <capacity> <lbFirst> <ev_1> ... <ev_n> => <obs_1> ... <obs_n>
//
// Costs are never computed by the harness: every logged cost is the value returned by the real cost-function object
// at the moment the buffer evaluates it (push, or re-evaluation on sort).  Destroyed cells are observed through the
// destructor of a tracer attached to every cell (a Bxp property / the synthetic element's destructor).
// Histories with NaN costs are not generated (a candidate cell whose cost is NaN is discarded before the push,
// a contraction value that would make a re-evaluated cost NaN is not used).
//
// Access to a few non-public members (DoubleHeap::current_heap_id, SharedHeap::push_elt/pop_elt/erase_node,
// HeapElt constructors, Heap::l of the beam-search sub-buffers) is obtained by re-defining the access keywords
// while including the ibex headers (std headers are included before, untouched).
#define NDEBUG 1   // the library is built in Release mode: no assert() in the header templates either
#include <iostream>
#include <sstream>
#include <fstream>
#include <iomanip>
#include <vector>
#include <map>
#include <set>
#include <list>
#include <stack>
#include <deque>
#include <queue>
#include <string>
#include <algorithm>
#include <functional>
#include <memory>
#include <unordered_map>
#include <unordered_set>
#include <typeinfo>
#include <cassert>
#include <cmath>
#include <cstdint>
#include <cstring>
#include <cstdio>
#include <cstdlib>
#include <cfloat>
#include <climits>
#include <limits>
#include <stdexcept>
#include <exception>
#include <utility>
#include <bitset>
#include <complex>
#include <array>
#include <iterator>
#include <numeric>
#include <tuple>
#include <type_traits>
#include <initializer_list>
#include <mutex>
#include <thread>
#include <atomic>
#include <chrono>
#include <random>
#include <regex>
#include <fenv.h>
#define private public
#define protected public
#include "ibex.h"
#undef private
#undef protected
#include "common.h"
using namespace ibex; using namespace vh; using namespace std;

static long emitted = 0;
static bool g_track = false;          // record destructor calls (only while the buffer itself deletes)
static vector<int> g_destroyed;

// ---------------------------------------------------------------------------------------------- trace
struct Trace {
  string label, kind; int critpr = 0, beam = 1, cap = 0; bool lbf = false;
  vector<string> ev, ob;
  void add(const string& e, const string& o) { ev.push_back(e); ob.push_back(o); }
  void emit() {
    printf("buf:%s %s %d %d %d %d", label.c_str(), kind.c_str(), critpr, beam, cap, lbf ? 1 : 0);
    for (auto& e : ev) printf(" %s", e.c_str());
    printf(" =>");
    for (auto& o : ob) printf(" %s", o.c_str());
    printf("\n"); emitted++;
  }
};
static Trace* g_cur = 0;
#include <signal.h>
#include <unistd.h>
// a crash inside the library (corrupted heap ...) is reported as a failing history, not as a harness failure
static void on_crash(int sig) {
  if (g_cur) { g_cur->add("CRASH", to_string(sig)); g_cur->emit(); }
  else printf("buf:outside-a-history heap 0 1 0 0 CRASH => %d\n", sig);   // e.g. in the destructor of the buffer
  fflush(stdout); VH_EXIT(0);
}
static string ids_tok(vector<int> v) {
  sort(v.begin(), v.end());
  if (v.empty()) return "-";
  string s; for (size_t i = 0; i < v.size(); i++) { if (i) s += "+"; s += to_string(v[i]); } return s;
}

// ---------------------------------------------------------------------------------------------- cost palettes
struct Palette {
  vector<double> v;
  double pick(Rng& r) const { if (r.coin(85)) return v[r.below(v.size())]; return moderate(r); }
  static double moderate(Rng& r) {
    switch (r.below(5)) {
      case 0: return (double)r.range(-6, 6);
      case 1: return r.range(-40, 40) / 4.0;
      case 2: return rand_double(r);
      default: return (double)(int64_t)(r.next() % 2001ULL) / 10.0 - 100.0;
    }
  }
  static Palette make(Rng& r) {
    static const int sizes[] = {1, 2, 3, 4, 6, 10, 25, 100, 400, 400};
    Palette p; int k = sizes[r.below(10)];
    for (int i = 0; i < k; i++) {
      int c = r.below(100);
      if (c < 12) p.v.push_back(NEG_INFINITY);
      else if (c < 24) p.v.push_back(POS_INFINITY);
      else if (c < 34) p.v.push_back(0.0);
      else p.v.push_back(moderate(r));
    }
    return p;
  }
};
static Interval itv_from(double a, double b) {
  if (a != a) a = 0; if (b != b) b = 0;
  if (a > b) std::swap(a, b);
  if (a == POS_INFINITY) a = 3;
  if (b == NEG_INFINITY) b = -3;
  if (a > b) std::swap(a, b);
  return Interval(a, b);
}
static Interval itv_pick(Rng& r, const Palette& p) {
  double a = p.pick(r), b = r.coin(20) ? a : p.pick(r);
  return itv_from(a, b);
}

// ---------------------------------------------------------------------------------------------- elements
// synthetic element for the generic templates
struct Elt {
  int id; double a, b;
  Elt(int id, double a, double b) : id(id), a(a), b(b) {}
  ~Elt() { if (g_track) g_destroyed.push_back(id); id = -777; }
};
struct CostE : CostFunc<Elt> {
  int which, mode;   // mode 0: the value, 1: its opposite (changing the mode reverses the order)
  CostE(int which) : which(which), mode(0) {}
  double cost(const Elt& e) const { double v = which == 0 ? e.a : e.b; return mode ? -v : v; }
};

// tracer property: its destructor tells that the cell was destroyed
struct BxpTrace : Bxp {
  static long ID;
  int cid;
  BxpTrace(int cid) : Bxp(ID), cid(cid) {}
  Bxp* copy(const IntervalVector&, const BoxProperties&) const { return new BxpTrace(cid); }
  void update(const BoxEvent&, const BoxProperties&) {}
  ~BxpTrace() { if (g_track) g_destroyed.push_back(cid); cid = -777; }
};
long BxpTrace::ID = 0;

static System* g_sys = 0; static ExtendedSystem* g_ext = 0;
static void build_system() {
  Variable x(2, "x");
  SystemFactory fac; fac.add_var(x); fac.add_goal(x[0]); fac.add_ctr(x[1] <= 0);
  g_sys = new System(fac); g_ext = new ExtendedSystem(*g_sys);
  BxpTrace::ID = next_id();
}
static Cell* new_cell(int id, const Interval& x1, const Interval& goal) {
  IntervalVector b(3); b[0] = Interval((double)id); b[1] = x1; b[2] = goal;
  Cell* c = new Cell(b); c->prop.add(new BxpTrace(id)); return c;
}
static int cell_id(Cell* c) {
  const BxpTrace* t = (const BxpTrace*)c->prop[BxpTrace::ID];
  int a = t ? t->cid : -1; double d = c->box.size() == 3 ? c->box[0].lb() : -2.0;
  if (!(d >= 0 && d < 1e9) || (int)d != a) return -1;
  return a;
}
static const char* crit_name(int k) { static const char* n[] = {"LB", "UB", "C3", "C5", "C7", "PU", "PFlb", "PFub", "MaxPFub"}; return n[k]; }
static CellCostFunc* make_cost(int k) {
  switch (k) {
    case 0: return new CellCostVarLB(*g_ext, g_ext->goal_var());
    case 1: return new CellCostVarUB(*g_ext, g_ext->goal_var());
    case 2: return new CellCostC3(*g_ext);
    case 3: return new CellCostC5(*g_ext);
    case 4: return new CellCostC7(*g_ext, g_ext->goal_var());
    case 5: return new CellCostPU(*g_ext);
    case 6: return new CellCostPFlb(*g_ext);
    case 7: return new CellCostPFub(*g_ext);
    default: return new CellCostMaxPFub(*g_ext);
  }
}

// level-order listing of a SharedHeap with structural checks (complete-tree shape, father / holder links);
// any structural defect appends an invalid id
template<class T, class IdF> static vector<int> shared_tree(SharedHeap<T>* h, IdF idf) {
  vector<int> out;
  if (h->nb_nodes == 0 || !h->root) { if (h->nb_nodes != 0 || h->root) out.push_back(-1); return out; }
  map<unsigned long, int> byidx; vector<pair<HeapNode<T>*, unsigned long> > q;
  q.push_back(make_pair(h->root, 1UL)); bool bad = h->root->father != NULL;
  for (size_t k = 0; k < q.size() && q.size() <= (size_t)h->nb_nodes + 2; k++) {
    HeapNode<T>* n = q[k].first; unsigned long idx = q[k].second;
    if (!n->elt || n->elt->holder[h->heap_id] != n || !n->elt->data) bad = true;
    byidx[idx] = (n->elt && n->elt->data) ? idf(n->elt->data) : -1;
    if (n->left) { if (n->left->father != n) bad = true; q.push_back(make_pair(n->left, 2 * idx)); }
    if (n->right) { if (n->right->father != n) bad = true; q.push_back(make_pair(n->right, 2 * idx + 1)); }
  }
  if (q.size() != h->nb_nodes) bad = true;
  unsigned long expect = 1;
  for (auto& kv : byidx) { if (kv.first != expect++) bad = true; out.push_back(kv.second); }
  if (bad) out.push_back(-1);
  return out;
}

// ---------------------------------------------------------------------------------------------- adapters
template<class E> struct Adapter {
  typedef E Elem;
  Trace t;
  bool f_min = true, f_contract = true, f_sel = false, f_erase = false, f_param = false, f_resort = false;
  virtual ~Adapter() {}
  virtual E* make(int id, Rng& r, const Palette& p) = 0;           // NULL: no admissible element found
  virtual int n_variants() = 0;                                    // exhaustive mode: number of push variants
  virtual E* make_idx(int id, int i, int pal) = 0;
  virtual double loup_idx(int i, int pal) = 0;
  virtual void costs(E* e, double& c1, double& c2, double& lb) = 0;
  virtual int id_of(E* e) = 0;
  virtual void push(E* e) = 0;
  virtual E* pop(int sel, int& which) = 0;
  virtual E* top(int sel, int& which) = 0;
  virtual double minimum(int crit) { return 0; }
  virtual bool contract_ok(double loup, map<int, E*>& live) { return loup == loup; }
  virtual void contract(double loup) {}
  virtual int recost_after_contract() { return -1; }
  // value the criterion must have after a re-evaluation (default: what the buffer's own cost function returns now)
  virtual double recost_value(E* e, int crit) { double c1, c2, lb; costs(e, c1, c2, lb); return crit ? c2 : c1; }
  virtual void flush() = 0;
  virtual unsigned size() = 0;
  virtual bool empty() = 0;
  virtual void change_param(Rng& r, const Palette& p) {}
  virtual int resort(Rng& r) { return -1; }
  virtual void erase(E* e) {}
  virtual bool beam_future() { return false; }
  virtual vector<int> beam_current() { return vector<int>(); }
  virtual bool heaps(vector<int>& h1, vector<int>& h2) { return false; }   // double heap: content of each internal heap
  virtual bool tree(int crit, vector<int>& order) { return false; }         // internal binary heap in array order
  virtual void destroy(E* e) { delete e; }
};

static const double EX_PAL[2][3] = {{1.0, 2.0, 3.0}, {NEG_INFINITY, 0.0, POS_INFINITY}};

// ---- cells
struct CellAdapter : Adapter<Cell> {
  int id_of(Cell* c) { return cell_id(c); }
  virtual void prepare(Cell* c, Rng* r, const Palette* p) {}
  Cell* make(int id, Rng& r, const Palette& p) {
    for (int k = 0; k < 20; k++) {
      Cell* c = new_cell(id, itv_pick(r, p), itv_pick(r, p));
      prepare(c, &r, &p);
      double c1, c2, lb; costs(c, c1, c2, lb);
      if (c1 == c1 && c2 == c2) return c;
      delete c;
    }
    return 0;
  }
  // exhaustive: goal intervals over the three palette values
  int n_variants() { return 4; }
  Cell* make_idx(int id, int i, int pal) {
    const double* v = EX_PAL[pal];
    static const int lo[2][4] = {{0, 1, 0, 2}, {0, 0, 1, 1}}, hi[2][4] = {{2, 1, 0, 2}, {1, 2, 1, 2}};
    Cell* c = new_cell(id, Interval(-1, 1), Interval(v[lo[pal][i]], v[hi[pal][i]]));
    prepare(c, 0, 0);
    double c1, c2, lb; costs(c, c1, c2, lb);
    if (c1 != c1 || c2 != c2) { delete c; return 0; }
    return c;
  }
  double loup_idx(int i, int pal) { return EX_PAL[pal][i]; }
};

struct BufA : CellAdapter {   // CellStack / CellList
  CellBuffer* b;
  BufA(bool stack, int cap) {
    b = stack ? (CellBuffer*)new CellStack() : (CellBuffer*)new CellList();
    if (cap > 0) b->capacity = cap;
    t.label = stack ? "CellStack" : "CellList"; t.kind = stack ? "stack" : "list"; t.cap = cap;
    f_min = f_contract = false;
  }
  ~BufA() { b->flush(); delete b; }
  void costs(Cell* c, double& c1, double& c2, double& lb) { lb = c->box[2].lb(); c1 = c2 = lb; }
  void push(Cell* c) { b->push(c); }
  Cell* pop(int, int& w) { w = 0; return b->pop(); }
  Cell* top(int, int& w) { w = 0; return b->top(); }
  void flush() { b->flush(); }
  unsigned size() { return b->size(); }
  bool empty() { return b->empty(); }
};

struct CellHeapA : CellAdapter {   // CellHeap (criterion LB)
  CellHeap* b;
  CellHeapA() { b = new CellHeap(*g_ext); t.label = "CellHeap"; t.kind = "heap"; t.lbf = true; }
  ~CellHeapA() { delete b; }
  bool tree(int crit, vector<int>& o) { if (crit) return false; for (auto& p : b->l) o.push_back(cell_id(p.first)); return true; }
  void costs(Cell* c, double& c1, double& c2, double& lb) { lb = c->box[2].lb(); c1 = c2 = b->cost().cost(*c); }
  void push(Cell* c) { b->push(c); }
  Cell* pop(int, int& w) { w = 0; return b->pop(); }
  Cell* top(int, int& w) { w = 0; return b->top(); }
  double minimum(int) { return b->minimum(); }
  void contract(double l) { b->contract(l); }
  void flush() { b->flush(); }
  unsigned size() { return b->size(); }
  bool empty() { return b->empty(); }
};

struct HeapCellA : CellAdapter {   // Heap<Cell> with any cell cost function; optimisation data set by hand
  CellCostFunc* cf; Heap<Cell>* b; int k;
  HeapCellA(int k) : k(k) {
    cf = make_cost(k); b = new Heap<Cell>(*cf);
    if (cf->depends_on_loup) cf->set_loup(10.0);
    t.label = string("HeapCell.") + crit_name(k); t.kind = "heap"; t.lbf = (k == 0);
    f_param = cf->depends_on_loup;
  }
  ~HeapCellA() { delete b; delete cf; }
  bool tree(int crit, vector<int>& o) { if (crit) return false; for (auto& p : b->l) o.push_back(cell_id(p.first)); return true; }
  void prepare(Cell* c, Rng* r, const Palette* p) {
    if (k < 2) return;
    BxpOptimData* d = new BxpOptimData(*g_ext);
    if (r) {
      static const double pus[] = {0, 0.25, 0.5, 1, 1, 2};
      d->pu = r->coin(80) ? pus[r->below(6)] : p->pick(*r);
      d->pf = r->coin(50) ? c->box[2] : itv_pick(*r, *p);
    } else { d->pu = 0.5; d->pf = c->box[2]; }
    c->prop.add(d);
  }
  void costs(Cell* c, double& c1, double& c2, double& lb) { lb = c->box[2].lb(); c1 = c2 = cf->cost(*c); }
  void push(Cell* c) { b->push(c); }
  Cell* pop(int, int& w) { w = 0; return b->pop(); }
  Cell* top(int, int& w) { w = 0; return b->top(); }
  double minimum(int) { return b->minimum(); }
  void contract(double l) { b->contract(l); }
  void flush() { b->flush(); }
  unsigned size() { return b->size(); }
  bool empty() { return b->empty(); }
  void change_param(Rng& r, const Palette& p) { double v = p.pick(r); if (v == v && std::fabs(v) != POS_INFINITY) cf->set_loup(v); }
};

// the second criterion written independently of the library's factory and cost classes (documented formulas), from the data of the
// cell: compared with a tolerance (a rearranged formula may round differently), so that a criterion mapped to another one is seen
static long g_costfn_lines = 0;
static double my_cost2(Cell* c, int k, double loup) {
  const BxpOptimData* d = (const BxpOptimData*)c->prop[BxpOptimData::get_id(*g_ext)];
  const Interval& y = c->box[g_ext->goal_var()];
  switch (k) {
    case 0: return y.lb(); case 1: return y.ub();
    case 2: return d ? -((loup - d->pf.lb()) / d->pf.diam()) : NAN;
    case 3: return d ? -(d->pu * (loup - d->pf.lb()) / d->pf.diam()) : NAN;
    case 4: return d ? y.lb() / (d->pu * (loup - d->pf.lb()) / d->pf.diam()) : NAN;
    case 5: return d ? -d->pu : NAN;
    case 6: return d ? d->pf.lb() : NAN;
    case 7: return d ? d->pf.ub() : NAN;
    default: return NAN;
  }
}
static void cross_check_cost(const char* crit, double mine, double lib) {
  bool same = (mine != mine && lib != lib) || mine == lib || (std::fabs(mine - lib) <= 1e-9 * std::max(1.0, std::max(std::fabs(mine), std::fabs(lib))));
  if (!same || g_costfn_lines < 40) { printf("costfn %s %s => %s\n", crit, hex(mine).c_str(), hex(lib).c_str()); g_costfn_lines++; }
}

struct CDHA : CellAdapter {   // CellDoubleHeap
  CellDoubleHeap* b; CellCostFunc* scratch; int k; double cur_loup = 10.0;
  CDHA(int critpr, int k) : k(k) {
    b = new CellDoubleHeap(*g_ext, critpr, (CellCostFunc::criterion)k);
    scratch = CellCostFunc::get_cost(*g_ext, (CellCostFunc::criterion)k, g_ext->goal_var());
    if (b->cost2().depends_on_loup) b->cost2().set_loup(10.0);
    t.label = string("CellDoubleHeap.") + crit_name(k) + "." + to_string(critpr); t.kind = "dheap"; t.critpr = critpr; t.lbf = true;
    f_sel = true; f_param = b->cost2().depends_on_loup;
  }
  ~CDHA() { delete b; delete scratch; }
  bool tree(int crit, vector<int>& o) { o = shared_tree(crit ? b->heap2 : b->heap1, [](Cell* c) { return cell_id(c); }); return true; }
  void prepare(Cell* c, Rng*, const Palette*) { b->add_property(c->box, c->prop); b->cost2().set_optim_data(*c); }
  void costs(Cell* c, double& c1, double& c2, double& lb) { lb = c->box[2].lb(); c1 = b->cost1().cost(*c); c2 = b->cost2().cost(*c); if (k <= 7) cross_check_cost(crit_name(k), my_cost2(c, k, cur_loup), c2); }
  void push(Cell* c) { b->push(c); }
  Cell* pop(int sel, int& w) {
    if (sel == 1) { w = 0; return b->pop1(); } if (sel == 2) { w = 1; return b->pop2(); }
    w = b->current_heap_id; return b->pop();
  }
  Cell* top(int sel, int& w) {
    if (sel == 1) { w = 0; return b->top1(); } if (sel == 2) { w = 1; return b->top2(); }
    w = b->current_heap_id; return b->top();
  }
  double minimum(int crit) { return crit ? b->minimum2() : b->minimum(); }
  bool contract_ok(double loup, map<int, Cell*>& live) {
    if (loup != loup) return false;
    scratch->set_loup(loup);
    for (auto& kv : live) { double c = scratch->cost(*kv.second); if (c != c) return false; }
    return true;
  }
  void contract(double l) { b->contract(l); if (b->cost2().depends_on_loup) cur_loup = l; }
  int recost_after_contract() { return 1; }   // heap2 is built with update_cost_when_sorting = true
  // after contract(loup) the second criterion is the cost w.r.t. the NEW loup: evaluated by an independent
  // cost-function object of the same class (its loup was set in contract_ok)
  double recost_value(Cell* c, int crit) { return crit ? scratch->cost(*c) : b->cost1().cost(*c); }
  void flush() { b->flush(); }
  unsigned size() { return b->size(); }
  bool empty() { return b->empty(); }
  void change_param(Rng& r, const Palette& p) { double v = p.pick(r); if (v == v && std::fabs(v) != POS_INFINITY) { b->cost2().set_loup(v); cur_loup = v; } }
  bool heaps(vector<int>& h1, vector<int>& h2) {
    if (b->heap1->nb_nodes > 0) for (HeapElt<Cell>* e : b->heap1->elt()) h1.push_back(e->data ? cell_id(e->data) : -1);
    if (b->heap2->nb_nodes > 0) for (HeapElt<Cell>* e : b->heap2->elt()) h2.push_back(e->data ? cell_id(e->data) : -1);
    return true;
  }
};

struct BeamA : CellAdapter {   // CellBeamSearch with its two auxiliary heaps
  CellHeap *cur, *fut; CellBeamSearch* b;
  BeamA(int beam) {
    cur = new CellHeap(*g_ext); fut = new CellHeap(*g_ext); b = new CellBeamSearch(*cur, *fut, *g_ext, beam);
    t.label = "CellBeamSearch." + to_string(beam); t.kind = "beam"; t.beam = beam; t.lbf = true;
  }
  ~BeamA() { b->flush(); delete b; delete cur; delete fut; }
  void costs(Cell* c, double& c1, double& c2, double& lb) { lb = c->box[2].lb(); c1 = c2 = b->cost().cost(*c); }
  void push(Cell* c) { b->push(c); }
  Cell* pop(int, int& w) { w = 0; return b->pop(); }
  Cell* top(int, int& w) { w = 0; return b->top(); }
  double minimum(int) { return b->minimum(); }
  void contract(double l) { b->contract(l); }
  void flush() { b->flush(); }
  unsigned size() { return b->size(); }
  bool empty() { return b->empty(); }
  bool beam_future() { return cur->empty() && !fut->empty(); }
  vector<int> beam_current() { vector<int> v; for (auto& p : cur->l) v.push_back(cell_id(p.first)); return v; }
};

// ---- synthetic elements
struct EltAdapter : Adapter<Elt> {
  int id_of(Elt* e) { return e->id; }
  Elt* make(int id, Rng& r, const Palette& p) { double a = p.pick(r); double b = r.coin(25) ? a : p.pick(r); return new Elt(id, a, b); }
  int n_variants() { return 3; }
  Elt* make_idx(int id, int i, int pal) { return new Elt(id, EX_PAL[pal][i], EX_PAL[pal][2 - i]); }
  double loup_idx(int i, int pal) { return EX_PAL[pal][i]; }
};

struct HeapEltA : EltAdapter {   // Heap<T>
  CostE ca; Heap<Elt>* b;
  HeapEltA() : ca(0) { b = new Heap<Elt>(ca); t.label = "Heap<T>"; t.kind = "heap"; f_param = true; }
  ~HeapEltA() { delete b; }
  bool tree(int crit, vector<int>& o) { if (crit) return false; for (auto& p : b->l) o.push_back(p.first->id); return true; }
  void costs(Elt* e, double& c1, double& c2, double& lb) { c1 = c2 = ca.cost(*e); lb = e->a; }
  void push(Elt* e) { b->push(e); }
  Elt* pop(int, int& w) { w = 0; return b->pop(); }
  Elt* top(int, int& w) { w = 0; return b->top(); }
  double minimum(int) { return b->minimum(); }
  void contract(double l) { b->contract(l); }
  void flush() { b->flush(); }
  unsigned size() { return b->size(); }
  bool empty() { return b->empty(); }
  void change_param(Rng& r, const Palette&) { ca.mode = r.below(2); }   // only later pushes see it (costs are stored)
};

struct SharedA : EltAdapter {   // SharedHeap<T> driven directly (one criterion)
  CostE ca; SharedHeap<Elt>* b; bool upd; map<int, HeapElt<Elt>*> he;
  SharedA(bool upd) : ca(0), upd(upd) {
    b = new SharedHeap<Elt>(ca, upd, 0);
    t.label = string("SharedHeap<T>.") + (upd ? "u" : "n"); t.kind = "heap";
    f_contract = false; f_erase = true; f_resort = true; f_param = true;
  }
  ~SharedA() { b->clear(SharedHeap<Elt>::NODE_ELT_DATA); delete b; }
  bool tree(int crit, vector<int>& o) { if (crit) return false; o = shared_tree(b, [](Elt* e) { return e->id; }); return true; }
  void costs(Elt* e, double& c1, double& c2, double& lb) { c1 = c2 = ca.cost(*e); lb = e->a; }
  void push(Elt* e) { HeapElt<Elt>* h = new HeapElt<Elt>(e, b->cost(*e)); he[e->id] = h; b->push_elt(h); }
  Elt* pop(int, int& w) {
    w = 0; HeapElt<Elt>* h = b->pop_elt(); Elt* e = h->data; h->data = NULL;
    if (e) he.erase(e->id); delete h; return e;
  }
  Elt* top(int, int& w) { w = 0; return b->top(); }
  double minimum(int) { return b->minimum(); }
  void flush() { b->clear(SharedHeap<Elt>::NODE_ELT_DATA); he.clear(); }
  unsigned size() { return b->size(); }
  bool empty() { return b->empty(); }
  void erase(Elt* e) { HeapElt<Elt>* h = he[e->id]; he.erase(e->id); b->erase_node(h->holder[0]); h->data = NULL; delete h; }
  void change_param(Rng& r, const Palette&) { ca.mode = r.below(2); }
  int resort(Rng&) { b->sort(); return upd ? 0 : -1; }
};

struct DoubleA : EltAdapter {   // DoubleHeap<T>
  CostE ca, cb; DoubleHeap<Elt>* b; bool u1, u2;
  DoubleA(bool u1, bool u2, int critpr) : ca(0), cb(1), u1(u1), u2(u2) {
    b = new DoubleHeap<Elt>(ca, u1, cb, u2, critpr);
    t.label = string("DoubleHeap<T>.") + (u1 ? "u" : "n") + (u2 ? "u" : "n") + "." + to_string(critpr);
    t.kind = "dheap"; t.critpr = critpr; f_sel = true; f_param = true; f_resort = true;
  }
  ~DoubleA() { b->flush(); delete b; }
  bool tree(int crit, vector<int>& o) { o = shared_tree(crit ? b->heap2 : b->heap1, [](Elt* e) { return e->id; }); return true; }
  void costs(Elt* e, double& c1, double& c2, double& lb) { c1 = ca.cost(*e); c2 = cb.cost(*e); lb = e->a; }
  void push(Elt* e) { b->push(e); }
  Elt* pop(int sel, int& w) {
    if (sel == 1) { w = 0; return b->pop1(); } if (sel == 2) { w = 1; return b->pop2(); }
    w = b->current_heap_id; return b->pop();
  }
  Elt* top(int sel, int& w) {
    if (sel == 1) { w = 0; return b->top1(); } if (sel == 2) { w = 1; return b->top2(); }
    w = b->current_heap_id; return b->top();
  }
  double minimum(int crit) { return crit ? b->minimum2() : b->minimum(); }
  void contract(double l) { b->contract(l); }
  int recost_after_contract() { return u2 ? 1 : -1; }
  void flush() { b->flush(); }
  unsigned size() { return b->size(); }
  bool empty() { return b->empty(); }
  // contract() requires the stored costs of heap 1 to be the ones heap 1 is ordered by: the first cost function is
  // only changed together with a sort of heap 1 (resort); the second one may change at any time
  void change_param(Rng& r, const Palette&) { cb.mode = r.below(2); }
  int resort(Rng& r) {
    if (r.coin()) { if (u1) ca.mode = r.below(2); b->heap1->sort(); return u1 ? 0 : -1; }
    b->heap2->sort(); return u2 ? 1 : -1;
  }
  bool heaps(vector<int>& h1, vector<int>& h2) {
    if (b->heap1->nb_nodes > 0) for (HeapElt<Elt>* e : b->heap1->elt()) h1.push_back(e->data ? e->data->id : -1);
    if (b->heap2->nb_nodes > 0) for (HeapElt<Elt>* e : b->heap2->elt()) h2.push_back(e->data ? e->data->id : -1);
    return true;
  }
};

// ---------------------------------------------------------------------------------------------- the runner
template<class A> struct Runner {
  typedef typename A::Elem E;
  A& a; Trace& t; map<int, E*> live; int nid; bool dead;
  Runner(A& a) : a(a), t(a.t), nid(0), dead(false) { g_cur = &a.t; }
  ~Runner() { g_cur = 0; }

  void own_delete(E* e) { g_track = false; a.destroy(e); }
  string push_tok(E* e, int id) {
    double c1, c2, lb; a.costs(e, c1, c2, lb);
    return "P:" + to_string(id) + ":" + hex(c1) + ":" + hex(c2) + ":" + hex(lb);
  }
  void do_push(E* e) {
    if (!e) return;
    int id = nid++;
    string tk = push_tok(e, id);
    bool stored = true;
    try { a.push(e); } catch (CellBufferOverflow&) { stored = false; }
    t.add(tk, stored ? "1" : "0");
    if (stored) live[id] = e; else own_delete(e);
  }
  // identify a cell handed out by the buffer; -1 => not a live cell (reported with an impossible id)
  int identify(E* e) {
    for (auto& kv : live) if (kv.second == e) { int id = a.id_of(e); return id == kv.first ? id : -1; }
    return -1;
  }
  void do_pop(int sel) {
    if (a.empty()) return;
    bool fut = a.beam_future();
    int w = 0; E* e = a.pop(sel, w);
    int id = identify(e);
    string o = to_string(w) + ":" + (id >= 0 ? to_string(id) : string("999999999"));
    if (fut) o += ":" + ids_tok(a.beam_current());
    t.add(sel == 0 ? "O" : sel == 1 ? "O1" : "O2", o);
    if (id < 0) { dead = true; return; }
    live.erase(id); own_delete(e);
  }
  void do_top(int sel) {
    if (a.empty()) return;
    int w = 0; E* e = a.top(sel, w);
    int id = identify(e);
    t.add(sel == 0 ? "T" : sel == 1 ? "T1" : "T2", to_string(w) + ":" + (id >= 0 ? to_string(id) : string("999999999")));
    if (id < 0) dead = true;
  }
  void do_min(int crit) { if (a.empty() || !a.f_min) return; t.add(crit ? "M2" : "M", hex(a.minimum(crit))); }
  void do_size() { t.add("S", to_string(a.size())); }
  static string raw_ids(vector<int> v) {   // like ids_tok but an invalid id stays visible
    sort(v.begin(), v.end()); if (v.empty()) return "-";
    string s; for (size_t i = 0; i < v.size(); i++) { if (i) s += "+"; s += v[i] < 0 ? string("999999999") : to_string(v[i]); } return s;
  }
  void do_tree(int crit) {
    vector<int> v; if (!a.tree(crit, v)) return;
    string s; for (size_t i = 0; i < v.size(); i++) { if (i) s += "+"; s += v[i] < 0 ? string("999999999") : to_string(v[i]); }
    t.add(crit ? "Y1" : "Y0", v.empty() ? "-" : s);
  }
  void do_heaps() { vector<int> h1, h2; if (a.heaps(h1, h2)) t.add("Q", raw_ids(h1) + "/" + raw_ids(h2)); }
  void do_empty() { t.add("E", a.empty() ? "1" : "0"); }
  void reap(const string& tk) {
    g_track = false;
    vector<int> d = g_destroyed; g_destroyed.clear();
    t.add(tk, ids_tok(d));
    for (int id : d) { if (!live.count(id)) dead = true; live.erase(id); }
  }
  void log_recost(int crit) {
    string s;
    for (auto& kv : live) {
      if (!s.empty()) s += "+";
      s += to_string(kv.first) + "=" + hex(a.recost_value(kv.second, crit));
    }
    t.add(string(crit ? "R1:" : "R0:") + (s.empty() ? "-" : s), "-");
  }
  void do_contract(double loup) {
    if (!a.f_contract || !a.contract_ok(loup, live)) return;
    g_destroyed.clear(); g_track = true;
    a.contract(loup);
    reap("C:" + hex(loup));
    int rc = a.recost_after_contract();
    if (rc >= 0 && !dead && !live.empty()) log_recost(rc);
  }
  void do_flush() { g_destroyed.clear(); g_track = true; a.flush(); reap("F"); }
  void do_erase(Rng& r) {
    if (!a.f_erase || live.empty()) return;
    auto it = live.begin(); std::advance(it, r.below(live.size()));
    int id = it->first; E* e = it->second;
    a.erase(e); t.add("X:" + to_string(id), "-");
    live.erase(id); own_delete(e);
  }
  void do_resort(Rng& r) {
    if (!a.f_resort) return;
    // a re-sort that re-evaluates costs must not meet a NaN: the synthetic cost functions never produce one
    int rc = a.resort(r);
    if (rc >= 0 && !live.empty()) log_recost(rc);
  }
  void observe_all() {
    do_size();
    if (!a.empty()) { do_top(0); if (a.f_min) do_min(0); if (a.f_sel) { do_top(1); do_top(2); do_min(1); } }
    do_heaps(); do_tree(0); if (a.f_sel) do_tree(1);
  }

  void random(Rng& r, int len, const Palette& pal) {
    do_size(); do_empty();
    bool grow = true;
    static const int obs_pcts[] = {0, 15, 50, 100};
    int obs_pct = obs_pcts[r.below(4)];
    for (int k = 0; k < len && !dead; k++) {
      if (k > 0 && r.coin(obs_pct)) {   // observers between two operations
        if (r.coin(60)) do_min(0); if (r.coin(40)) do_top(0);
        if (a.f_sel && r.coin(30)) do_min(1);
        if (r.coin(10)) do_heaps();
        if (r.coin(25)) do_tree(a.f_sel ? (int)r.below(2) : 0);
        if (dead) break;
      }
      if (r.below(30) == 0) grow = !grow;
      int w[12] = { grow ? 50 : 18, grow ? 14 : 42, 8, a.f_min ? 6 : 0, a.f_contract ? 6 : 0, r.below(8) == 0 ? 1 : 0, 3, 2,
                    a.f_param ? 4 : 0, a.f_resort ? 3 : 0, a.f_erase ? 9 : 0, 0 };
      int tot = 0; for (int i = 0; i < 12; i++) tot += w[i];
      int x = r.below(tot), op = 0; while (x >= w[op]) { x -= w[op]; op++; }
      switch (op) {
        case 0: do_push(a.make(nid, r, pal)); break;
        case 1: do_pop(a.f_sel ? (int)r.below(4) % 3 : 0); break;
        case 2: do_top(a.f_sel ? (int)r.below(4) % 3 : 0); break;
        case 3: do_min(a.f_sel ? (int)r.below(3) / 2 : 0); break;
        case 4: { double l = pal.pick(r);
                  if (r.coin(30) && !live.empty()) { // a value taken from a stored cell: boundary of the strict comparison
                    auto it = live.begin(); std::advance(it, r.below(live.size())); double c1, c2, lb; a.costs(it->second, c1, c2, lb); l = c1; }
                  do_contract(l); if (r.coin(40)) do_size(); } break;
        case 5: do_flush(); do_size(); do_empty(); break;
        case 6: do_size(); if (r.coin(30)) do_heaps(); break;
        case 7: do_empty(); break;
        case 8: a.change_param(r, pal); break;
        case 9: do_resort(r); break;
        case 10: do_erase(r); break;
      }
      if (!dead && (op == 1 || op == 4 || op == 9 || op == 10) && r.coin(25)) { do_tree(0); if (a.f_sel) do_tree(1); }
    }
    if (!dead) {
      switch (r.below(5)) {
        case 0: case 2: case 3: while (!dead && !a.empty()) { if (r.coin(20)) do_min(0); if (r.coin(20)) do_top(0); do_pop(a.f_sel ? (int)r.below(3) : 0); } break;
        case 1: do_flush(); break;
        default: break;
      }
      if (!dead) { do_size(); do_empty(); }
    }
    t.emit();
  }

  // one fixed sequence of abstract operations, everything observed after each of them
  // op codes: 0..nv-1 push variant, nv: pop (pop1 for double heaps), nv+1: contract(v0) , nv+2: contract(v1),
  //           then optional extras (pop2 / erase oldest / erase newest / flush)
  void scripted(const vector<int>& ops, int pal, const vector<int>& extras) {
    int nv = a.n_variants(), nc = a.f_contract ? 2 : 1;
    observe_all();
    for (size_t i = 0; i < ops.size() && !dead; i++) {
      int op = ops[i];
      if (op < nv) do_push(a.make_idx(nid, op, pal));
      else if (op == nv) do_pop(a.f_sel ? 1 : 0);
      else if (op <= nv + nc) { if (a.f_contract) do_contract(a.loup_idx(op - nv - 1, pal)); else do_flush(); }
      else {
        int ex = extras[op - nv - nc - 1];
        if (ex == 0) do_pop(2);
        else if (ex == 1) { if (!live.empty()) { auto it = live.begin(); int id = it->first; E* e = it->second; a.erase(e); t.add("X:" + to_string(id), "-"); live.erase(id); own_delete(e); } }
        else if (ex == 2) { if (!live.empty()) { auto it = --live.end(); int id = it->first; E* e = it->second; a.erase(e); t.add("X:" + to_string(id), "-"); live.erase(id); own_delete(e); } }
        else if (ex == 3) do_flush();
        else if (ex == 4) do_pop(0);
      }
      if (!dead) observe_all();
    }
    t.emit();
  }
};

template<class A, class F> static void exhaustive(F mk, int len, int pal, vector<int> extras) {
  int nsym;
  { A* a = mk(); nsym = a->n_variants() + 1 + (a->f_contract ? 2 : 1) + (int)extras.size(); delete a; }
  vector<int> ops(len, 0);
  for (;;) {
    RNG::srand(1);
    A* a = mk(); { Runner<A> run(*a); run.scripted(ops, pal, extras); } g_track = false; delete a;
    int i = len - 1; while (i >= 0 && ++ops[i] == nsym) { ops[i] = 0; i--; }
    if (i < 0) break;
  }
}

template<class A, class F> static void random_traces(F mk, Rng& r, long n, int maxlen) {
  for (long i = 0; i < n; i++) {
    RNG::srand((int)r.below(3000));
    Palette pal = Palette::make(r);
    int len = r.coin(25) ? r.range(1, 30) : r.range(30, maxlen);
    A* a = mk(); { Runner<A> run(*a); run.random(r, len, pal); } g_track = false; delete a;
    check_round_up("buf");
  }
}

int main(int argc, char** argv) {
  string wl = argc > 1 ? argv[1] : "c17";
  uint64_t seed = argc > 2 ? strtoull(argv[2], 0, 10) : 1;
  long n = argc > 3 ? atol(argv[3]) : 10;      // random histories per configuration
  bool full = argc > 4 && string(argv[4]) == "full";
  Rng r(seed * 104729 + 17);
  build_system();
  signal(SIGSEGV, on_crash); signal(SIGABRT, on_crash); signal(SIGBUS, on_crash); signal(SIGFPE, on_crash);
  const int L = 400;
  if (wl == "c17") {           // cell buffers
    for (int cap : {0, 0, 3, 17}) {
      random_traces<BufA>([&] { return new BufA(true, cap); }, r, n, L);
      random_traces<BufA>([&] { return new BufA(false, cap); }, r, n, L);
    }
    random_traces<CellHeapA>([&] { return new CellHeapA(); }, r, 2 * n, L);
    for (int k = 0; k < 9; k++) random_traces<HeapCellA>([&] { return new HeapCellA(k); }, r, n, L);
    for (int k = 0; k < 8; k++) for (int pr : {0, 50, 100}) random_traces<CDHA>([&] { return new CDHA(pr, k); }, r, n, L);
    random_traces<CDHA>([&] { return new CDHA(20, 1); }, r, n, L);
    random_traces<CDHA>([&] { return new CDHA(80, 1); }, r, n, L);
    for (int bs : {1, 2, 3, 5, 12}) random_traces<BeamA>([&] { return new BeamA(bs); }, r, 2 * n, L);
  } else if (wl == "c17tpl") {  // generic templates
    random_traces<HeapEltA>([&] { return new HeapEltA(); }, r, 3 * n, L);
    random_traces<SharedA>([&] { return new SharedA(false); }, r, 3 * n, L);
    random_traces<SharedA>([&] { return new SharedA(true); }, r, 3 * n, L);
    for (int u1 = 0; u1 < 2; u1++) for (int u2 = 0; u2 < 2; u2++) for (int pr : {0, 50, 100})
      random_traces<DoubleA>([&] { return new DoubleA(u1, u2, pr); }, r, 2 * n, L);
  } else if (wl.compare(0, 5, "c17ex") == 0) {
    // bounded-exhaustive: every sequence of exactly `len` operations over 3 cost values, two value sets
    // ({1,2,3} and {-oo,0,+oo}); shorter sequences are covered as prefixes (everything is observed after every operation).
    // c17ex = all classes; c17exT / c17exD / c17exC = templates / double heaps / cell buffers only
    bool T = wl == "c17ex" || wl == "c17exT", D = wl == "c17ex" || wl == "c17exD", C = wl == "c17ex" || wl == "c17exC";
    int len = (int)n; if (len < 1) len = 1; if (len > 7) len = 7;
    for (int pal = 0; pal < 2; pal++) {
      if (T) {
        exhaustive<HeapEltA>([&] { return new HeapEltA(); }, full && pal == 0 ? len + 1 : len, pal, {3});
        exhaustive<SharedA>([&] { return new SharedA(false); }, full && pal == 0 ? len + 1 : len, pal, {1, 2});
      }
      if (D) {
        exhaustive<DoubleA>([&] { return new DoubleA(false, false, 50); }, len, pal, {0, 3});
        exhaustive<DoubleA>([&] { return new DoubleA(false, true, 50); }, len, pal, {0});
        exhaustive<CDHA>([&] { return new CDHA(50, 1); }, len, pal, {0});
        if (full) exhaustive<CDHA>([&] { return new CDHA(100, 2); }, len - 1, pal, {4});
      }
      if (C) {
        exhaustive<CellHeapA>([&] { return new CellHeapA(); }, len, pal, {});
        exhaustive<BeamA>([&] { return new BeamA(2); }, len, pal, {});
        exhaustive<BeamA>([&] { return new BeamA(3); }, len, pal, {});
        if (full) exhaustive<BeamA>([&] { return new BeamA(1); }, len - 1, pal, {});
      }
    }
    if (C) {
      exhaustive<BufA>([&] { return new BufA(true, 2); }, len, 0, {});
      exhaustive<BufA>([&] { return new BufA(false, 2); }, len, 0, {});
    }
  } else { fprintf(stderr, "unknown workload\n"); return 2; }
  fprintf(stderr, "emitted %ld\n", emitted);
  return 0;
}
