#ifndef VERIF_COMB_GEN_H
#define VERIF_COMB_GEN_H
// Shared by h_comb.cpp and h_set.cpp: synthetic exact leaves, tree generators, workloads of C19.
// Workloads for C19: combinator trees over synthetic exact leaves (unions of boxes) and over
// constraint-based leaves.  Usage: h_comb <workload> <seed> <count> [full]
//
// line formats (see lean/Driver/OpsComb.lean):
//   comb <n> <ctc-tree> <leaf defs...> @ <x1> <x2> ... => <out1> <out2> ...       (same object, successive calls)
//   sep  <n> <sep-tree> <leaf defs...> @ <x1> ...      => <in1> <out1> ... pre=<0|1>
//   pdc  <n> <pdc-tree> <leaf defs...> @ <x1> ...      => <Y|N|M|E> ...
//   qint <q> <box>|<box>|...                           => <box>
//   cst  <n> <ctc-tree over constraint leaves> @ <x> <point>|<point>|... => <out>
// leaf defs:  L<i>=<fix><inact>=<boxes>   S<i>=<U boxes>=<V boxes>   P<i>=<U boxes>=<V boxes>
#include "common.h"
#include <memory>
#include <functional>
using namespace ibex; using namespace vh; using namespace std;

static long emitted = 0;
#define EMIT(...) do { printf(__VA_ARGS__); emitted++; } while (0)

// ------------------------------------------------------------------ synthetic leaves
typedef vector<IntervalVector> Boxes;

static IntervalVector ctc_u(const Boxes& U, const IntervalVector& x) {
  IntervalVector res(IntervalVector::empty(x.size()));
  for (size_t k = 0; k < U.size(); k++) res |= (x & U[k]);
  return res;
}

class CtcUnionOfBoxes : public Ctc {
public:
  Boxes U; bool setFix, setInact;
  CtcUnionOfBoxes(int n, const Boxes& U, bool f, bool i) : Ctc(n), U(U), setFix(f), setInact(i) {}
  void contract(IntervalVector& box) { ContractContext c(box); contract(box, c); }
  void contract(IntervalVector& box, ContractContext& ctx) {
    bool inside = false;
    for (size_t k = 0; k < U.size(); k++) if (box.is_subset(U[k])) inside = true;
    box = ctc_u(U, box);
    if (setFix) ctx.output_flags.add(FIXPOINT);
    if (setInact && inside) ctx.output_flags.add(INACTIVE);
  }
};

static bool sep_pre_ok = true;
class SepOfBoxes : public Sep {
public:
  Boxes U, V;
  SepOfBoxes(int n, const Boxes& U, const Boxes& V) : Sep(n), U(U), V(V) {}
  void separate(IntervalVector& x_in, IntervalVector& x_out) {
    if (!(x_in == x_out)) sep_pre_ok = false;
    x_in = ctc_u(V, x_in);
    x_out = ctc_u(U, x_out);
  }
};

class PdcOfBoxes : public Pdc {
public:
  Boxes U, V;
  PdcOfBoxes(int n, const Boxes& U, const Boxes& V) : Pdc(n), U(U), V(V) {}
  BoolInterval test(const IntervalVector& x) {
    bool dv = true, du = true;
    for (size_t k = 0; k < V.size(); k++) if (!x.is_disjoint(V[k])) dv = false;
    for (size_t k = 0; k < U.size(); k++) if (!x.is_disjoint(U[k])) du = false;
    return dv ? YES : (du ? NO : MAYBE);
  }
};


// ------------------------------------------------------------------ n-ary combinators through the fixed-arity constructors
// (same objects as with the Array constructors; `fixed` selects the constructor)
static Ctc* mk_compo(Array<Ctc>& a, bool fixed) {
  if (fixed) switch (a.size()) {
    case 2: return new CtcCompo(a[0], a[1]);
    case 3: return new CtcCompo(a[0], a[1], a[2]);
    case 4: return new CtcCompo(a[0], a[1], a[2], a[3]);
    case 5: return new CtcCompo(a[0], a[1], a[2], a[3], a[4]);
    case 6: return new CtcCompo(a[0], a[1], a[2], a[3], a[4], a[5]);
  }
  return new CtcCompo(a);
}
static Ctc* mk_union(Array<Ctc>& a, bool fixed) {
  if (fixed) switch (a.size()) {
    case 2: return new CtcUnion(a[0], a[1]);
    case 3: return new CtcUnion(a[0], a[1], a[2]);
    case 4: return new CtcUnion(a[0], a[1], a[2], a[3]);
    case 5: return new CtcUnion(a[0], a[1], a[2], a[3], a[4]);
    case 6: return new CtcUnion(a[0], a[1], a[2], a[3], a[4], a[5]);
  }
  return new CtcUnion(a);
}
static Pdc* mk_pand(Array<Pdc>& a, bool fixed) {
  if (fixed) switch (a.size()) {
    case 2: return new PdcAnd(a[0], a[1]);
    case 3: return new PdcAnd(a[0], a[1], a[2]);
    case 4: return new PdcAnd(a[0], a[1], a[2], a[3]);
    case 5: return new PdcAnd(a[0], a[1], a[2], a[3], a[4]);
    case 6: return new PdcAnd(a[0], a[1], a[2], a[3], a[4], a[5]);
  }
  return new PdcAnd(a);
}
static Pdc* mk_por(Array<Pdc>& a, bool fixed) {
  if (fixed) switch (a.size()) {
    case 2: return new PdcOr(a[0], a[1]);
    case 3: return new PdcOr(a[0], a[1], a[2]);
    case 4: return new PdcOr(a[0], a[1], a[2], a[3]);
    case 5: return new PdcOr(a[0], a[1], a[2], a[3], a[4]);
    case 6: return new PdcOr(a[0], a[1], a[2], a[3], a[4], a[5]);
  }
  return new PdcOr(a);
}
static Sep* mk_sinter(Array<Sep>& a, bool fixed) {
  if (fixed) switch (a.size()) {
    case 2: return new SepInter(a[0], a[1]);
    case 3: return new SepInter(a[0], a[1], a[2]);
    case 4: return new SepInter(a[0], a[1], a[2], a[3]);
  }
  return new SepInter(a);
}
static Sep* mk_sunion(Array<Sep>& a, bool fixed) {
  if (fixed) switch (a.size()) {
    case 2: return new SepUnion(a[0], a[1]);
    case 3: return new SepUnion(a[0], a[1], a[2]);
  }
  return new SepUnion(a);
}

// ------------------------------------------------------------------ generators
struct Gen {
  Rng& r; bool general;   // general: arbitrary doubles instead of the half-integer lattice
  int maxdepth;
  vector<string> leafdefs;
  vector<Ctc*> ctcs; vector<Sep*> seps; vector<Pdc*> pdcs; vector<Function*> fns; vector<NumConstraint*> ncs;
  int nL, nS, nP;
  bool thin = false;       // covering pairs (U,V) never overlap on a cell (the undetermined region has no interior)
  bool allow_bnd = false;  // separator trees may contain SepBoundaryCtc leaves
  Gen(Rng& r, bool general, int maxdepth) : r(r), general(general), maxdepth(maxdepth), nL(0), nS(0), nP(0) {}
  ~Gen() {
    // combinators first (they only hold references), leaves last
    for (size_t i = seps.size(); i-- > 0;) delete seps[i];
    for (size_t i = ctcs.size(); i-- > 0;) delete ctcs[i];
    for (size_t i = pdcs.size(); i-- > 0;) delete pdcs[i];
    for (size_t i = fns.size(); i-- > 0;) delete fns[i];
  }
  double coord() {
    if (!general) return r.range(-8, 8) / 2.0;
    switch (r.below(4)) {
      case 0: return r.range(-8, 8) / 2.0;
      case 1: return (double)(int64_t)(r.next() % 2000001ULL) / 100000.0 - 10.0;
      default: { double m = (double)(r.next() >> 11) / 9007199254740992.0; return (m - 0.5) * 16.0; }
    }
  }
  Interval itv(int pct_unb = 6, int pct_deg = 12) {
    double a = coord(), b = coord();
    if (a > b) swap(a, b);
    if (r.coin(pct_deg)) b = a;
    if (r.coin(pct_unb)) { if (r.coin()) a = NEG_INFINITY; else b = POS_INFINITY; if (r.coin(20)) { a = NEG_INFINITY; b = POS_INFINITY; } }
    return Interval(a, b);
  }
  IntervalVector box(int n, int pct_unb = 6, int pct_deg = 12) { IntervalVector v(n); for (int i = 0; i < n; i++) v[i] = itv(pct_unb, pct_deg); return v; }
  // wide interval around a random centre (leaf boxes should meet the input boxes often)
  Interval wide_itv() {
    if (r.coin(25)) return itv();
    double c = coord(), hw = general ? (1 + r.below(500)) / 100.0 : r.range(1, 8) / 2.0;
    double a = c - hw, b = c + hw;
    if (r.coin(8)) a = NEG_INFINITY; if (r.coin(8)) b = POS_INFINITY;
    return Interval(a, b);
  }
  IntervalVector wide_box(int n) { IntervalVector v(n); for (int i = 0; i < n; i++) v[i] = wide_itv(); return v; }
  // a common "core" point per case: most leaves / inputs contain it, so that intersections are often non-empty
  double core[8]; bool core_set = false;
  void set_core() { for (int i = 0; i < 8; i++) core[i] = general ? coord() : r.range(-6, 6) / 2.0; core_set = true; }
  IntervalVector core_box(int n) {
    if (!core_set) set_core();
    IntervalVector v(n);
    for (int i = 0; i < n; i++) {
      double lo = general ? (r.below(400)) / 100.0 : r.range(0, 6) / 2.0, hi = general ? (r.below(400)) / 100.0 : r.range(0, 6) / 2.0;
      v[i] = Interval(core[i] - lo, core[i] + hi);
      if (r.coin(6)) v[i] = Interval(NEG_INFINITY, v[i].ub()); else if (r.coin(6)) v[i] = Interval(v[i].lb(), POS_INFINITY);
    }
    return v;
  }
  Boxes boxes(int n, int lo, int hi) {
    Boxes B; int k = r.range(lo, hi);
    for (int i = 0; i < k; i++) B.push_back((i == 0 && r.coin(70)) ? core_box(n) : wide_box(n));
    return B;
  }
  static string tokB(const Boxes& B) { if (B.empty()) return "-"; string s; for (size_t i = 0; i < B.size(); i++) { if (i) s += "|"; s += tok(B[i]); } return s; }

  // a covering pair (U,V): cells of a random grid labelled in / out / both
  void cover(int n, Boxes& U, Boxes& V) {
    vector<vector<Interval> > ax(n);
    for (int i = 0; i < n; i++) {
      vector<double> cuts; int k = r.range(n >= 3 ? 0 : 1, 2);
      for (int j = 0; j < k; j++) cuts.push_back(coord());
      sort(cuts.begin(), cuts.end()); cuts.erase(unique(cuts.begin(), cuts.end()), cuts.end());
      double prev = NEG_INFINITY;
      for (size_t j = 0; j < cuts.size(); j++) { ax[i].push_back(Interval(prev, cuts[j])); prev = cuts[j]; }
      ax[i].push_back(Interval(prev, POS_INFINITY));
    }
    vector<int> idx(n, 0);
    while (true) {
      IntervalVector c(n); for (int i = 0; i < n; i++) c[i] = ax[i][idx[i]];
      int lab = r.below(thin ? 90 : 100);
      if (lab < 45) U.push_back(c); else if (lab < 90) V.push_back(c); else { U.push_back(c); V.push_back(c); }
      int d = 0; while (d < n && ++idx[d] == (int)ax[d].size()) { idx[d] = 0; d++; }
      if (d == n) break;
    }
  }

  Ctc* keep(Ctc* c) { ctcs.push_back(c); return c; }
  Sep* keep(Sep* s) { seps.push_back(s); return s; }
  Pdc* keep(Pdc* p) { pdcs.push_back(p); return p; }

  Ctc* leafOf(int n, const Boxes& U, string& s) {
    bool f = r.coin(30), ia = r.coin(40);
    int id = nL++;
    leafdefs.push_back("L" + to_string(id) + "=" + (f ? "1" : "0") + (ia ? "1" : "0") + "=" + tokB(U));
    s = "L" + to_string(id);
    return keep(new CtcUnionOfBoxes(n, U, f, ia));
  }
  Ctc* leaf(int n, string& s) { return leafOf(n, boxes(n, r.coin(5) ? 0 : 1, 3), s); }

  static string hexs(double d) { return hex(d); }

  Pdc* pdc(int n, int depth, string& s) {
    if (depth <= 0 || r.coin(25)) {
      Boxes U, V; cover(n, U, V);
      int id = nP++;
      leafdefs.push_back("P" + to_string(id) + "=" + tokB(U) + "=" + tokB(V));
      s = "P" + to_string(id);
      return keep(new PdcOfBoxes(n, U, V));
    }
    int k = r.below(5);
    if (k == 0) { string a; Pdc* p = pdc(n, depth - 1, a); s = "not(" + a + ")"; return keep(new PdcNot(*p)); }
    int m = r.range(2, 3); if (depth <= 1 && r.coin(15)) m = r.range(4, 6);
    Array<Pdc> arr(m); string args;
    for (int i = 0; i < m; i++) { string a; arr.set_ref(i, *pdc(n, depth - 1, a)); if (i) args += ","; args += a; }
    if (k <= 2) { s = "and(" + args + ")"; return keep(mk_pand(arr, r.coin())); }
    s = "or(" + args + ")"; return keep(mk_por(arr, r.coin()));
  }

  double ratio() {
    static const double R[] = {0.0, 0.1, 0.01, 0.5, 0.25, 1e-3, 0.9};
    if (general && r.coin(30)) return (double)(r.next() >> 11) / 9007199254740992.0;
    return R[r.below(7)];
  }

  int force_quant = 0;   // >0: the next node generated is an exists / for-all node
  Ctc* ctc(int n, int depth, string& s, bool allow_quant = true) {
    int k = (depth <= 0) ? r.below(20) : 20 + r.below(80);
    if (force_quant > 0 && n < 3) { force_quant--; k = 85; allow_quant = true; }
    if (k < 14) return leaf(n, s);
    if (k < 16) { BitSet b = BitSet::empty(n); string m; bool any = false;
      for (int i = 0; i < n; i++) { bool t = r.coin(60); if (i == n - 1 && !any) t = true; if (t) { b.add(i); any = true; } m += t ? "1" : "0"; }
      s = "int[" + m + "]"; return keep(new CtcInteger(n, b)); }
    if (k < 18) { s = "id"; return keep(new CtcIdentity(n)); }
    if (k < 19) { s = "empty"; return keep(new CtcEmpty(n)); }
    if (k < 20) { string a; Pdc* p = pdc(n, 1, a); s = "cpdc(" + a + ")"; return keep(new CtcEmpty(*p, false)); }
    if (k < 42 || k >= 92) { // compo
      int m = r.range(2, 3); if (depth <= 1 && r.coin(12)) m = r.range(4, 6);
      Array<Ctc> arr(m); string args;
      for (int i = 0; i < m; i++) { string a; arr.set_ref(i, *ctc(n, depth - 1, a, allow_quant)); if (i) args += ","; args += a; }
      s = "compo(" + args + ")"; return keep(mk_compo(arr, r.coin())); }
    if (k < 60) { // union
      int m = r.range(2, 3); if (depth <= 1 && r.coin(12)) m = r.range(4, 6);
      Array<Ctc> arr(m); string args;
      for (int i = 0; i < m; i++) { string a; arr.set_ref(i, *ctc(n, depth - 1, a, allow_quant)); if (i) args += ","; args += a; }
      s = "union(" + args + ")"; return keep(mk_union(arr, r.coin())); }
    if (k < 70) { string a; Ctc* c = ctc(n, depth - 1, a, allow_quant); double ra = ratio();
      s = "fix[" + hexs(ra) + "](" + a + ")"; return keep(new CtcFixPoint(*c, ra)); }
    if (k < 80) { int m = r.range(2, 4); Array<Ctc> arr(m); string args; int q = r.range(1, m);
      for (int i = 0; i < m; i++) { string a; arr.set_ref(i, *ctc(n, depth - 1, a, allow_quant)); if (i) args += ","; args += a; }
      s = "qinter[" + to_string(q) + "](" + args + ")"; return keep(new CtcQInter(arr, q)); }
    if (!allow_quant || n >= 3) return leaf(n, s);
    { // exist / forall over m parameters
      int m = (n == 1 && r.coin(25)) ? 2 : 1;
      int tot = n + m;
      // positions of the variables
      vector<int> isv(tot, 0); int placed = 0; while (placed < n) { int p = r.below(tot); if (!isv[p]) { isv[p] = 1; placed++; } }
      BitSet vars = BitSet::empty(tot); string mask; for (int i = 0; i < tot; i++) { if (isv[i]) vars.add(i); mask += isv[i] ? "1" : "0"; }
      IntervalVector y(m); double w = 0;
      if (!core_set) set_core();
      bool around_core = r.coin(70); int jp = 0;
      for (int i = 0; i < tot; i++) { if (isv[i]) continue;
        double a = coord(); double len = general ? (1 + r.below(400)) / 100.0 : r.range(1, 8) / 2.0;
        if (around_core) { a = core[i] - (general ? (1 + r.below(150)) / 100.0 : r.range(1, 3) / 2.0); len = core[i] - a + (general ? (1 + r.below(150)) / 100.0 : r.range(1, 3) / 2.0); }
        y[jp] = Interval(a, a + len); if (y[jp].diam() > w) w = y[jp].diam(); jp++; }
      // precision: at most ~16 leaves of the bisection tree per parameter
      static const double P[] = {0.25, 0.5, 1.0, 2.0, 0.3};
      double prec = P[r.below(5)]; while (w / prec > (m == 1 ? 16 : 4)) prec *= 2; while (prec > w) prec /= 2;
      string a; Ctc* c = ctc(tot, depth - 1, a, depth >= 3 && r.coin(30));
      bool ex = r.coin(55);
      s = string(ex ? "exist[" : "forall[") + mask + "/" + tok(y) + "/" + hexs(prec) + "/" + hexs(Bsc::default_ratio()) + "](" + a + ")";
      if (ex) return keep(new CtcExist(*c, vars, y, prec)); else return keep(new CtcForAll(*c, vars, y, prec));
    }
  }

  // a consistent pair (inner contractor, outer contractor) of contractor trees
  void cpair(int n, int depth, Ctc*& cin, Ctc*& cout, string& sin, string& sout) {
    if (depth <= 0 || r.coin(30)) {
      Boxes U, V; cover(n, U, V);
      cout = leafOf(n, U, sout); cin = leafOf(n, V, sin);
      if (r.coin(20)) { double ra = ratio(); cout = keep(new CtcFixPoint(*cout, ra)); sout = "fix[" + hexs(ra) + "](" + sout + ")"; }
      return;
    }
    int m = r.range(2, 3); Array<Ctc> ai(m), ao(m); string si, so;
    for (int i = 0; i < m; i++) { Ctc *ci, *co; string a, b; cpair(n, depth - 1, ci, co, a, b); ai.set_ref(i, *ci); ao.set_ref(i, *co); if (i) { si += ","; so += ","; } si += a; so += b; }
    if (r.coin()) { cout = keep(mk_union(ao, r.coin())); cin = keep(mk_compo(ai, r.coin())); sout = "union(" + so + ")"; sin = "compo(" + si + ")"; }
    else { cout = keep(mk_compo(ao, r.coin())); cin = keep(mk_union(ai, r.coin())); sout = "compo(" + so + ")"; sin = "union(" + si + ")"; }
  }

  // SepBoundaryCtc for the box W: the boundary contractor keeps the faces of W (union of flat boxes), the membership
  // predicate answers YES strictly inside W, NO strictly outside (MAYBE on the faces and, when `thick`, on a few more boxes)
  Sep* bnd(int n, string& s) {
    IntervalVector W = r.coin(60) ? core_box(n) : wide_box(n);
    for (int i = 0; i < n; i++) if (W[i].is_degenerated()) W[i] = Interval(W[i].lb(), W[i].lb() + 1);
    if (r.coin(25)) for (int i = 0; i < n; i++) if (r.coin(60)) { if (r.coin()) W[i] = Interval(NEG_INFINITY, W[i].ub()); else W[i] = Interval(W[i].lb(), POS_INFINITY); }
    Boxes faces, U, V; U.push_back(W);
    for (int i = 0; i < n; i++) {
      if (W[i].lb() != NEG_INFINITY) { IntervalVector f(W); f[i] = Interval(W[i].lb()); faces.push_back(f); IntervalVector h(n); h[i] = Interval(NEG_INFINITY, W[i].lb()); V.push_back(h); }
      if (W[i].ub() != POS_INFINITY) { IntervalVector f(W); f[i] = Interval(W[i].ub()); faces.push_back(f); IntervalVector h(n); h[i] = Interval(W[i].ub(), POS_INFINITY); V.push_back(h); }
    }
    if (!thin && r.coin(30)) { IntervalVector m = core_box(n); V.push_back(m); U.push_back(m); }   // a region where the predicate answers MAYBE
    string a; Ctc* c = leafOf(n, faces, a);
    int id = nP++; leafdefs.push_back("P" + to_string(id) + "=" + tokB(U) + "=" + tokB(V));
    Pdc* p = keep(new PdcOfBoxes(n, U, V));
    s = "bnd[" + tok(W) + "](" + a + ",P" + to_string(id) + ")";
    return keep(new SepBoundaryCtc(*c, *p));
  }

  Sep* sep(int n, int depth, string& s) {
    int k = (depth <= 0) ? r.below(20) : 20 + r.below(80);
    if (allow_bnd && k < 20 && r.coin(22)) return bnd(n, s);
    if (k < 14) { Boxes U, V; cover(n, U, V); int id = nS++;
      leafdefs.push_back("S" + to_string(id) + "=" + tokB(U) + "=" + tokB(V));
      s = "S" + to_string(id); return keep(new SepOfBoxes(n, U, V)); }
    if (k < 20) { Ctc *ci, *co; string a, b; cpair(n, r.below(2), ci, co, a, b); s = "pair(" + a + "," + b + ")"; return keep(new SepCtcPair(*ci, *co)); }
    if (k < 32) { string a; Sep* p = sep(n, depth - 1, a); s = "not(" + a + ")"; return keep(new SepNot(*p)); }
    int m = r.range(2, 3); if (k >= 80) m = r.range(2, 4);
    Array<Sep> arr(m); string args;
    for (int i = 0; i < m; i++) { string a; arr.set_ref(i, *sep(n, depth - 1, a)); if (i) args += ","; args += a; }
    if (k < 56) { s = "inter(" + args + ")"; return keep(mk_sinter(arr, r.coin())); }
    if (k < 80) { s = "union(" + args + ")"; return keep(mk_sunion(arr, r.coin())); }
    int q = r.below(m); s = "qinter[" + to_string(q) + "](" + args + ")"; return keep(new SepQInter(arr, q));
  }

  string defs() { string s; for (size_t i = 0; i < leafdefs.size(); i++) { s += leafdefs[i]; s += " "; } return s; }
};

static IntervalVector input_box(Gen& g, int n) {
  if (g.r.coin(2)) return IntervalVector::empty(n);
  if (g.r.coin(45)) return g.core_box(n);
  if (g.r.coin(35)) { IntervalVector v(n); for (int i = 0; i < n; i++) v[i] = Interval(-4 - g.r.below(2), 4 + g.r.below(2)); return v; }
  return g.box(n, 5, 8);
}

static void run_ctc(Gen& g, int n, Ctc* c, const string& tree, const char* op = "comb") {
  int calls = g.r.range(1, 3);
  string ins, outs;
  for (int k = 0; k < calls; k++) {
    IntervalVector x = input_box(g, n);
    ins += " " + tok(x);
    try { c->contract(x); outs += " " + tok(x); }
    catch (NoBisectableVariableException&) { outs += " EXC"; }
  }
  EMIT("%s %d %s %s@%s =>%s\n", op, n, tree.c_str(), g.defs().c_str(), ins.c_str(), outs.c_str());
  check_round_up("comb");
}

static void wl_comb(Rng& r, long count, bool general, int maxdepth) {
  for (long it = 0; it < count; it++) {
    Gen g(r, general, maxdepth);
    int n = r.range(1, 3);
    int depth = r.range(1, maxdepth);
    string tree; Ctc* c = g.ctc(n, depth, tree);
    run_ctc(g, n, c, tree);
  }
}

// trees rooted at an exists / for-all node, 2-4 successive calls on the same object
static void wl_quant(Rng& r, long count, bool general, int maxdepth) {
  for (long it = 0; it < count; it++) {
    Gen g(r, general, maxdepth);
    int n = r.range(1, 2);
    g.force_quant = 1;
    string tree; Ctc* c = g.ctc(n, r.range(1, maxdepth), tree);
    if (r.coin(30)) { string t2; Ctc* c2 = g.leaf(n, t2); Array<Ctc> arr(2); arr.set_ref(0, *c); arr.set_ref(1, *c2);
      if (r.coin()) { c = g.keep(new CtcUnion(arr)); tree = "union(" + tree + "," + t2 + ")"; } else { c = g.keep(new CtcCompo(arr)); tree = "compo(" + tree + "," + t2 + ")"; } }
    run_ctc(g, n, c, tree);
  }
}

static void wl_sep(Rng& r, long count, bool general, int maxdepth) {
  for (long it = 0; it < count; it++) {
    Gen g(r, general, maxdepth);
    int n = r.range(1, 3);
    string tree; Sep* s = g.sep(n, r.range(0, maxdepth), tree);
    int calls = r.range(1, 3); string ins, outs; sep_pre_ok = true;
    for (int k = 0; k < calls; k++) {
      IntervalVector x = input_box(g, n); ins += " " + tok(x);
      IntervalVector xi(x), xo(x);
      s->separate(xi, xo);
      outs += " " + tok(xi) + " " + tok(xo);
    }
    EMIT("sep %d %s %s@%s =>%s pre=%d\n", n, tree.c_str(), g.defs().c_str(), ins.c_str(), outs.c_str(), sep_pre_ok ? 1 : 0);
  }
}

static const char* bname(BoolInterval b) { return b == YES ? "Y" : b == NO ? "N" : b == MAYBE ? "M" : "E"; }
static void wl_pdc(Rng& r, long count, bool general, int maxdepth) {
  for (long it = 0; it < count; it++) {
    Gen g(r, general, maxdepth);
    int n = r.range(1, 3);
    string tree; Pdc* p = g.pdc(n, r.range(1, maxdepth), tree);
    int calls = r.range(1, 4); string ins, outs;
    for (int k = 0; k < calls; k++) {
      IntervalVector x = r.coin(50) ? g.box(n, 3, 30) : input_box(g, n);
      if (r.coin(40)) for (int i = 0; i < n; i++) if (x[i].is_bisectable() && !x[i].is_unbounded()) x[i] = Interval(x[i].lb(), x[i].lb() + (x[i].diam() > 1 ? 0.5 : 0));
      ins += " " + tok(x); outs += string(" ") + bname(p->test(x));
    }
    EMIT("pdc %d %s %s@%s =>%s\n", n, tree.c_str(), g.defs().c_str(), ins.c_str(), outs.c_str());
  }
}

// direct q-intersection of boxes
static void wl_qint(Rng& r, long count, bool general) {
  for (long it = 0; it < count; it++) {
    Gen g(r, general, 1);
    int n = r.range(1, 3), p = r.range(1, 5), q = r.range(1, p);
    Boxes B; for (int i = 0; i < p; i++) B.push_back(r.coin(4) ? IntervalVector::empty(n) : g.box(n, 8, 15));
    Array<IntervalVector> a(p); for (int i = 0; i < p; i++) a.set_ref(i, B[i]);
    IntervalVector res = qinter(a, q);
    EMIT("qint %d %d %s => %s\n", n, q, Gen::tokB(B).c_str(), tok(res).c_str());
  }
}

// dedicated probes: quantifiers whose parameter box is narrower than the precision, degenerate parameter boxes
static void wl_quantsmall(Rng& r, long count) {
  for (long it = 0; it < count; it++) {
    Gen g(r, false, 1);
    int n = r.range(1, 2), m = 1, tot = n + m;
    BitSet vars = BitSet::empty(tot); string mask; int pp = r.below(tot);
    for (int i = 0; i < tot; i++) { if (i != pp) vars.add(i); mask += (i != pp) ? "1" : "0"; }
    double a = g.coord(); IntervalVector y(1, r.coin(40) ? Interval(a, a) : Interval(a, a + 0.5));
    double prec = r.coin() ? 1.0 : 0.5;
    string sub; Ctc* c = g.ctc(tot, 0, sub, false);
    bool ex = r.coin(60);
    string tree = string(ex ? "exist[" : "forall[") + mask + "/" + tok(y) + "/" + hex(prec) + "/" + hex(Bsc::default_ratio()) + "](" + sub + ")";
    Ctc* q = ex ? (Ctc*)new CtcExist(*c, vars, y, prec) : (Ctc*)new CtcForAll(*c, vars, y, prec);
    g.keep(q);
    run_ctc(g, n, q, tree);
    // the parameter domain `y_init` is a public member that "can be set dynamically": the SAME object is used with a wide
    // domain (several leaves of the bisection tree: a call that empties the box leaves the traversal early), then with
    // another domain, disjoint from the first one, and so on
    if (r.coin(40)) {
      CtcQuantif* cq = ex ? (CtcQuantif*)(CtcExist*)q : (CtcQuantif*)(CtcForAll*)q;
      for (int rep = 0; rep < 4; rep++) {
        double b = g.coord(); IntervalVector y2(1, rep % 2 == 0 ? Interval(b, b + r.range(2, 8) / 2.0) : Interval(b, b + (r.coin() ? 0.0 : 0.5)));
        cq->y_init = y2;
        string tree2 = string(ex ? "exist[" : "forall[") + mask + "/" + tok(y2) + "/" + hex(prec) + "/" + hex(Bsc::default_ratio()) + "](" + sub + ")";
        run_ctc(g, n, q, tree2);
      }
    }
  }
}

// ------------------------------------------------------------------ constraint-based leaves (point sampling)
struct Poly {
  int n; vector<pair<double, vector<int> > > mons;
  string expr() const {
    string e;
    for (size_t k = 0; k < mons.size(); k++) {
      char buf[64]; snprintf(buf, sizeof buf, "%.17g", mons[k].first);
      if (k) e += "+"; e += "(" + string(buf) + ")";
      for (int i = 0; i < n; i++) if (mons[k].second[i] > 0) e += "*x" + to_string(i + 1) + "^" + to_string(mons[k].second[i]);
    }
    return e;
  }
  string tok() const {
    string e;
    for (size_t k = 0; k < mons.size(); k++) {
      if (k) e += "+"; e += hex(mons[k].first) + "*";
      for (int i = 0; i < n; i++) { if (i) e += "."; e += to_string(mons[k].second[i]); }
    }
    return e;
  }
};
static double small_coef(Rng& r) { static const double C[] = {0.25, 0.5, 1, 1, 1, 1.5, 2, 3}; double c = C[r.below(8)]; return r.coin() ? c : -c; }
static Poly rand_poly(Rng& r, int n) {
  Poly p; p.n = n;
  int shape = r.below(6);
  auto mono = [&](double c, vector<int> e) { e.resize(n, 0); p.mons.push_back(make_pair(c, e)); };
  int i = r.below(n), j = (n > 1) ? (i + 1 + r.below(n - 1)) % n : i;
  vector<int> z(n, 0);
  auto unit = [&](int a, int ea, int b = -1, int eb = 0) { vector<int> e(n, 0); e[a] += ea; if (b >= 0) e[b] += eb; return e; };
  switch (shape) {
    case 0: mono(small_coef(r), unit(i, 1)); if (n > 1) mono(small_coef(r), unit(j, 1)); break;             // linear
    case 1: mono(1, unit(i, 1, j, 1)); break;                                                                   // x*y (or x^2)
    case 2: mono(1, unit(i, 2)); if (n > 1) mono(r.coin(70) ? 1 : -1, unit(j, 2)); break;                      // circle / hyperbola
    case 3: mono(1, unit(j, 1)); mono(small_coef(r), unit(i, 2)); break;                                       // parabola
    case 4: mono(1, unit(i, 3)); if (n > 1) mono(-1, unit(j, 1)); break;                                       // cubic
    default: for (int k = 0; k < n; k++) if (r.coin(70)) mono(small_coef(r), unit(k, 1 + (int)r.below(2)));    // mixed
  }
  if (p.mons.empty()) mono(1, unit(i, 1));
  mono(r.coin(25) ? 0.0 : (r.coin() ? 1 : -1) * (r.range(0, 8) / 2.0), z);                                     // constant
  return p;
}
static Function* make_fn(const Poly& p) {
  string e = p.expr();
  switch (p.n) {
    case 1: return new Function("x1", e.c_str());
    case 2: return new Function("x1", "x2", e.c_str());
    case 3: return new Function("x1", "x2", "x3", e.c_str());
    default: return new Function("x1", "x2", "x3", "x4", e.c_str());
  }
}
static Function* make_vfn(const Poly& a, const Poly& b) {
  string e = "(" + a.expr() + ";" + b.expr() + ")";
  switch (a.n) {
    case 1: return new Function("x1", e.c_str());
    case 2: return new Function("x1", "x2", e.c_str());
    case 3: return new Function("x1", "x2", "x3", e.c_str());
    default: return new Function("x1", "x2", "x3", "x4", e.c_str());
  }
}
// three-valued membership predicate from two one-sided predicates: YES when `in` proves it, NO when `out` proves the contrary
class PdcSide : public Pdc {
public:
  Pdc &in, &out;
  PdcSide(Pdc& in, Pdc& out) : Pdc(in.nb_var), in(in), out(out) {}
  BoolInterval test(const IntervalVector& x) { if (in.test(x) == YES) return YES; if (out.test(x) == YES) return NO; return MAYBE; }
};
static const char* opname(CmpOp op) { return op == LT ? "lt" : op == LEQ ? "le" : op == EQ ? "eq" : op == GEQ ? "ge" : "gt"; }
static CmpOp rand_op(Rng& r) { int k = r.below(10); return k < 4 ? LEQ : k < 8 ? GEQ : k < 9 ? EQ : (r.coin() ? LT : GT); }

struct CGen {
  Gen& g; Rng& r; int nC;
  CGen(Gen& g) : g(g), r(g.r), nC(0) {}
  int new_poly(int n, Function*& f, string opn) {
    Poly p = rand_poly(r, n); f = make_fn(p); g.fns.push_back(f);
    int id = nC++; g.leafdefs.push_back("C" + to_string(id) + "=" + opn + "=" + p.tok());
    return id;
  }
  Ctc* cleaf(int n, string& s) {
    int k = r.below(10);
    Function* f;
    if (k < 6) { CmpOp op = rand_op(r); int id = new_poly(n, f, opname(op)); s = "C" + to_string(id); return g.keep(new CtcFwdBwd(*f, op)); }
    if (k < 8 && r.coin(35)) {   // vector-valued function: (p_a(x); p_b(x)) not in the box y
      Poly pa = rand_poly(r, n), pb = rand_poly(r, n); f = make_vfn(pa, pb); g.fns.push_back(f);
      int ia = nC++; g.leafdefs.push_back("C" + to_string(ia) + "=le=" + pa.tok());
      int ib = nC++; g.leafdefs.push_back("C" + to_string(ib) + "=le=" + pb.tok());
      IntervalVector y(2); y[0] = g.itv(12, 5); y[1] = g.itv(12, 5);
      s = "notinv[" + to_string(ia) + "." + to_string(ib) + "/" + tok(y) + "]"; return g.keep(new CtcNotIn(*f, y)); }
    if (k < 8) { int id = new_poly(n, f, "le"); Interval y = g.itv(10, 5); s = "notin[" + to_string(id) + "/" + tok(y) + "]"; return g.keep(new CtcNotIn(*f, y)); }
    { int id = new_poly(n, f, "le"); string a; Ctc* c = g.leafOf(1, g.boxes(1, 1, 2), a); s = "inv[" + to_string(id) + "](" + a + ")"; return g.keep(new CtcInverse(*c, *f)); }
  }
  Ctc* ctc(int n, int depth, string& s) {
    int k = depth <= 0 ? 0 : 1 + r.below(10);
    if (k == 0) return cleaf(n, s);
    if (k <= 4) { int m = r.range(2, 3); Array<Ctc> arr(m); string args; for (int i = 0; i < m; i++) { string a; arr.set_ref(i, *ctc(n, depth - 1, a)); if (i) args += ","; args += a; } s = "compo(" + args + ")"; return g.keep(mk_compo(arr, r.coin())); }
    if (k <= 7) { int m = r.range(2, 3); Array<Ctc> arr(m); string args; for (int i = 0; i < m; i++) { string a; arr.set_ref(i, *ctc(n, depth - 1, a)); if (i) args += ","; args += a; } s = "union(" + args + ")"; return g.keep(mk_union(arr, r.coin())); }
    if (k <= 8) { string a; Ctc* c = ctc(n, depth - 1, a); double ra = g.ratio(); s = "fix[" + hex(ra) + "](" + a + ")"; return g.keep(new CtcFixPoint(*c, ra)); }
    { int m = r.range(2, 4); Array<Ctc> arr(m); string args; int q = r.range(1, m); for (int i = 0; i < m; i++) { string a; arr.set_ref(i, *ctc(n, depth - 1, a)); if (i) args += ","; args += a; } s = "qinter[" + to_string(q) + "](" + args + ")"; return g.keep(new CtcQInter(arr, q)); }
  }
  bool allow_bndc = false;
  Sep* sleaf(int n, string& s) {
    Function* f;
    if (allow_bndc && r.coin(20)) {   // SepBoundaryCtc(f=0 contractor, membership predicate built on PdcFwdBwd) for the set f<=0
      int id = new_poly(n, f, "le");
      Ctc* cb = g.keep(new CtcFwdBwd(*f, EQ));
      Pdc* pin = r.coin() ? g.keep(new PdcFwdBwd(*f, LEQ)) : g.keep(new PdcFwdBwd(*f, LT));
      Pdc* pout = r.coin() ? g.keep(new PdcFwdBwd(*f, GEQ)) : g.keep(new PdcFwdBwd(*f, GT));
      Pdc* side = g.keep(new PdcSide(*pin, *pout));
      s = "bndc[" + to_string(id) + "]"; return g.keep(new SepBoundaryCtc(*cb, *side));
    }
    if (r.coin(20)) {
      // SepFwdBwd(System): the set of the points satisfying every constraint of a system - one vector-valued inequality
      // (p_a ; p_b) op 0 or two scalar constraints; described to the model as the intersection of the component sets
      Poly pa = rand_poly(r, n), pb = rand_poly(r, n);
      bool vec = r.coin(60); CmpOp opa = rand_op(r), opb = vec ? opa : rand_op(r);
      int ia = nC++; g.leafdefs.push_back("C" + to_string(ia) + "=" + opname(opa) + "=" + pa.tok());
      int ib = nC++; g.leafdefs.push_back("C" + to_string(ib) + "=" + opname(opb) + "=" + pb.tok());
      Function* fa = make_fn(pa); Function* fb = make_fn(pb); Function* fv = make_vfn(pa, pb); g.fns.push_back(fa); g.fns.push_back(fb); g.fns.push_back(fv);
      Array<const ExprSymbol> sx(n); for (int i = 0; i < n; i++) sx.set_ref(i, ExprSymbol::new_(("x" + to_string(i + 1)).c_str(), Dim::scalar()));
      SystemFactory fac; fac.add_var(sx);
      if (vec) fac.add_ctr(ExprCtr(ExprCopy().copy(fv->args(), sx, fv->expr()), opa));
      else { fac.add_ctr(ExprCtr(ExprCopy().copy(fa->args(), sx, fa->expr()), opa)); fac.add_ctr(ExprCtr(ExprCopy().copy(fb->args(), sx, fb->expr()), opb)); }
      System* sys = new System(fac);   // (kept alive: the separator refers to it)
      s = "inter(SF" + to_string(ia) + ",SF" + to_string(ib) + ")"; return g.keep(new SepFwdBwd(*sys));
    }
    if (r.coin(75)) { CmpOp op = rand_op(r); int id = new_poly(n, f, opname(op)); s = "SF" + to_string(id); return g.keep(new SepFwdBwd(*f, op)); }
    int id = new_poly(n, f, "le"); Boxes U, V; g.cover(1, U, V); int sid = g.nS++;
    g.leafdefs.push_back("S" + to_string(sid) + "=" + Gen::tokB(U) + "=" + Gen::tokB(V));
    Sep* leaf = g.keep(new SepOfBoxes(1, U, V));
    s = "sinv[" + to_string(id) + "](S" + to_string(sid) + ")"; return g.keep(new SepInverse(*leaf, *f));
  }
  Sep* sep(int n, int depth, string& s) {
    int k = depth <= 0 ? 0 : 1 + r.below(10);
    if (k == 0) return sleaf(n, s);
    if (k <= 2) { string a; Sep* p = sep(n, depth - 1, a); s = "not(" + a + ")"; return g.keep(new SepNot(*p)); }
    int m = r.range(2, 3); Array<Sep> arr(m); string args;
    for (int i = 0; i < m; i++) { string a; arr.set_ref(i, *sep(n, depth - 1, a)); if (i) args += ","; args += a; }
    if (k <= 5) { s = "inter(" + args + ")"; return g.keep(mk_sinter(arr, r.coin())); }
    if (k <= 8) { s = "union(" + args + ")"; return g.keep(mk_sunion(arr, r.coin())); }
    int q = r.below(m); s = "qinter[" + to_string(q) + "](" + args + ")"; return g.keep(new SepQInter(arr, q));
  }
};

static double sample_coord(Rng& r, const Interval& I) {
  double lo = I.lb() == NEG_INFINITY ? -8 : I.lb(), hi = I.ub() == POS_INFINITY ? 8 : I.ub();
  if (lo > hi) { lo = hi = (I.lb() == NEG_INFINITY ? I.ub() : I.lb()); }
  switch (r.below(6)) {
    case 0: return lo;
    case 1: return hi;
    case 2: { double m = std::floor((lo + hi) * 2) / 4; return (m >= lo && m <= hi) ? m : lo; }
    case 3: { double q = std::ceil(lo * 4) / 4 + r.below(1 + (uint64_t)std::max(0.0, std::floor((hi - lo) * 4))) / 4.0; return (q >= lo && q <= hi) ? q : lo; }
    default: { double t = (double)(r.next() >> 11) / 9007199254740992.0; double v = lo + t * (hi - lo); return (v >= lo && v <= hi) ? v : lo; }
  }
}
static string tokpt(const Vector& v) { string s; for (int i = 0; i < v.size(); i++) { if (i) s += ";"; s += hex(v[i]); } return s; }

static void wl_cst(Rng& r, long count, int maxdepth) {
  for (long it = 0; it < count; it++) {
    Gen g(r, false, maxdepth); CGen cg(g);
    int n = r.range(1, 3);
    bool ex = n <= 2 && r.coin(20);
    string tree; Ctc* c; IntervalVector y(1); BitSet vars = BitSet::empty(n + 1); string mask;
    if (ex) {
      int pp = r.below(n + 1); for (int i = 0; i <= n; i++) { if (i != pp) vars.add(i); mask += (i != pp) ? "1" : "0"; }
      double a = g.coord(); y[0] = Interval(a, a + r.range(1, 6) / 2.0);
      double prec = r.coin() ? 0.5 : 0.25;
      string sub; Ctc* inner = cg.ctc(n + 1, r.range(0, maxdepth - 1), sub);
      tree = "exist[" + mask + "/" + tok(y) + "/" + hex(prec) + "/" + hex(Bsc::default_ratio()) + "](" + sub + ")";
      c = g.keep(new CtcExist(*inner, vars, y, prec));
    } else c = cg.ctc(n, r.range(0, maxdepth), tree);
    IntervalVector x = g.r.coin(50) ? g.core_box(n) : input_box(g, n);
    if (x.is_empty()) continue;
    IntervalVector out(x);
    try { c->contract(out); } catch (NoBisectableVariableException&) { EMIT("cst %d %s %s@ %s - => EXC\n", n, tree.c_str(), g.defs().c_str(), tok(x).c_str()); continue; }
    // sample points of x outside the result (full points (x,y) for an exists node)
    string pts; int kept = 0;
    for (int k = 0; k < 60 && kept < 14; k++) {
      Vector p(n); for (int i = 0; i < n; i++) p[i] = sample_coord(r, x[i]);
      if (!out.is_empty() && out.contains(p)) continue;
      Vector full(ex ? n + 1 : n);
      if (ex) { int jx = 0; for (int i = 0; i <= n; i++) full[i] = vars[i] ? p[jx++] : sample_coord(r, y[0]); } else full = p;
      if (kept++) pts += "|"; pts += tokpt(full);
    }
    if (!kept) pts = "-";
    EMIT("cst %d %s %s@ %s %s => %s\n", n, tree.c_str(), g.defs().c_str(), tok(x).c_str(), pts.c_str(), tok(out).c_str());
    check_round_up("cst");
  }
}

static void wl_csep(Rng& r, long count, int maxdepth) {
  for (long it = 0; it < count; it++) {
    Gen g(r, false, maxdepth); CGen cg(g);
    int n = r.range(1, 3);
    string tree; Sep* s = cg.sep(n, r.range(0, maxdepth), tree);
    IntervalVector x = g.r.coin(50) ? g.core_box(n) : input_box(g, n);
    if (x.is_empty()) continue;
    IntervalVector xi(x), xo(x); sep_pre_ok = true;
    s->separate(xi, xo);
    string pts; int kept = 0;
    for (int k = 0; k < 80 && kept < 16; k++) {
      Vector p(n); for (int i = 0; i < n; i++) p[i] = sample_coord(r, x[i]);
      bool inI = !xi.is_empty() && xi.contains(p), inO = !xo.is_empty() && xo.contains(p);
      if (inI && inO) continue;
      if (kept++) pts += "|"; pts += tokpt(p);
    }
    if (!kept) pts = "-";
    EMIT("csep %d %s %s@ %s %s => %s %s pre=%d\n", n, tree.c_str(), g.defs().c_str(), tok(x).c_str(), pts.c_str(), tok(xi).c_str(), tok(xo).c_str(), sep_pre_ok ? 1 : 0);
  }
}

#endif
