// Common helpers for the verification harness (C++ side of the line protocol).
#ifndef VERIF_COMMON_H
#define VERIF_COMMON_H
// exit of a forked child without running the destructors of the parent's objects; in a coverage build (tools/coverage.py)
// the counters are written first
#ifdef VERIF_COVERAGE
extern "C" void __gcov_dump(void);
#define VH_EXIT(c) do { __gcov_dump(); _exit(c); } while (0)
#else
#define VH_EXIT(c) _exit(c)
#endif
#include "ibex.h"
#include <cstdint>
#include <cstring>
#include <cstdio>
#include <cfloat>
#include <cmath>
#include <string>
#include <vector>
#include <sstream>
#include <fenv.h>

namespace vh {
using ibex::Interval;
using ibex::IntervalVector;

struct Rng {
  uint64_t s;
  explicit Rng(uint64_t seed) : s(seed) {}
  uint64_t next() { uint64_t z = (s += 0x9e3779b97f4a7c15ULL); z = (z ^ (z >> 30)) * 0xbf58476d1ce4e5b9ULL; z = (z ^ (z >> 27)) * 0x94d049bb133111ebULL; return z ^ (z >> 31); }
  uint64_t below(uint64_t n) { return n ? next() % n : 0; }
  int range(int lo, int hi) { return lo + (int)below((uint64_t)(hi - lo + 1)); }
  bool coin(int pct = 50) { return (int)below(100) < pct; }
};

inline uint64_t bits(double d) { uint64_t b; std::memcpy(&b, &d, 8); return b; }
inline double frombits(uint64_t b) { double d; std::memcpy(&d, &b, 8); return d; }

inline std::string hex(double d) {
  if (d == 0) d = 0.0; // canonicalise -0
  if (d != d) return "7ff8000000000000";
  char buf[20]; snprintf(buf, sizeof buf, "%016llx", (unsigned long long)bits(d)); return buf;
}
inline std::string tok(const Interval& x) {
  if (x.is_empty()) return "E";
  return hex(x.lb()) + ":" + hex(x.ub());
}
// raw token: shows NaN bounds as they are (to detect NaN bounds on a non-empty result)
inline std::string rawtok(const Interval& x) {
  double l = x.lb(), u = x.ub();
  if (l != l && u != u) return "E";
  if (x.is_empty()) return "E";
  return hex(l) + ":" + hex(u);
}
inline std::string tok(const IntervalVector& v) {
  if (v.is_empty()) return "E";
  std::string s;
  for (int i = 0; i < v.size(); i++) { if (i) s += ";"; s += tok(v[i]); }
  return s;
}
inline std::string tok(bool b) { return b ? "1" : "0"; }

inline const std::vector<double>& lattice() {
  static std::vector<double> L;
  if (L.empty()) {
    const double INF = POS_INFINITY;
    double pi = 3.14159265358979323846;
    double base[] = {0.0, 4.9406564584124654e-324, DBL_MIN, 1e-300, 1e-10, 0.1, 0.25, 0.5, 0.75,
                     1.0, 1.0 + DBL_EPSILON, 1.0 - DBL_EPSILON / 2, 1.5, 2.0, 2.5, 3.0, 4.0, 7.0, 10.0,
                     pi / 2, std::nextafter(pi / 2, 0), std::nextafter(pi / 2, 4), pi, 2 * pi,
                     1e10, 4503599627370496.0 /*2^52*/, 9007199254740992.0 /*2^53*/, 1e100, 1e300, DBL_MAX};
    for (double b : base) { L.push_back(b); if (b != 0) L.push_back(-b); }
    L.push_back(INF); L.push_back(-INF);
  }
  return L;
}

inline double rand_double(Rng& r) {
  switch (r.below(8)) {
    case 0: return lattice()[r.below(lattice().size())];
    case 1: return (double)r.range(-20, 20);
    case 2: return r.range(-40, 40) / 4.0;
    case 3: { // log-uniform magnitude
      int e = r.range(-60, 60); double m = 1.0 + (double)(r.next() >> 11) / 9007199254740992.0;
      double v = std::ldexp(m, e); return r.coin() ? v : -v; }
    case 4: { int e = r.range(-1070, 1023); double m = 1.0 + (double)(r.next() >> 11) / 9007199254740992.0;
      double v = std::ldexp(m, e); return r.coin() ? v : -v; }
    case 5: { double b = lattice()[r.below(lattice().size())]; int k = r.range(-3, 3);
      for (int i = 0; i < std::abs(k); i++) b = std::nextafter(b, k > 0 ? INFINITY : -INFINITY); return b; }
    default: { double v = (double)(int64_t)(r.next() % 2000001ULL) / 1000.0 - 1000.0; return v; }
  }
}

inline Interval rand_itv(Rng& r, int pct_empty = 3) {
  if ((int)r.below(100) < pct_empty) return Interval::empty_set();
  double a = rand_double(r), b;
  switch (r.below(6)) {
    case 0: b = a; break;                                   // degenerate
    case 1: b = std::nextafter(a, INFINITY); break;          // one ulp wide
    case 2: { double w = std::ldexp(1.0, r.range(-30, 10)); b = a + w; } break;
    default: b = rand_double(r);
  }
  if (a != a || b != b) return Interval::empty_set();
  if (a > b) std::swap(a, b);
  if (a == POS_INFINITY || b == NEG_INFINITY) return Interval::empty_set();
  return Interval(a, b);
}

// all lattice intervals [a,b], a<=b, a != +inf, b != -inf, plus empty
inline std::vector<Interval> lattice_itvs() {
  std::vector<Interval> out; out.push_back(Interval::empty_set());
  const auto& L = lattice();
  for (double a : L) for (double b : L) if (a <= b && a != POS_INFINITY && b != NEG_INFINITY) out.push_back(Interval(a, b));
  return out;
}

inline IntervalVector rand_box(Rng& r, int n, int pct_empty = 3) {
  IntervalVector v(n);
  if ((int)r.below(100) < pct_empty) { v.set_empty(); return v; }
  for (int i = 0; i < n; i++) { do { v[i] = rand_itv(r, 0); } while (v[i].is_empty()); }
  return v;
}

inline void check_round_up(const char* where) {
  if (fegetround() != FE_UPWARD) { printf("roundmode %s => 0\n", where); }
}

} // namespace vh
#endif
