// Workloads for C19 (combinator trees): generators and workloads are in comb_gen.h (shared with h_set.cpp).
#include "comb_gen.h"

int main(int argc, char** argv) {
  string wl = argc > 1 ? argv[1] : "comb";
  uint64_t seed = argc > 2 ? strtoull(argv[2], 0, 10) : 1;
  long n = argc > 3 ? atol(argv[3]) : 100;
  bool full = argc > 4 && string(argv[4]) == "full";
  Rng r(seed * 104729 + 71);
  int depth = full ? 5 : 3;
  if (wl == "comb") wl_comb(r, n, false, depth);
  else if (wl == "combg") wl_comb(r, n, true, depth);
  else if (wl == "sep") wl_sep(r, n, false, full ? 4 : 3);
  else if (wl == "sepg") wl_sep(r, n, true, full ? 4 : 3);
  else if (wl == "pdc") wl_pdc(r, n, false, full ? 4 : 3);
  else if (wl == "qint") wl_qint(r, n, false);
  else if (wl == "qintg") wl_qint(r, n, true);
  else if (wl == "quantsmall") wl_quantsmall(r, n);
  else if (wl == "quant") wl_quant(r, n, false, depth);
  else if (wl == "quantg") wl_quant(r, n, true, depth);
  else if (wl == "cst") wl_cst(r, n, full ? 4 : 3);
  else if (wl == "csep") wl_csep(r, n, full ? 4 : 3);
  else { fprintf(stderr, "unknown workload\n"); return 2; }
  fprintf(stderr, "emitted %ld\n", emitted);
  return 0;
}
