// C03: backward (projection) operators.
//  bwd2 <op> <y> <x1> <x2> => <x1'> <x2'> <flag>      exact decision in the driver (rational operators)
//  bwd1 <op> <y> <x> => <x'> <flag>
//  bwdpow <n> <y> <x> => <x'> <flag>
//  bwdpt <op> <y> <fv> <v> => <x'>                     point rule: fv = MPFR enclosure of op(v); fv subset y  =>  v in x'
//  bwdpt2 <op> <y> <fv> <v1> <v2> => <x1'> <x2'>
#include "common.h"
#include "mpfr_oracle.h"
#include "expr_io.h"
using namespace ibex; using namespace vh; using namespace std;

static long emitted = 0;
#define EMIT(...) do { printf(__VA_ARGS__); emitted++; } while (0)

typedef bool (*bwd2_t)(const Interval&, Interval&, Interval&);
typedef bool (*bwd1_t)(const Interval&, Interval&);
static bool w_add(const Interval& y, Interval& a, Interval& b) { return bwd_add(y, a, b); }
static bool w_sub(const Interval& y, Interval& a, Interval& b) { return bwd_sub(y, a, b); }
static bool w_mul(const Interval& y, Interval& a, Interval& b) { return bwd_mul(y, a, b); }
static bool w_div(const Interval& y, Interval& a, Interval& b) { return bwd_div(y, a, b); }
static bool w_max(const Interval& y, Interval& a, Interval& b) { return bwd_max(y, a, b); }
static bool w_min(const Interval& y, Interval& a, Interval& b) { return bwd_min(y, a, b); }
static Interval f_add(const Interval& a, const Interval& b) { return a + b; }
static Interval f_sub(const Interval& a, const Interval& b) { return a - b; }
static Interval f_mul(const Interval& a, const Interval& b) { return a * b; }
static Interval f_div(const Interval& a, const Interval& b) { return a / b; }
static Interval f_max(const Interval& a, const Interval& b) { return max(a, b); }
static Interval f_min(const Interval& a, const Interval& b) { return min(a, b); }
struct Op2 { const char* name; bwd2_t b; Interval (*f)(const Interval&, const Interval&); };
static Op2 OP2[] = {{"add", w_add, f_add}, {"sub", w_sub, f_sub}, {"mul", w_mul, f_mul}, {"div", w_div, f_div}, {"max", w_max, f_max}, {"min", w_min, f_min}};

static bool w_sqrt(const Interval& y, Interval& x) { return bwd_sqrt(y, x); }
static bool w_abs(const Interval& y, Interval& x) { return bwd_abs(y, x); }
static bool w_sign(const Interval& y, Interval& x) { return bwd_sign(y, x); }
static bool w_floor(const Interval& y, Interval& x) { return bwd_floor(y, x); }
static bool w_ceil(const Interval& y, Interval& x) { return bwd_ceil(y, x); }
static Interval g_sqrt(const Interval& x) { return sqrt(x); }
static Interval g_abs(const Interval& x) { return abs(x); }
static Interval g_sign(const Interval& x) { return sign(x); }
static Interval g_floor(const Interval& x) { return floor(x); }
static Interval g_ceil(const Interval& x) { return ceil(x); }
struct Op1 { const char* name; bwd1_t b; Interval (*f)(const Interval&); };
static Op1 OP1[] = {{"sqrt", w_sqrt, g_sqrt}, {"abs", w_abs, g_abs}, {"sign", w_sign, g_sign}, {"floor", w_floor, g_floor}, {"ceil", w_ceil, g_ceil}};

// transcendental / sampled operators
static bool t_sqr(const Interval& y, Interval& x) { return bwd_sqr(y, x); }
static bool t_exp(const Interval& y, Interval& x) { return bwd_exp(y, x); }
static bool t_log(const Interval& y, Interval& x) { return bwd_log(y, x); }
static bool t_cos(const Interval& y, Interval& x) { return bwd_cos(y, x); }
static bool t_sin(const Interval& y, Interval& x) { return bwd_sin(y, x); }
static bool t_tan(const Interval& y, Interval& x) { return bwd_tan(y, x); }
static bool t_acos(const Interval& y, Interval& x) { return bwd_acos(y, x); }
static bool t_asin(const Interval& y, Interval& x) { return bwd_asin(y, x); }
static bool t_atan(const Interval& y, Interval& x) { return bwd_atan(y, x); }
static bool t_cosh(const Interval& y, Interval& x) { return bwd_cosh(y, x); }
static bool t_sinh(const Interval& y, Interval& x) { return bwd_sinh(y, x); }
static bool t_tanh(const Interval& y, Interval& x) { return bwd_tanh(y, x); }
static bool t_acosh(const Interval& y, Interval& x) { return bwd_acosh(y, x); }
static bool t_asinh(const Interval& y, Interval& x) { return bwd_asinh(y, x); }
static bool t_atanh(const Interval& y, Interval& x) { return bwd_atanh(y, x); }
static Interval h_sqr(const Interval& x) { return sqr(x); }
static Interval h_exp(const Interval& x) { return exp(x); }
static Interval h_log(const Interval& x) { return log(x); }
static Interval h_cos(const Interval& x) { return cos(x); }
static Interval h_sin(const Interval& x) { return sin(x); }
static Interval h_tan(const Interval& x) { return tan(x); }
static Interval h_acos(const Interval& x) { return acos(x); }
static Interval h_asin(const Interval& x) { return asin(x); }
static Interval h_atan(const Interval& x) { return atan(x); }
static Interval h_cosh(const Interval& x) { return cosh(x); }
static Interval h_sinh(const Interval& x) { return sinh(x); }
static Interval h_tanh(const Interval& x) { return tanh(x); }
static Interval h_acosh(const Interval& x) { return acosh(x); }
static Interval h_asinh(const Interval& x) { return asinh(x); }
static Interval h_atanh(const Interval& x) { return atanh(x); }
struct OpT { const char* name; bwd1_t b; Interval (*f)(const Interval&); mpfr_fn1 m; int dom; bool trig; };
static OpT OPT[] = {
  {"sqr", t_sqr, h_sqr, mpfr_sqr, 0, false}, {"exp", t_exp, h_exp, mpfr_exp, 0, false}, {"log", t_log, h_log, mpfr_log, 1, false},
  {"cos", t_cos, h_cos, mpfr_cos, 0, true}, {"sin", t_sin, h_sin, mpfr_sin, 0, true}, {"tan", t_tan, h_tan, mpfr_tan, 0, true},
  {"acos", t_acos, h_acos, mpfr_acos, 3, false}, {"asin", t_asin, h_asin, mpfr_asin, 3, false}, {"atan", t_atan, h_atan, mpfr_atan, 0, false},
  {"cosh", t_cosh, h_cosh, mpfr_cosh, 0, false}, {"sinh", t_sinh, h_sinh, mpfr_sinh, 0, false}, {"tanh", t_tanh, h_tanh, mpfr_tanh, 0, false},
  {"acosh", t_acosh, h_acosh, mpfr_acosh, 4, false}, {"asinh", t_asinh, h_asinh, mpfr_asinh, 0, false}, {"atanh", t_atanh, h_atanh, mpfr_atanh, 5, false},
};
static bool in_dom(int dom, double p) {
  switch (dom) { case 1: return p > 0; case 2: return p >= 0; case 3: return fabs(p) <= 1; case 4: return p >= 1; case 5: return fabs(p) < 1; default: return true; }
}

// a sub-interval of x (never empty when x is not)
static Interval sub_itv(Rng& r, const Interval& x) {
  if (x.is_empty()) return x;
  auto s = samples(r, x, 2);
  if (s.empty()) return x;
  double a = s[r.below(s.size())], b = s[r.below(s.size())]; if (a > b) swap(a, b);
  switch (r.below(4)) { case 0: return Interval(a, a); case 1: return x; default: return Interval(a, b); }
}
// a result interval y that is consistent with parts of the arguments most of the time
static Interval pick_y(Rng& r, const Interval& img) {
  switch (r.below(6)) {
    case 0: return rand_itv(r);
    case 1: return img;
    case 2: return img.is_empty() ? img : Interval(img.lb(), img.lb());
    case 3: return img.is_empty() ? img : Interval(img.ub(), img.ub());
    case 4: return img.is_empty() || img.is_unbounded() ? img : Interval(img.mid(), img.ub());
    default: return img.is_empty() ? rand_itv(r) : (img | rand_itv(r, 0));
  }
}

static void do2(Rng& r, const Op2& op, const Interval& x1, const Interval& x2) {
  Interval img = op.f(sub_itv(r, x1), sub_itv(r, x2));
  Interval y = pick_y(r, img);
  Interval a = x1, b = x2; bool fl = op.b(y, a, b);
  check_round_up(op.name);
  EMIT("bwd2 %s %s %s %s => %s %s %s\n", op.name, tok(y).c_str(), tok(x1).c_str(), tok(x2).c_str(), rawtok(a).c_str(), rawtok(b).c_str(), tok(fl).c_str());
}
static void do1(Rng& r, const Op1& op, const Interval& x) {
  Interval y = pick_y(r, op.f(sub_itv(r, x)));
  Interval a = x; bool fl = op.b(y, a);
  EMIT("bwd1 %s %s %s => %s %s\n", op.name, tok(y).c_str(), tok(x).c_str(), rawtok(a).c_str(), tok(fl).c_str());
}
static void dopow(Rng& r, int n, const Interval& x) {
  Interval y = pick_y(r, pow(sub_itv(r, x), n));
  Interval a = x; bool fl = bwd_pow(y, n, a);
  EMIT("bwdpow %d %s %s => %s %s\n", n, tok(y).c_str(), tok(x).c_str(), rawtok(a).c_str(), tok(fl).c_str());
  // point rule as well (covers negative exponents, which the exact decision does not)
  if (x.is_empty()) return;
  for (double v : samples(r, x, 3)) {
    if (a.contains(v)) continue; if (n < 0 && v == 0) continue;
    mpfr_t xv, rr; mpfr_init2(xv, 53); mpfr_init2(rr, 53); mpfr_set_d(xv, v, MPFR_RNDN);
    mpfr_pow_si(rr, xv, n, MPFR_RNDD); double dn = mpfr_get_d(rr, MPFR_RNDD); bool nan = mpfr_nan_p(rr);
    mpfr_pow_si(rr, xv, n, MPFR_RNDU); double up = mpfr_get_d(rr, MPFR_RNDU); nan = nan || mpfr_nan_p(rr);
    mpfr_clear(xv); mpfr_clear(rr); if (nan) continue;
    EMIT("bwdpt pow%d %s %s:%s %s => %s\n", n, tok(y).c_str(), hex(dn).c_str(), hex(up).c_str(), hex(v).c_str(), rawtok(a).c_str());
  }
}

// ---- saw, root, chi: contraction + the point rule with EXACT images (saw(v) = v - round(v) is exact in binary64 below 2^51)
static void do_saw(Rng& r, const Interval& x0) {
  Interval x = x0;
  // structured arguments: bounds of x sitting exactly on the ends of the admissible windows k + y
  Interval y;
  if (r.coin(60)) {
    double a = r.range(-16, 16) / 32.0, b = r.range(-16, 16) / 32.0; if (a > b) swap(a, b); if (r.coin(20)) b = a;
    y = Interval(a, b);
    double k1 = (double)r.range(-6, 6), k2 = k1 + r.range(0, 4);
    double lo, hi;
    switch (r.below(5)) { case 0: lo = k1 + b; break; case 1: lo = k1 + a; break; case 2: lo = k1 + 0.5; break; case 3: lo = k1 - 0.5; break; default: lo = k1 + r.range(-32, 32) / 64.0; }
    switch (r.below(5)) { case 0: hi = k2 + a; break; case 1: hi = k2 + b; break; case 2: hi = k2 + 0.5; break; case 3: hi = k2 - 0.5; break; default: hi = k2 + r.range(-32, 32) / 64.0; }
    if (lo > hi) swap(lo, hi);
    x = Interval(lo, hi);
    if (r.coin(10)) { double sc = std::ldexp(1.0, (int)r.range(40, 53)); x = Interval(lo + sc, hi + sc); }     // (large magnitudes: integers start to be skipped)
  } else y = pick_y(r, saw(sub_itv(r, x)));
  if (x.is_empty()) return;
  Interval a = x; bool fl = bwd_saw(y, a);
  check_round_up("saw");
  EMIT("bwdsub saw %s %s => %s %s\n", tok(y).c_str(), tok(x).c_str(), rawtok(a).c_str(), tok(fl).c_str());
  if (y.is_empty()) return;
  vector<double> pts = samples(r, x, 3);
  pts.push_back(x.lb()); pts.push_back(x.ub());
  for (int q = 0; q < 4; q++) { double k = std::round(x.lb()) + q; pts.push_back(k + y.lb()); pts.push_back(k + y.ub()); k = std::round(x.ub()) - q; pts.push_back(k + y.lb()); pts.push_back(k + y.ub()); }
  if (!a.is_empty()) { pts.push_back(std::nextafter(a.lb(), -INFINITY)); pts.push_back(std::nextafter(a.ub(), INFINITY)); }
  for (double v : pts) {
    if (!(v == v) || !(fabs(v) < 2251799813685248.0) || !x.contains(v) || a.contains(v)) continue;
    double sv = v - std::round(v);                       // exact
    EMIT("bwdpt saw %s %s:%s %s => %s\n", tok(y).c_str(), hex(sv).c_str(), hex(sv).c_str(), hex(v).c_str(), rawtok(a).c_str());
  }
}
static void do_root(Rng& r, int n, const Interval& x) {
  if (x.is_empty()) return;
  Interval img = root(sub_itv(r, x), n); Interval y = pick_y(r, img);
  Interval a = x; bool fl = bwd_root(y, n, a);
  check_round_up("root");
  EMIT("bwdsub root%d %s %s => %s %s\n", n, tok(y).c_str(), tok(x).c_str(), rawtok(a).c_str(), tok(fl).c_str());
  if (y.is_empty()) return;
  vector<double> pts = samples(r, x, 4);
  if (!a.is_empty()) { pts.push_back(std::nextafter(a.lb(), -INFINITY)); pts.push_back(std::nextafter(a.ub(), INFINITY)); }
  for (double v : pts) {
    if (!(v == v) || fabs(v) > DBL_MAX || !x.contains(v) || a.contains(v)) continue;
    if (n % 2 == 0 && v < 0) continue;
    if (n < 0 && v == 0) continue;
    unsigned long an = (unsigned long)(n < 0 ? -n : n);
    mpfr_t xv, rr; mpfr_init2(xv, 53); mpfr_init2(rr, 200); mpfr_set_d(xv, v, MPFR_RNDN);
    mpfr_rootn_ui(rr, xv, an, MPFR_RNDD); double dn = mpfr_get_d(rr, MPFR_RNDD); bool nan = mpfr_nan_p(rr);
    mpfr_rootn_ui(rr, xv, an, MPFR_RNDU); double up = mpfr_get_d(rr, MPFR_RNDU); nan = nan || mpfr_nan_p(rr);
    if (!nan && n < 0) { // x^(1/n) = 1 / x^(1/|n|): 1/t is decreasing on each side of 0
      if (dn == 0 || up == 0 || (dn < 0) != (up < 0)) nan = true;
      else { mpfr_t a, q; mpfr_init2(a, 200); mpfr_init2(q, 200); mpfr_set_d(a, up, MPFR_RNDN); mpfr_ui_div(q, 1, a, MPFR_RNDD); double lo2 = mpfr_get_d(q, MPFR_RNDD);
             mpfr_set_d(a, dn, MPFR_RNDN); mpfr_ui_div(q, 1, a, MPFR_RNDU); double hi2 = mpfr_get_d(q, MPFR_RNDU); mpfr_clear(a); mpfr_clear(q); dn = lo2; up = hi2; } }
    mpfr_clear(xv); mpfr_clear(rr); if (nan) continue;
    EMIT("bwdpt root%d %s %s:%s %s => %s\n", n, tok(y).c_str(), hex(dn).c_str(), hex(up).c_str(), hex(v).c_str(), rawtok(a).c_str());
  }
}
static void do_chi(Rng& r, const Interval& a0, const Interval& b0, const Interval& c0) {
  if (a0.is_empty() || b0.is_empty() || c0.is_empty()) return;
  Interval f;
  switch (r.below(5)) { case 0: f = sub_itv(r, b0); break; case 1: f = sub_itv(r, c0); break; case 2: f = b0 | c0; break; case 3: f = rand_itv(r); break; default: f = sub_itv(r, b0) | sub_itv(r, c0); }
  Interval a = a0, b = b0, c = c0; bool fl = bwd_chi(f, a, b, c);
  check_round_up("chi");
  EMIT("bwdsub3 chi %s %s %s %s => %s %s %s %s\n", tok(f).c_str(), tok(a0).c_str(), tok(b0).c_str(), tok(c0).c_str(), rawtok(a).c_str(), rawtok(b).c_str(), rawtok(c).c_str(), tok(fl).c_str());
  if (f.is_empty()) return;
  vector<double> pa = samples(r, a0, 3), pb = samples(r, b0, 3), pc = samples(r, c0, 3);
  if (a0.contains(0)) pa.push_back(0.0);
  if (a0.lb() < 0) pa.push_back(std::max(a0.lb(), -DBL_MIN)); if (a0.ub() > 0) pa.push_back(std::min(a0.ub(), DBL_MIN));
  for (double va : pa) for (double vb : pb) for (double vc : pc) {
    if (!(va == va) || !(vb == vb) || !(vc == vc) || fabs(va) > DBL_MAX || fabs(vb) > DBL_MAX || fabs(vc) > DBL_MAX) continue;
    if (!a0.contains(va) || !b0.contains(vb) || !c0.contains(vc)) continue;
    if (a.contains(va) && b.contains(vb) && c.contains(vc)) continue;
    double fv = va <= 0 ? vb : vc;
    EMIT("bwdpt3 chi %s %s:%s %s %s %s => %s %s %s\n", tok(f).c_str(), hex(fv).c_str(), hex(fv).c_str(), hex(va).c_str(), hex(vb).c_str(), hex(vc).c_str(), rawtok(a).c_str(), rawtok(b).c_str(), rawtok(c).c_str());
  }
}

static void doT(Rng& r, const OpT& op, const Interval& x) {
  Interval y = pick_y(r, op.f(sub_itv(r, x)));
  Interval a = x; bool fl = op.b(y, a);
  check_round_up(op.name);
  // contraction + flag (flag false requires emptiness of the sampled consistent set: checked through the points)
  EMIT("bwdsub %s %s %s => %s %s\n", op.name, tok(y).c_str(), tok(x).c_str(), rawtok(a).c_str(), tok(fl).c_str());
  if (x.is_empty() || y.is_empty()) return;
  vector<double> pts = samples(r, x, 4, op.trig);
  if (!a.is_empty()) { // just outside the contracted interval
    pts.push_back(std::nextafter(a.lb(), -INFINITY)); pts.push_back(std::nextafter(a.ub(), INFINITY));
  }
  for (double v : pts) {
    if (!(v == v) || fabs(v) > DBL_MAX || !x.contains(v) || a.contains(v) || !in_dom(op.dom, v)) continue;
    double dn, up; if (!eval1(op.m, v, dn, up)) continue;
    EMIT("bwdpt %s %s %s:%s %s => %s\n", op.name, tok(y).c_str(), hex(dn).c_str(), hex(up).c_str(), hex(v).c_str(), rawtok(a).c_str());
  }
}
static void do_atan2(Rng& r, const Interval& y0, const Interval& x0) {
  Interval th = pick_y(r, atan2(sub_itv(r, y0), sub_itv(r, x0)));
  Interval y = y0, x = x0; bool fl = bwd_atan2(th, y, x);
  EMIT("bwdsub2 atan2 %s %s %s => %s %s %s\n", tok(th).c_str(), tok(y0).c_str(), tok(x0).c_str(), rawtok(y).c_str(), rawtok(x).c_str(), tok(fl).c_str());
  if (y0.is_empty() || x0.is_empty() || th.is_empty()) return;
  for (double p : samples(r, y0, 2)) for (double q : samples(r, x0, 2)) {
    if (p == 0 && q == 0) continue; if (y.contains(p) && x.contains(q)) continue;
    double dn, up; if (!eval2(mpfr_atan2, p == 0 ? 0.0 : p, q == 0 ? 0.0 : q, dn, up)) continue;
    EMIT("bwdpt2 atan2 %s %s:%s %s %s => %s %s\n", tok(th).c_str(), hex(dn).c_str(), hex(up).c_str(), hex(p).c_str(), hex(q).c_str(), rawtok(y).c_str(), rawtok(x).c_str());
  }
}

// ---- vector / matrix backward operators: planted consistent tuples (small dyadic rationals, decided exactly by the driver) ----
//  bwdv <op> <y> <x1> <x2> <p1> <p2> => <x1'> <x2'> <flag>      (matrix tokens r.c.itv/...; planted tokens are degenerate matrices)
static double dy(Rng& r) { return r.range(-12, 12) / 4.0; }
static IntervalMatrix planted_mat(Rng& r, int rows, int cols) { IntervalMatrix m(rows, cols); for (int i = 0; i < rows; i++) for (int j = 0; j < cols; j++) m[i][j] = Interval(dy(r)); return m; }
static IntervalMatrix around(Rng& r, const IntervalMatrix& p) {
  IntervalMatrix m(p.nb_rows(), p.nb_cols());
  for (int i = 0; i < p.nb_rows(); i++) for (int j = 0; j < p.nb_cols(); j++) { double c = p[i][j].lb();
    switch (r.below(6)) { case 0: m[i][j] = Interval(c); break; case 1: m[i][j] = Interval(c - r.range(0, 8) / 4.0, c + r.range(0, 8) / 4.0); break; case 2: m[i][j] = Interval(c, c + r.range(0, 16) / 4.0); break;
      case 3: m[i][j] = Interval(c - r.range(0, 16) / 4.0, c); break; case 4: m[i][j] = r.coin() ? Interval(c, POS_INFINITY) : Interval(NEG_INFINITY, c); break; default: m[i][j] = Interval(c - 0.5, c + 0.5); } }
  return m;
}
static IntervalVector colv(const IntervalMatrix& m) { return m.col(0); }
static IntervalVector rowv(const IntervalMatrix& m) { return m.row(0); }
static IntervalMatrix ascol(const IntervalVector& v) { IntervalMatrix m(v.size(), 1); m.set_col(0, v); return m; }
static IntervalMatrix asrow(const IntervalVector& v) { IntervalMatrix m(1, v.size()); m.set_row(0, v); return m; }
static void do_vec(Rng& r) {
  int kind = r.below(9);
  int n = r.range(1, 6), m = r.range(1, 4), k = r.range(1, 4);
  double ratio = r.coin() ? 0.05 : (r.coin() ? 0.1 : 0.9);
  const char* op = ""; IntervalMatrix P1(1, 1), P2(1, 1), PY(1, 1);
  switch (kind) {
    case 0: op = "vadd"; P1 = planted_mat(r, n, 1); P2 = planted_mat(r, n, 1); PY = P1 + P2; break;
    case 1: op = "vsub"; P1 = planted_mat(r, n, 1); P2 = planted_mat(r, n, 1); PY = P1 - P2; break;
    case 2: op = "smulv"; P1 = planted_mat(r, 1, 1); P2 = planted_mat(r, n, 1); PY = P1[0][0] * P2; break;
    case 3: op = "dot"; P1 = planted_mat(r, 1, n); P2 = planted_mat(r, n, 1); PY = P1 * P2; break;
    case 4: op = "mv"; P1 = planted_mat(r, m, n); P2 = planted_mat(r, n, 1); PY = P1 * P2; break;
    case 5: op = "vm"; P1 = planted_mat(r, 1, n); P2 = planted_mat(r, n, m); PY = P1 * P2; break;
    case 6: op = "mm"; P1 = planted_mat(r, m, n); P2 = planted_mat(r, n, k); PY = P1 * P2; break;
    case 7: op = "madd"; P1 = planted_mat(r, m, n); P2 = planted_mat(r, m, n); PY = P1 + P2; break;
    default: op = "smulm"; P1 = planted_mat(r, 1, 1); P2 = planted_mat(r, m, n); PY = P1[0][0] * P2; break;
  }
  // all planted products are exact (small dyadic numbers): PY is degenerate
  IntervalMatrix Y = around(r, PY), X1 = around(r, P1), X2 = around(r, P2);
  if (r.coin(15)) Y = around(r, planted_mat(r, PY.nb_rows(), PY.nb_cols()));  // probably inconsistent
  IntervalMatrix A = X1, B = X2; bool fl = true;
  if (getenv("VERIF_TRACE")) { fprintf(stderr, "TRACE bwdv %s %s %s %s ratio=%g\n", op, mtok(Y).c_str(), mtok(X1).c_str(), mtok(X2).c_str(), ratio); fflush(stderr); }
  switch (kind) {
    case 0: { IntervalVector a = colv(A), b = colv(B); fl = bwd_add(colv(Y), a, b); A = ascol(a); B = ascol(b); } break;
    case 1: { IntervalVector a = colv(A), b = colv(B); fl = bwd_sub(colv(Y), a, b); A = ascol(a); B = ascol(b); } break;
    case 2: { Interval a = A[0][0]; IntervalVector b = colv(B); fl = bwd_mul(colv(Y), a, b); A[0][0] = a; B = ascol(b); } break;
    case 3: { IntervalVector a = rowv(A), b = colv(B); fl = bwd_mul(Y[0][0], a, b); A = asrow(a); B = ascol(b); } break;
    case 4: { IntervalVector b = colv(B); fl = bwd_mul(colv(Y), A, b, ratio); B = ascol(b); } break;
    case 5: { IntervalVector a = rowv(A); fl = bwd_mul(rowv(Y), a, B, ratio); A = asrow(a); } break;
    case 6: fl = bwd_mul(Y, A, B, ratio); break;
    case 7: fl = bwd_add(Y, A, B); break;
    default: { Interval a = A[0][0]; fl = bwd_mul(Y, a, B); A[0][0] = a; } break;
  }
  check_round_up(op);
  auto mt = [](const IntervalMatrix& q) { return q.is_empty() ? std::string("E") : mtok(q); };
  EMIT("bwdv %s %s %s %s %s %s => %s %s %s\n", op, mtok(Y).c_str(), mtok(X1).c_str(), mtok(X2).c_str(), mtok(P1).c_str(), mtok(P2).c_str(), mt(A).c_str(), mt(B).c_str(), tok(fl).c_str());
}

int main(int argc, char** argv) {
  string wl = argc > 1 ? argv[1] : "c03";
  uint64_t seed = argc > 2 ? strtoull(argv[2], 0, 10) : 1;
  long n = argc > 3 ? atol(argv[3]) : 1000;
  bool full = argc > 4 && string(argv[4]) == "full";
  Rng r(seed * 15485863 + 11);
  auto LI = lattice_itvs();
  if (wl == "c03") {
    for (auto& x1 : LI) for (auto& x2 : LI) if (full ? r.below(LI.size()) < 60 : r.below(LI.size()) < 6) for (auto& op : OP2) do2(r, op, x1, x2);
    for (auto& x : LI) { for (auto& op : OP1) do1(r, op, x); for (int k = -5; k <= 6; k++) if (full || r.coin(30)) dopow(r, k, x); }
    for (long i = 0; i < n; i++) {
      Interval x1 = rand_itv(r), x2 = rand_itv(r);
      // mostly moderate magnitudes so that consistent tuples exist
      if (r.coin(60)) { double c = r.range(-40, 40) / 4.0, d = r.range(-40, 40) / 4.0; x1 = Interval(c, c + r.range(0, 24) / 4.0); x2 = Interval(d, d + r.range(0, 24) / 4.0); }
      for (auto& op : OP2) do2(r, op, x1, x2);
      for (auto& op : OP1) do1(r, op, x1);
      dopow(r, r.range(-5, 7), x1); dopow(r, r.range(1, 4), x2);
      for (int k = 0; k < 4; k++) do_vec(r);
    }
  } else if (wl == "c03t") {
    for (auto& x : LI) for (auto& op : OPT) if (full || r.coin(25)) doT(r, op, x);
    for (auto& x : LI) if (full || r.coin(30)) { do_saw(r, x); do_root(r, r.range(2, 5), x); do_root(r, -(int)r.range(1, 5), x); }
    for (auto& x1 : LI) for (auto& x2 : LI) if (full ? r.below(LI.size()) < 30 : r.below(LI.size()) < 3) do_atan2(r, x1, x2);
    for (long i = 0; i < n; i++) {
      Interval x = rand_itv(r);
      if (r.coin(60)) { double c = r.range(-400, 400) / 32.0; x = Interval(c, c + std::ldexp(1.0, r.range(-20, 4))); }
      for (auto& op : OPT) doT(r, op, x);
      do_saw(r, x); do_saw(r, x); do_root(r, r.range(2, 5), x); { int nn = r.range(-5, 5); if (nn != 0) do_root(r, nn, x); }
      { Interval cb = rand_itv(r), cc = rand_itv(r); if (r.coin(70)) { double c = r.range(-40, 40) / 4.0, d = r.range(-40, 40) / 4.0; cb = Interval(c, c + r.range(0, 16) / 4.0); cc = Interval(d, d + r.range(0, 16) / 4.0); }
        Interval ca = r.coin(60) ? Interval(r.range(-8, 2) / 4.0, r.range(-2, 8) / 4.0) : x; do_chi(r, ca, cb, cc); }
      Interval x2 = rand_itv(r); if (r.coin(60)) { double c = r.range(-40, 40) / 4.0; x2 = Interval(c, c + r.range(0, 16) / 4.0); }
      do_atan2(r, x, x2); do_atan2(r, x2, x);
    }
  } else { fprintf(stderr, "unknown workload\n"); return 2; }
  fprintf(stderr, "emitted %ld\n", emitted);
  return 0;
}
