// C13: derived systems (NormalizedSystem, ExtendedSystem, System copies, merged systems, factory).
//
// A system is printed as 5 tokens:  <args> <box> <goal> <ctrs> <fctrs>
//    args  : name.rows.cols joined by ','                  ('-' when there is none)
//    box   : intervals joined by ';'
//    goal  : DAG token of the goal function                 ('-' when there is no goal)
//    ctrs  : op#dag joined by '|'   (op = lt leq eq geq gt; dag of ctrs[i].f)   ('-' when nb_ctr = 0)
//    fctrs : op.op.op#dag  (ops[0..image_dim) and the DAG of f_ctrs)            ('-' when nb_ctr = 0)
// The "stated" system given to the factory has the same form (expressions dumped before add_ctr / add_goal, fctrs = '-').
//
//   sysrel <kind> <A> [<A2>] => <B>        B is the real derived system of A (kind: fac:<level> copy eqonly ineqonly norm:<eps>:<level> ext:<eps>:<level> merge)
//   syspt  <kind> <A> [<A2>] <point> => <B>   exact satisfaction of B at the point vs. the statement of the property applied to A
//   extbox <goal_var> <box> <ext0> => <ext written> <box read back>      write_ext_box / read_ext_box (extvec: the Vector versions)
//   syserror <kind> <what> => 0            an exception thrown by the library
#include "common.h"
#include "expr_io.h"
#include <typeinfo>
#include <unistd.h>
#include <sys/wait.h>
using namespace ibex; using namespace vh; using namespace std;

static long emitted = 0;
#define EMIT(...) do { printf(__VA_ARGS__); emitted++; } while (0)

static const char* opname(CmpOp op) { switch (op) { case LT: return "lt"; case LEQ: return "leq"; case EQ: return "eq"; case GEQ: return "geq"; default: return "gt"; } }

static string args_tok(const Array<const ExprSymbol>& a) {
  if (a.size() == 0) return "-";
  string s; for (int i = 0; i < a.size(); i++) { if (i) s += ","; s += string(a[i].name) + "." + to_string(a[i].dim.nb_rows()) + "." + to_string(a[i].dim.nb_cols()); }
  return s;
}
static string sys_tok(const System& s) {
  string t = args_tok(s.args) + " " + (s.nb_var > 0 ? tok(s.box) : string("-")) + " ";
  t += s.goal ? dump_fun(*s.goal) : string("-");
  t += " ";
  if (s.nb_ctr == 0) { t += "- -"; return t; }
  for (int i = 0; i < s.nb_ctr; i++) { if (i) t += "|"; t += string(opname(s.ctrs[i].op)) + "#" + dump_fun(s.ctrs[i].f); }
  t += " ";
  int m = s.f_ctrs.image_dim();
  for (int i = 0; i < m; i++) { if (i) t += "."; t += opname(s.ops[i]); }
  t += "#" + dump_fun(s.f_ctrs);
  return t;
}

static double dyadic(Rng& r) { return r.range(-24, 24) / 8.0; }

// ---- a universe of named symbols (shared by the systems that are merged) -----------------------
struct Universe {
  vector<string> names; vector<Dim> dims; vector<Vector> planted; vector<IntervalVector> dom;
};
static Universe make_universe(Rng& r, int k, bool vec) {
  Universe U;
  for (int i = 0; i < k; i++) {
    Dim d = Dim::scalar();
    if (vec) switch (r.below(8)) { case 0: d = Dim::col_vec(r.range(2, 3)); break; case 1: d = Dim::row_vec(2); break; case 2: d = Dim::matrix(2, r.range(2, 3)); break; default: break; }
    U.names.push_back("u" + to_string(i)); U.dims.push_back(d);
    Vector p(d.size()); IntervalVector b(d.size());
    for (int j = 0; j < d.size(); j++) {
      p[j] = dyadic(r);
      double lo = p[j] - r.range(0, 16) / 8.0, hi = p[j] + r.range(0, 16) / 8.0;
      switch (r.below(12)) { case 0: lo = NEG_INFINITY; break; case 1: hi = POS_INFINITY; break; case 2: lo = hi = p[j]; break; case 3: lo = NEG_INFINITY; hi = POS_INFINITY; break; default: break; }
      b[j] = Interval(lo, hi);
    }
    U.planted.push_back(p); U.dom.push_back(b);
  }
  return U;
}

struct Built {
  vector<int> idx;                      // symbols of the universe used, in order
  Array<const ExprSymbol>* x; int nvar; Vector planted; IntervalVector box;
  string stated; System* sys; int level; bool has_goal; double w;   // w: largest weight of an expression of the system
  Built() : x(0), nvar(0), planted(1), box(1), sys(0), level(1), has_goal(false), w(1) {}
};

static const double EPS_LIST[] = {0.0, 1e-3, 1.0, 0.5, 1e-8};

// evaluation of an expression over the symbols x at a point, through a throw-away copy
static Domain eval_at(const Array<const ExprSymbol>& x, const ExprNode& e, const Vector& p) {
  Array<const ExprSymbol> cp(x.size()); for (int i = 0; i < x.size(); i++) cp.set_ref(i, ExprSymbol::new_(x[i].name, x[i].dim));
  Function tmp(cp, ExprCopy().copy(x, cp, e), "t");
  return tmp.eval_domain(IntervalVector(p));
}
static Interval& comp(Domain& d, int i, int j) {
  switch (d.dim.type()) { case Dim::SCALAR: return d.i(); case Dim::ROW_VECTOR: return d.v()[j]; case Dim::COL_VECTOR: return d.v()[i]; default: return d.m()[i][j]; }
}

// crude bound on the number of monomials of an entry of the expanded expression: simplification levels 2 and 3 develop
// polynomials ("can blow up", ibex_SystemFactory.h); heavy expressions are only simplified at levels 0 and 1
static double weight(const ExprNode& e) {
  if (dynamic_cast<const ExprSymbol*>(&e) || dynamic_cast<const ExprConstant*>(&e)) return 1;
  if (const ExprPower* p = dynamic_cast<const ExprPower*>(&e)) return std::pow(weight(p->expr), std::abs(p->expon) + 1);
  if (const ExprSqr* q = dynamic_cast<const ExprSqr*>(&e)) { double w = weight(q->expr); return w * w; }
  if (const ExprIndex* ix = dynamic_cast<const ExprIndex*>(&e)) return weight(ix->expr);
  if (const ExprApply* ap = dynamic_cast<const ExprApply*>(&e)) { double wa = 1; for (int i = 0; i < ap->nb_args; i++) wa = std::max(wa, weight(ap->arg(i))); return weight(ap->func.expr()) * std::pow(wa, 4); }
  if (const ExprNAryOp* v = dynamic_cast<const ExprNAryOp*>(&e)) { double w = 0; for (int i = 0; i < v->nb_args; i++) w += weight(v->arg(i)); return w; }
  if (const ExprUnaryOp* u = dynamic_cast<const ExprUnaryOp*>(&e)) return weight(u->expr);
  if (const ExprBinaryOp* b = dynamic_cast<const ExprBinaryOp*>(&e)) {
    double l = weight(b->left), r2 = weight(b->right);
    if (dynamic_cast<const ExprMul*>(&e)) return l * r2 * (b->left.dim.is_scalar() ? 1 : b->left.dim.nb_cols());
    if (dynamic_cast<const ExprDiv*>(&e)) return l * r2;
    return l + r2;
  }
  return 1;
}

// builds a random system over a subset of the universe; constraints are planted around the point of the universe
static bool build_system(Rng& r, const Universe& U, const vector<int>& idx, bool want_goal, bool satisfiable, Built& B) {
  B.idx = idx; int ns = idx.size();
  B.x = new Array<const ExprSymbol>(ns); B.nvar = 0;
  for (int i = 0; i < ns; i++) { B.x->set_ref(i, ExprSymbol::new_(U.names[idx[i]].c_str(), U.dims[idx[i]])); B.nvar += U.dims[idx[i]].size(); }
  const Array<const ExprSymbol>& x = *B.x;
  B.planted.resize(B.nvar); B.box.resize(B.nvar);
  { int o = 0; for (int i = 0; i < ns; i++) { int sz = U.dims[idx[i]].size(); for (int j = 0; j < sz; j++) { B.planted[o + j] = U.planted[idx[i]][j]; B.box[o + j] = U.dom[idx[i]][j]; } o += sz; } }
  bool thick_sys = r.coin(18);   // thick right-hand sides only in some systems (they are outside the fragment decided symbolically)
  GenCfg cfg; cfg.differentiable = r.coin(80); cfg.allow_div = r.coin(50); cfg.allow_vec = r.coin(65); cfg.allow_apply = r.coin(25); cfg.max_depth = r.range(1, 3);
  ExprGen g(r, cfg);
  for (int i = 0; i < ns; i++) g.syms.push_back(&x[i]);
  if (cfg.allow_apply) { int nf = r.range(1, 2); for (int k = 0; k < nf; k++) {
      GenCfg c2 = cfg; c2.allow_vec = false; c2.allow_apply = false; ExprGen g2(r, c2); int na = r.range(1, 2);
      Array<const ExprSymbol>* a = new Array<const ExprSymbol>(na);
      for (int i = 0; i < na; i++) { const ExprSymbol& s = ExprSymbol::new_(("a" + to_string(k) + "_" + to_string(i)).c_str(), Dim::scalar()); a->set_ref(i, s); g2.syms.push_back(&s); }
      g.funs.push_back(new Function(*a, g2.gen(1, 1, 2), ("aux" + to_string(k)).c_str())); } }
  // all the expressions are generated first (the simplification level of the factory depends on their weight)
  string goal_t = "-", ctrs_t;
  B.has_goal = want_goal;
  const ExprNode* goal_e = NULL;
  if (want_goal) { goal_e = &g.gen(1, 1, cfg.max_depth); goal_t = dump_expr(*goal_e, x); B.w = std::max(B.w, weight(*goal_e)); }
  int m = r.range(0, 4); if (m == 0 && r.coin(70)) m = 1;
  bool ok = true;   // (an abandoned factory is never destroyed unbuilt: ~SystemFactory may abort, see the report)
  vector<const ExprNode*> ces; vector<CmpOp> cops;
  for (int j = 0; j < m && ok; j++) {
    int rows = 1, cols = 1;
    if (cfg.allow_vec) switch (r.below(10)) { case 0: case 1: rows = r.range(2, 3); break; case 2: cols = 2; break; case 3: rows = 2; cols = r.range(2, 3); break; default: break; }
    const ExprNode& e0 = g.gen(rows, cols, cfg.max_depth);
    Domain v = eval_at(x, e0, B.planted);
    if (v.is_empty()) { ok = false; break; }
    CmpOp op = (CmpOp)r.below(5);
    Domain rhs(e0.dim); bool zero = true, bad = false;
    int mode = satisfiable ? r.below(3) : r.below(6);   // 0 tight, 1 margin, 2 eps-off / thick, 3.. violated or off
    for (int i = 0; i < rows && !bad; i++) for (int k = 0; k < cols && !bad; k++) {
      Interval vi = comp(v, i, k);
      if (vi.is_unbounded()) { bad = true; break; }
      double c; Interval K;
      double e = EPS_LIST[r.below(4)];
      switch (op) {
        case LEQ: case LT: c = vi.ub() + (mode == 0 ? 0 : mode == 1 ? r.range(1, 8) / 8.0 : mode == 2 ? e : -r.range(0, 4) / 8.0); if (op == LT && satisfiable && c <= vi.ub()) c = vi.ub() + 0.125; break;
        case GEQ: case GT: c = vi.lb() - (mode == 0 ? 0 : mode == 1 ? r.range(1, 8) / 8.0 : mode == 2 ? e : -r.range(0, 4) / 8.0); if (op == GT && satisfiable && c >= vi.lb()) c = vi.lb() - 0.125; break;
        default: // EQ: exact, off by (about) eps, or far
          c = vi.mid(); if (!vi.is_degenerated()) c = vi.lb();
          if (mode == 2 || (!satisfiable && mode >= 3)) { double d = (mode == 2 || mode == 3) ? e : r.range(1, 4) / 8.0; c = r.coin() ? c + d : c - d; }
      }
      K = Interval(c);
      if ((thick_sys && r.coin(45)) || (op == EQ && satisfiable && !vi.is_degenerated() && r.coin(50))) { // thick right-hand side
        double w1 = r.range(0, 4) / 8.0, w2 = r.range(0, 4) / 8.0;
        K = Interval(c - w1, c + w2) | (op == EQ && satisfiable ? vi : Interval(c));
      }
      comp(rhs, i, k) = K;
      if (!(K.lb() == 0 && K.ub() == 0)) zero = false;
    }
    if (bad) { ok = false; break; }
    const ExprNode& full = (zero && r.coin(80)) ? e0 : (const ExprNode&)(e0 - ExprConstant::new_(rhs));
    if (j) ctrs_t += "|";
    ctrs_t += string(opname(op)) + "#" + dump_expr(full, x);
    ces.push_back(&full); cops.push_back(op); B.w = std::max(B.w, weight(full));
  }
  SystemFactory fac;
  B.level = r.below(4);
  if (B.w > 300 && B.level > 1) B.level = r.below(2);
  if (r.coin(75) || B.level != ExprNode::default_simpl_level) fac.set_simplification_level(B.level); else B.level = ExprNode::default_simpl_level;
  // variables: all at once or one by one
  if (r.coin()) fac.add_var(x, B.box);
  else { int o = 0; for (int i = 0; i < ns; i++) { int sz = x[i].dim.size(); fac.add_var(x[i], B.box.subvector(o, o + sz - 1)); o += sz; } }
  if (goal_e) fac.add_goal(*goal_e);
  for (size_t j = 0; j < ces.size(); j++) fac.add_ctr(ExprCtr(*ces[j], cops[j]));
  if (m == 0) ctrs_t = "-";
  B.stated = args_tok(x) + " " + tok(B.box) + " " + goal_t + " " + ctrs_t + " -";
  B.sys = new System(fac);
  return ok;
}

// sample points around the planted one
static vector<Vector> points(Rng& r, const Vector& planted, int k) {
  vector<Vector> pts; pts.push_back(planted);
  int n = planted.size();
  for (int q = 1; q < k; q++) {
    Vector p = planted;
    int how = r.below(4);
    if (how == 0) { for (int i = 0; i < n; i++) p[i] = dyadic(r); }
    else { int c = r.range(1, 2); for (int t = 0; t < c; t++) { int i = r.below(n);
        switch (r.below(5)) { case 0: p[i] = planted[i] + 0.125; break; case 1: p[i] = planted[i] - 0.125; break; case 2: p[i] = planted[i] + EPS_LIST[r.range(1, 3)]; break;
          case 3: p[i] = planted[i] - EPS_LIST[r.range(1, 3)]; break; default: p[i] = dyadic(r); } } }
    pts.push_back(p);
  }
  return pts;
}

static string kind_eps(const char* k, double eps, int level) { return string(k) + ":" + hex(eps) + ":" + to_string(level); }

static void emit_rel(const string& kind, const string& A, const string& Bt) { EMIT("sysrel %s %s => %s\n", kind.c_str(), A.c_str(), Bt.c_str()); }
static void emit_pts(const string& kind, const string& A, const string& Bt, const vector<Vector>& pts) {
  for (auto& p : pts) EMIT("syspt %s %s %s => %s\n", kind.c_str(), A.c_str(), ptok(p).c_str(), Bt.c_str());
}

// the merged point (planted values by symbol name) of two systems over the same universe
static Vector merged_point(const Universe& U, const Built& B1, const Built& B2, const Vector& p1, const Vector& p2) {
  vector<double> v; for (int i = 0; i < p1.size(); i++) v.push_back(p1[i]);
  int o = 0;
  for (size_t i = 0; i < B2.idx.size(); i++) {
    int sz = U.dims[B2.idx[i]].size(); bool in1 = false;
    for (int a : B1.idx) if (a == B2.idx[i]) in1 = true;
    if (!in1) for (int j = 0; j < sz; j++) v.push_back(p2[o + j]);
    o += sz;
  }
  Vector p(v.size()); for (size_t i = 0; i < v.size(); i++) p[i] = v[i];
  return p;
}

static void ext_box_lines(Rng& r, const ExtendedSystem& es, int n /* variables of the original system */) {
  if (es.nb_var != n + 1) return;   // no goal: nothing to write
  IntervalVector box(n), ext0(n + 1), box2(n);
  for (int i = 0; i < n; i++) { double a = dyadic(r), b = a + r.range(0, 8) / 8.0; box[i] = Interval(a, b); box2[i] = Interval(dyadic(r)); }
  for (int i = 0; i <= n; i++) { double a = dyadic(r); ext0[i] = Interval(a, a + r.range(0, 8) / 8.0); }
  IntervalVector ext = ext0; es.write_ext_box(box, ext); es.read_ext_box(ext, box2);
  EMIT("extbox %d %s %s => %s %s\n", es.goal_var(), tok(box).c_str(), tok(ext0).c_str(), tok(ext).c_str(), tok(box2).c_str());
  Vector x(n), xy0(n + 1), x2(n);
  for (int i = 0; i < n; i++) { x[i] = dyadic(r); x2[i] = dyadic(r); } for (int i = 0; i <= n; i++) xy0[i] = dyadic(r);
  Vector xy = xy0; es.write_ext_vec(x, xy); es.read_ext_vec(xy, x2);
  EMIT("extbox %d %s %s => %s %s\n", es.goal_var(), tok(IntervalVector(x)).c_str(), tok(IntervalVector(xy0)).c_str(), tok(IntervalVector(xy)).c_str(), tok(IntervalVector(x2)).c_str());
}

static void derived(Rng& r, Built& B, int npts) {
  System& sys = *B.sys;
  string A = sys_tok(sys);
  string cur = "fac";
  try {
    emit_rel("fac:" + to_string(B.level), B.stated, A);
    emit_pts("fac:" + to_string(B.level), B.stated, A, points(r, B.planted, npts));
    // ---- normalized systems
    int neps = r.range(1, 2);
    for (int q = 0; q < neps; q++) {
      double eps = EPS_LIST[r.below(5)]; int level = r.below(B.w > 300 ? 2 : 4);
      cur = "norm";
      NormalizedSystem* ns;
      switch (r.below(8)) {
        case 0: ns = new NormalizedSystem(sys); eps = 0; level = ExprNode::default_simpl_level; break;             // default arguments
        case 1: ns = new NormalizedSystem(sys, eps); level = ExprNode::default_simpl_level; break;
        default: ns = new NormalizedSystem(sys, eps, false, level);
      }
      string k = kind_eps("norm", eps, level), t = sys_tok(*ns);
      emit_rel(k, A, t); emit_pts(k, A, t, points(r, B.planted, npts));
      if (r.coin(15)) { // a derived system of a derived system: copy of the normalized system
        cur = "norm-copy"; System c(*ns, System::COPY); string t2 = sys_tok(c); emit_rel("copy", t, t2); emit_pts("copy", t, t2, points(r, B.planted, 2)); }
      delete ns;
    }
    // ---- extended system
    {
      cur = "ext";
      double eps = EPS_LIST[r.below(5)]; int level = r.below(B.w > 300 ? 2 : 4);
      ExtendedSystem* es;
      if (r.coin(15)) { es = new ExtendedSystem(sys); eps = 0; level = ExprNode::default_simpl_level; } else es = new ExtendedSystem(sys, eps, level);
      string k = kind_eps("ext", eps, level), t = sys_tok(*es);
      emit_rel(k, A, t);
      vector<Vector> xs = points(r, B.planted, npts), pts;
      for (auto& x : xs) {
        if (!sys.goal) { pts.push_back(x); continue; }
        Vector p(B.nvar + 1); p.put(0, x);
        Interval gv = sys.goal->eval(IntervalVector(x));
        double y = (gv.is_empty() || gv.is_unbounded()) ? dyadic(r) : gv.mid();
        switch (r.below(6)) { case 0: y += 0.125; break; case 1: y -= EPS_LIST[r.range(1, 3)]; break; case 2: y = dyadic(r); break; default: break; }
        p[B.nvar] = y; pts.push_back(p);
      }
      emit_pts(k, A, t, pts);
      ext_box_lines(r, *es, B.nvar);
      delete es;
    }
    // ---- copies
    { cur = "copy"; System c(sys, System::COPY); string t = sys_tok(c); emit_rel("copy", A, t); emit_pts("copy", A, t, points(r, B.planted, 2)); }
    { cur = "copy-default"; if (r.coin(30)) { System c(sys); string t = sys_tok(c); emit_rel("copy", A, t); } }
    { cur = "eqonly"; System c(sys, System::EQ_ONLY); string t = sys_tok(c); emit_rel("eqonly", A, t); emit_pts("eqonly", A, t, points(r, B.planted, 3)); }
    { cur = "ineqonly"; System c(sys, System::INEQ_ONLY); string t = sys_tok(c); emit_rel("ineqonly", A, t); emit_pts("ineqonly", A, t, points(r, B.planted, 3)); }
  } catch (std::exception& e) { EMIT("syserror %s %s => 0\n", cur.c_str(), typeid(e).name()); }
}

static vector<int> subset(Rng& r, int k, int lo) {
  vector<int> all; for (int i = 0; i < k; i++) all.push_back(i);
  for (int i = k - 1; i > 0; i--) { int j = r.below(i + 1); swap(all[i], all[j]); }   // random order
  int n = r.range(lo, k); all.resize(n); return all;
}

// one iteration (one universe, one or two systems and everything derived from them)
static void iteration(const string& wl, Rng& r, int npts) {
  try {
    Universe U = make_universe(r, r.range(1, 4), r.coin(60));
    int k = U.names.size();
    if (wl == "c13") {
      Built B; bool sat = r.coin(65);
      if (!build_system(r, U, subset(r, k, 1), r.coin(60), sat, B)) return;
      derived(r, B, npts);
    } else {
      // two systems over overlapping subsets of the universe; at most one goal
      Built B1, B2; bool g1 = r.coin(40), g2 = !g1 && r.coin(50);
      if (!build_system(r, U, subset(r, k, 1), g1, r.coin(75), B1)) return;
      if (!build_system(r, U, subset(r, k, 1), g2, r.coin(75), B2)) return;
      string A1 = sys_tok(*B1.sys), A2 = sys_tok(*B2.sys);
      emit_rel("fac:" + to_string(B1.level), B1.stated, A1);
      emit_rel("fac:" + to_string(B2.level), B2.stated, A2);
      try {
        System m(*B1.sys, *B2.sys);
        string t = sys_tok(m);
        EMIT("sysrel merge %s %s => %s\n", A1.c_str(), A2.c_str(), t.c_str());
        vector<Vector> p1 = points(r, B1.planted, npts), p2 = points(r, B2.planted, npts);
        for (size_t q = 0; q < p1.size(); q++) {
          Vector p = merged_point(U, B1, B2, p1[q], q % 2 ? B2.planted : p2[q]);
          EMIT("syspt merge %s %s %s => %s\n", A1.c_str(), A2.c_str(), ptok(p).c_str(), t.c_str());
        }
        if (r.coin(40)) { // derived systems of the merged system
          NormalizedSystem ns(m, 1e-3); string k2 = kind_eps("norm", 1e-3, ExprNode::default_simpl_level), t2 = sys_tok(ns);
          emit_rel(k2, t, t2); emit_pts(k2, t, t2, vector<Vector>(1, merged_point(U, B1, B2, B1.planted, B2.planted)));
        }
      } catch (std::exception& e) { EMIT("syserror merge %s => 0\n", typeid(e).name()); }
    }
  } catch (std::exception& e) { EMIT("syserror build %s => 0\n", typeid(e).name()); }
}

int main(int argc, char** argv) {
  string wl = argc > 1 ? argv[1] : "c13";
  uint64_t seed = argc > 2 ? strtoull(argv[2], 0, 10) : 1;
  long n = argc > 3 ? atol(argv[3]) : 100;
  bool full = argc > 4 && string(argv[4]) == "full";
  int npts = full ? 8 : 5;
  if (wl != "c13" && wl != "c13merge") { fprintf(stderr, "unknown workload\n"); return 2; }
  bool nofork = getenv("VERIF_NOFORK") != NULL;     // (debugging)
  // Iterations run in child processes, BATCH at a time: a crash of the library (ill-formed expression produced by a
  // simplification, memory corruption ...) is reported as a finding of the iteration instead of killing the harness.
  // Every iteration has its own random stream, so a crashed batch is re-run iteration by iteration.
  const long BATCH = 50;
  auto run_range = [&](long a, long b) -> int {    // returns 0, or the signal that killed the child
    fflush(stdout);
    if (nofork) { for (long it = a; it < b; it++) { Rng r((seed * 15485863ULL + 13) ^ ((uint64_t)it * 0x9e3779b97f4a7c15ULL)); iteration(wl, r, npts); } return 0; }
    pid_t pid = fork();
    if (pid == 0) {
      setvbuf(stdout, NULL, _IOLBF, 0);
      for (long it = a; it < b; it++) { Rng r((seed * 15485863ULL + 13) ^ ((uint64_t)it * 0x9e3779b97f4a7c15ULL)); iteration(wl, r, npts); }
      fflush(stdout); VH_EXIT(0);
    }
    int st = 0; waitpid(pid, &st, 0);
    return WIFSIGNALED(st) ? WTERMSIG(st) : 0;
  };
  if (wl == "c13merge") seed += 7777;
  for (long a = 0; a < n; a += BATCH) {
    long b = std::min(n, a + BATCH);
    // dry run with the output discarded, to know whether the batch crashes (a crash may leave a truncated line)
    fflush(stdout);
    int sig = 0;
    if (!nofork) {
      pid_t pid = fork();
      if (pid == 0) { if (!freopen("/dev/null", "w", stdout)) _exit(3); for (long it = a; it < b; it++) { Rng r((seed * 15485863ULL + 13) ^ ((uint64_t)it * 0x9e3779b97f4a7c15ULL)); iteration(wl, r, npts); } VH_EXIT(0); }
      int st = 0; waitpid(pid, &st, 0); sig = WIFSIGNALED(st) ? WTERMSIG(st) : 0;
    }
    if (!sig) { run_range(a, b); continue; }
    for (long it = a; it < b; it++) { // find the crashing iteration(s); only the others are emitted
      fflush(stdout);
      pid_t pid = fork();
      if (pid == 0) { if (!freopen("/dev/null", "w", stdout)) _exit(3); Rng r((seed * 15485863ULL + 13) ^ ((uint64_t)it * 0x9e3779b97f4a7c15ULL)); iteration(wl, r, npts); VH_EXIT(0); }
      int st = 0; waitpid(pid, &st, 0);
      if (WIFSIGNALED(st)) printf("syserror crash-signal-%d %s seed=%llu iteration=%ld (replay: VERIF_NOFORK=1 h_sys %s %llu %ld) => 0\n", WTERMSIG(st), wl.c_str(), (unsigned long long)(wl == "c13merge" ? seed - 7777 : seed), it, wl.c_str(), (unsigned long long)(wl == "c13merge" ? seed - 7777 : seed), it + 1);
      else run_range(it, it + 1);
    }
  }
  return 0;
}
