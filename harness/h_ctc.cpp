#include <sstream>
#include <cstring>
// C04: constraint contractors.
//   hc4 <ranked scalar dag> <rhs itv> <inbox> => <outbox>            model HC4Revise (tightest single pass) must be inside the implementation's result
//   ctcpt <dags joined by |> <specs joined by |> <point> => <outbox>   a point satisfying every constraint exactly must remain
//        spec = in:<matrix token>  (value in the interval matrix)  |  leq | lt | geq | gt | eq   (value op 0, component-wise)
//   ctcsub <inbox> => <outbox>                                         contracting
#include "common.h"
#include "expr_io.h"
#include "mp_dag.h"
#include "elem_gen.h"
using namespace ibex; using namespace vh; using namespace std;

static long emitted = 0;
#define EMIT(...) do { printf(__VA_ARGS__); emitted++; } while (0)

static double dyadic(Rng& r) { return r.range(-32, 32) / 8.0; }
static IntervalVector box_around(Rng& r, const Vector& p) {
  IntervalVector b(p.size());
  for (int i = 0; i < p.size(); i++) {
    double lo = p[i] - r.range(0, 24) / 8.0, hi = p[i] + r.range(0, 24) / 8.0;
    switch (r.below(8)) { case 0: lo = NEG_INFINITY; break; case 1: hi = POS_INFINITY; break; case 2: lo = hi = p[i]; break; default: break; }
    b[i] = Interval(lo, hi);
  }
  return b;
}
// sample points: the planted one, points of the removed slabs, points between
static vector<Vector> sample_points(Rng& r, const IntervalVector& in, const IntervalVector& out, const Vector& planted) {
  vector<Vector> pts; pts.push_back(planted);
  int n = in.size();
  auto fin = [&](double v, double alt) { return (v == NEG_INFINITY || v == POS_INFINITY) ? alt : v; };
  for (int k = 0; k < 10; k++) {
    Vector p = planted;
    int i = r.below(n);
    double a = fin(in[i].lb(), planted[i] - 6), b = fin(in[i].ub(), planted[i] + 6);
    double v;
    if (!out.is_empty() && r.coin(60)) { // just outside the contracted interval, inside the input one
      v = r.coin() ? std::nextafter(out[i].lb(), -INFINITY) : std::nextafter(out[i].ub(), INFINITY);
      if (r.coin(40)) v = r.coin() ? (a + out[i].lb()) / 2 : (b + out[i].ub()) / 2;
    } else v = a + (b - a) * r.range(0, 16) / 16.0;
    if (!(v == v) || std::fabs(v) > DBL_MAX || !in[i].contains(v)) v = planted[i];
    p[i] = v;
    if (r.coin(30)) { int j = r.below(n); double a2 = fin(in[j].lb(), planted[j] - 6), b2 = fin(in[j].ub(), planted[j] + 6); double w = a2 + (b2 - a2) * r.range(0, 8) / 8.0; if (in[j].contains(w)) p[j] = w; }
    pts.push_back(p);
  }
  return pts;
}

struct ScalarCtr { Function* f; string dag; string ranked; CmpOp op; Interval K; string spec; };

// a scalar constraint on the variables `x` satisfied by the planted point
static bool make_scalar_ctr(Rng& r, const Array<const ExprSymbol>& x, const Vector& planted, ScalarCtr& c, bool vec) {
  GenCfg cfg; cfg.allow_vec = vec; cfg.allow_apply = false; cfg.max_depth = r.range(1, 4);
  ExprGen g(r, cfg);
  // fresh symbols for this function (a node belongs to one function only)
  Array<const ExprSymbol>* a = new Array<const ExprSymbol>(x.size());
  for (int i = 0; i < x.size(); i++) { const ExprSymbol& s = ExprSymbol::new_(x[i].name, x[i].dim); a->set_ref(i, s); g.syms.push_back(&s); }
  const ExprNode& e = g.gen(1, 1, cfg.max_depth);
  c.dag = dump_expr(e, *a);
  c.f = new Function(*a, e, "g");
  c.ranked = dump_fun_ranked(*c.f);
  Interval v = c.f->eval(IntervalVector(planted));
  if (v.is_empty() || v.is_unbounded()) return false;
  switch (r.below(6)) {
    case 0: c.op = EQ; c.K = v | Interval(v.lb() - r.range(0, 4) / 8.0, v.ub() + r.range(0, 4) / 8.0); break;
    case 1: c.op = LEQ; c.K = Interval(NEG_INFINITY, v.ub() + r.range(0, 8) / 8.0); break;
    case 2: c.op = GEQ; c.K = Interval(v.lb() - r.range(0, 8) / 8.0, POS_INFINITY); break;
    case 3: c.op = EQ; c.K = v; break;
    case 4: c.op = EQ; c.K = Interval(v.lb() - r.range(0, 16) / 8.0, v.ub() + r.range(0, 16) / 8.0); break;
    default: c.op = EQ; c.K = r.coin() ? Interval(v.lb() - 1, v.ub()) : Interval(v.lb(), v.ub() + 1); break;
  }
  c.spec = "in:" + mtok(c.K);
  return true;
}

static void emit_points(Rng& r, const string& dags, const string& specs, const IntervalVector& in, const IntervalVector& out, const Vector& planted) {
  EMIT("ctcsub %s => %s\n", tok(in).c_str(), tok(out).c_str());
  for (auto& p : sample_points(r, in, out, planted)) EMIT("ctcpt %s %s %s => %s\n", dags.c_str(), specs.c_str(), ptok(p).c_str(), tok(out).c_str());
}

// ---- workload c04t: constraints with elementary functions.  A planted point p is made feasible BY CONSTRUCTION: the
// right-hand side of each constraint contains the rigorous MPFR enclosure of f_j(p) (mp_dag.h), so p must survive every
// contraction; the contracted box must be inside the input box.
//   ctckeep <name> <inbox> <pt> => <outbox>
static void wl_c04t(Rng& r, long n) {
  for (long it = 0; it < n; it++) {
    try {
      int nv = r.range(1, 3), m = r.range(1, 2);
      Array<const ExprSymbol> sx(nv); for (int i = 0; i < nv; i++) sx.set_ref(i, ExprSymbol::new_(("z" + to_string(i)).c_str(), Dim::scalar()));
      Vector p(nv); for (int i = 0; i < nv; i++) p[i] = r.coin(70) ? r.range(-16, 16) / 8.0 : r.range(-100, 100) / 8.0;
      SystemFactory fac; fac.add_var(sx);
      vector<Function*> fs; vector<Interval> ys; bool ok = true;
      for (int j = 0; j < m && ok; j++) {
        GenCfg cfg; cfg.allow_vec = false; cfg.allow_apply = false; cfg.allow_div = r.coin(40); cfg.max_depth = 2;
        ExprGen g(r, cfg); for (int i = 0; i < nv; i++) g.syms.push_back(&sx[i]);
        const ExprNode& e = gen_elem(r, g, r.range(1, 2));
        double lo, hi; if (!mp_eval(e, sx, p, lo, hi)) { ok = false; break; }
        Interval y;
        switch (r.below(5)) { case 0: y = Interval(lo, hi); break; case 1: y = Interval(lo - r.range(0, 8) / 8.0, hi + r.range(0, 8) / 8.0); break; case 2: y = Interval(NEG_INFINITY, hi + r.range(0, 4) / 8.0); break;
          case 3: y = Interval(lo - r.range(0, 4) / 8.0, POS_INFINITY); break; default: y = Interval(lo - std::ldexp(1.0, -(int)r.range(10, 40)), hi + std::ldexp(1.0, -(int)r.range(10, 40))); }
        Array<const ExprSymbol> cp(nv); for (int i = 0; i < nv; i++) cp.set_ref(i, ExprSymbol::new_(sx[i].name, Dim::scalar()));
        fs.push_back(new Function(cp, ExprCopy().copy(sx, cp, e), "f")); ys.push_back(y);
        // in the system: two inequalities  e - y.ub <= 0,  e - y.lb >= 0  (when bounded)
        if (y.ub() < POS_INFINITY) fac.add_ctr(ExprCtr(e - ExprConstant::new_scalar(y.ub()), LEQ));
        if (y.lb() > NEG_INFINITY) fac.add_ctr(ExprCtr(e - ExprConstant::new_scalar(y.lb()), GEQ));
      }
      if (ok) {
        System sys(fac);
        CtcFwdBwd fb(*fs[0], ys[0]);
        CtcHC4 hc4(sys, r.coin() ? 0.01 : 0.5, r.coin(30));
        Ctc3BCid cid(hc4, r.range(2, 10), r.range(1, 3));
        CtcAcid acid(sys, hc4);
        CtcCompo compo(fb, cid);
        Ctc* cs[5] = {&fb, &hc4, &cid, &acid, &compo}; const char* nm[5] = {"fwdbwd", "hc4", "3bcid", "acid", "compo"};
        // the hyperbolic functions of the constraints (gaol computes their bounds from libm values +-1 float: known finding of C01)
        string hyp;
        { std::ostringstream ss; for (auto f : fs) ss << *f << " ";
          const char* hn[6] = {"asinh(", "acosh(", "atanh(", "sinh(", "cosh(", "tanh("};
          for (int j = 0; j < 6; j++) if (ss.str().find(hn[j]) != string::npos) { if (!hyp.empty()) hyp += ","; hyp += string(hn[j]).substr(0, strlen(hn[j]) - 1); }
          if (hyp.empty()) hyp = "-"; }
        for (int k = 0; k < 8; k++) {
          int w = r.below(5);
          IntervalVector in(nv);
          for (int i = 0; i < nv; i++) { double a = p[i] - (r.coin(20) ? 0 : r.range(0, 24) / 8.0), b = p[i] + (r.coin(20) ? 0 : r.range(0, 24) / 8.0); if (r.coin(10)) a = NEG_INFINITY; if (r.coin(10)) b = POS_INFINITY; in[i] = Interval(a, b); }
          IntervalVector out = in;
          cs[w]->contract(out);
          check_round_up(nm[w]);
          if (getenv("H_CTC_DEBUG") && (out.is_empty() || !out.contains(p))) { std::cerr.precision(17); std::cerr << "c04t lost point: " << nm[w] << " p=" << p << " in=" << in << " out=" << out; for (size_t j = 0; j < fs.size(); j++) std::cerr << "  f" << j << "=" << *fs[j] << " in " << ys[j]; std::cerr << std::endl; }
          EMIT("ctckeep %s %s %s %s => %s\n", nm[w], tok(in).c_str(), ptok(p).c_str(), hyp.c_str(), tok(out).c_str());
        }
      }
      for (auto f : fs) delete f;
    } catch (VerifAbort& a) { EMIT("harnesserror c04t abort => 0\n"); }
      catch (std::exception& e) { EMIT("harnesserror c04t %s => 0\n", typeid(e).name()); }
  }
}

int main(int argc, char** argv) {
  string wl = argc > 1 ? argv[1] : "c04";
  uint64_t seed = argc > 2 ? strtoull(argv[2], 0, 10) : 1;
  long n = argc > 3 ? atol(argv[3]) : 200;
  Rng r(seed * 49979687 + 5);
  if (wl == "c04") {
    for (long it = 0; it < n; it++) {
      try {
      // ---------------- A/B: one constraint, forward-backward -------------------------------------
      int nv = r.range(1, 4);
      Array<const ExprSymbol> x(nv); for (int i = 0; i < nv; i++) x.set_ref(i, ExprSymbol::new_(("x" + to_string(i)).c_str(), Dim::scalar()));
      Vector planted(nv); for (int i = 0; i < nv; i++) planted[i] = dyadic(r);
      ScalarCtr c;
      if (make_scalar_ctr(r, x, planted, c, false)) {
        CtcFwdBwd ctc(*c.f, c.K);
        for (int k = 0; k < 3; k++) {
          IntervalVector in = box_around(r, planted), out = in;
          if (k > 0 && r.coin()) { IntervalVector other = box_around(r, planted); ctc.contract(other); } // history
          ctc.contract(out);
          check_round_up("fwdbwd");
          EMIT("hc4 %s %s %s => %s\n", c.ranked.c_str(), tok(c.K).c_str(), tok(in).c_str(), tok(out).c_str());
          emit_points(r, c.dag, c.spec, in, out, planted);
        }
      }
      // vector-valued constraint f(x) in Y (scalars, vector and matrix variables)
      {
        GenCfg cfg; cfg.allow_vec = true; cfg.allow_apply = r.coin(40); cfg.max_depth = r.range(1, 3);
        ExprGen g(r, cfg);
        int ns = r.range(1, 3); Array<const ExprSymbol> a(ns); int tot = 0;
        for (int i = 0; i < ns; i++) { Dim d = Dim::scalar(); switch (r.below(6)) { case 0: d = Dim::col_vec(r.range(2, 3)); break; case 1: d = Dim::row_vec(2); break; case 2: d = Dim::matrix(2, 2); break; case 3: d = Dim::matrix(2, 3); break; default: break; }
          const ExprSymbol& s = ExprSymbol::new_(("y" + to_string(i)).c_str(), d); a.set_ref(i, s); g.syms.push_back(&s); tot += d.size(); }
        int rows = 1, cols = 1; switch (r.below(5)) { case 0: rows = r.range(2, 3); break; case 1: cols = 2; break; case 2: rows = 2; cols = 2; break; case 3: rows = 2; cols = r.range(3, 5); break; default: break; }
        const ExprNode& e = g.gen(rows, cols, cfg.max_depth);
        string dag = dump_expr(e, a);
        Function f(a, e, "h");
        Vector pl(tot); for (int i = 0; i < tot; i++) pl[i] = dyadic(r);
        Domain v = f.eval_domain(IntervalVector(pl));
        if (!v.is_empty()) {
          Domain Y(v); // widen each component a little
          auto widen = [&](Interval& z) { if (!z.is_unbounded()) z = Interval(z.lb() - r.range(0, 8) / 8.0, z.ub() + r.range(0, 8) / 8.0); };
          switch (Y.dim.type()) { case Dim::SCALAR: widen(Y.i()); break; case Dim::ROW_VECTOR: case Dim::COL_VECTOR: for (int i = 0; i < Y.v().size(); i++) widen(Y.v()[i]); break;
            default: for (int i = 0; i < Y.m().nb_rows(); i++) for (int j = 0; j < Y.m().nb_cols(); j++) widen(Y.m()[i][j]); }
          CtcFwdBwd ctc(f, Y);
          for (int k = 0; k < 2; k++) { IntervalVector in = box_around(r, pl), out = in; ctc.contract(out); emit_points(r, dag, "in:" + mtok(Y), in, out, pl); }
        }
      }
      // ---------------- C: systems, propagation and shaving --------------------------------------------
      {
        int m = r.range(1, 3);
        SystemFactory fac;
        Array<const ExprSymbol> sx(nv); for (int i = 0; i < nv; i++) sx.set_ref(i, ExprSymbol::new_(("z" + to_string(i)).c_str(), Dim::scalar()));
        fac.add_var(sx);
        string dags, specs; bool ok = true;
        for (int j = 0; j < m && ok; j++) {
          GenCfg cfg; cfg.allow_vec = false; cfg.allow_apply = false; cfg.max_depth = r.range(1, 3);
          ExprGen g(r, cfg); for (int i = 0; i < nv; i++) g.syms.push_back(&sx[i]);
          const ExprNode& e = g.gen(1, 1, cfg.max_depth);
          // value at the planted point (through a throw-away copy)
          Array<const ExprSymbol> cp(nv); for (int i = 0; i < nv; i++) cp.set_ref(i, ExprSymbol::new_(sx[i].name, Dim::scalar()));
          Function tmp(cp, ExprCopy().copy(sx, cp, e), "t");
          Interval v = tmp.eval(IntervalVector(planted));
          if (v.is_empty() || v.is_unbounded()) { ok = false; break; }
          CmpOp op; double cst; string spec;
          if (v.is_degenerated() && r.coin(50)) { op = EQ; cst = v.lb(); spec = "eq"; }
          else if (r.coin()) { op = r.coin() ? LEQ : LT; cst = v.ub() + (op == LT ? 0.125 : 0) + r.range(0, 8) / 8.0; spec = op == LEQ ? "leq" : "lt"; }
          else { op = r.coin() ? GEQ : GT; cst = v.lb() - (op == GT ? 0.125 : 0) - r.range(0, 8) / 8.0; spec = op == GEQ ? "geq" : "gt"; }
          const ExprNode& full = e - ExprConstant::new_scalar(cst);
          if (j) { dags += "|"; specs += "|"; }
          dags += dump_expr(full, sx); specs += spec;
          fac.add_ctr(ExprCtr(full, op));
        }
        if (ok) {
          System sys(fac);
          double ratio = r.coin() ? 0.01 : (r.coin() ? 0.1 : 0.9); bool incr = r.coin(30);
          CtcHC4 hc4(sys, ratio, incr);
          int s3b = r.range(2, 12), scid = r.range(1, 4); double vmw = r.coin() ? 1e-11 : 0.5;
          Ctc3BCid cid(hc4, s3b, scid, r.coin() ? -1 : r.range(1, nv), vmw);
          CtcAcid acid(sys, hc4, false, s3b, scid, vmw, r.coin() ? 0.005 : 0.5);
          CtcCompo compo(hc4, cid);
          Ctc* cs[4] = {&hc4, &cid, &acid, &compo}; const char* nm[4] = {"hc4", "3bcid", "acid", "compo"};
          for (int k = 0; k < 6; k++) {
            int w = r.below(4);
            IntervalVector in = box_around(r, planted), out = in;
            if (r.coin(8)) { int hv = r.below(nv); in[hv] = r.coin() ? Interval(-1.5e308, 1.5e308) : Interval(-1.0e308, 1.7e308); out = in; }   // bounded domain whose diameter overflows
            if (r.coin(30)) { // with an explicit context: impact of a single variable
              BoxProperties prop(out); ContractContext ctx(prop); ctx.impact.clear(); ctx.impact.add(r.below(nv));
              if (w == 2) { cs[w]->add_property(out, prop); }
              cs[w]->contract(out, ctx);
            } else cs[w]->contract(out);
            check_round_up(nm[w]);
            emit_points(r, dags, specs, in, out, planted);
          }
        }
      }
      // ---------------- D: shaving with refuted slices: a narrow bump y = max(0, 1 - a (x-c)^2) and an excluded band (x-d)^2 >= w^2;
      //                     the planted point (c, 1) lies in ONE slice, slices before it are refuted (3BCID / CID with scid = 1..5)
      {
        Array<const ExprSymbol> sx(2); sx.set_ref(0, ExprSymbol::new_("z0", Dim::scalar())); sx.set_ref(1, ExprSymbol::new_("z1", Dim::scalar()));
        double c = r.range(1, 15) / 16.0, a = (double)(1 << r.range(4, 8)), d = r.range(1, 15) / 16.0, w = r.range(1, 4) / 16.0;
        if (std::fabs(c - d) <= w) d = c > 0.5 ? c - w - 0.0625 : c + w + 0.0625;
        bool swapxy = r.coin(30);
        const ExprSymbol& X = sx[swapxy ? 1 : 0]; const ExprSymbol& Y = sx[swapxy ? 0 : 1];
        const ExprNode& e1 = Y - max(ExprConstant::new_scalar(0.0), 1.0 - a * sqr(X - c));
        const ExprNode& e2 = sqr(X - d) - w * w;
        SystemFactory fac; fac.add_var(sx); fac.add_ctr(ExprCtr(e1, EQ)); fac.add_ctr(ExprCtr(e2, GEQ));
        string dags = dump_expr(e1, sx) + "|" + dump_expr(e2, sx), specs = "eq|geq";
        System sys(fac);
        Vector pl(2); pl[swapxy ? 1 : 0] = c; pl[swapxy ? 0 : 1] = 1.0;
        CtcHC4 hc4(sys, r.coin() ? 0.01 : 0.1, r.coin(30));
        for (int k = 0; k < 6; k++) {
          int s3b = r.range(2, 12), scid = r.range(1, 5);
          Ctc3BCid cid(hc4, s3b, scid, r.coin() ? -1 : r.range(1, 2), r.coin() ? 1e-11 : 0.01);
          CtcAcid acid(sys, hc4, false, s3b, scid, 1e-11, r.coin() ? 0.005 : 0.5);
          Ctc& ct = r.coin(70) ? (Ctc&)cid : (Ctc&)acid;
          IntervalVector in(2); for (int i = 0; i < 2; i++) in[i] = Interval(r.coin(60) ? 0.0 : -r.range(0, 8) / 8.0, r.coin(60) ? 1.0 : 1.0 + r.range(0, 8) / 8.0);
          IntervalVector out = in; ct.contract(out);
          if (r.coin(40)) { IntervalVector again = in; ct.contract(again); out = again; }     // (second call on the same object)
          check_round_up("3bcid-bump");
          emit_points(r, dags, specs, in, out, pl);
        }
      }
      // ---------------- E: the solution sits on (or a few floats away from) the END POINT OF A SLICE of the shaving process:
      //                     x0 - x1 = 0, x0 + x1 = 2c (solution (c,c), exact for every double c); the end points are computed as the
      //                     library does (lb + k*w and (lb + (k-1)*w) + w, w = diam / s3b, same rounding mode), c is one of the floats around them
      {
        Array<const ExprSymbol> sx(2); sx.set_ref(0, ExprSymbol::new_("z0", Dim::scalar())); sx.set_ref(1, ExprSymbol::new_("z1", Dim::scalar()));
        int s3b = r.range(3, 12); int var = r.below(2);
        double lb = r.range(-40, 40) / 8.0 + (r.coin() ? 0.0 : r.range(1, 9) / 10.0), diam = r.range(1, 40) / 4.0 + (r.coin() ? 0.0 : r.range(1, 9) / 10.0);
        volatile double ub = lb + diam; volatile double w = (ub - lb) / s3b;
        // every slice end point k: the two ways of computing it; the floats BETWEEN the two values (when they differ) come first
        vector<double> cand;
        for (int k = 1; k < s3b; k++) { volatile double b1 = lb + k * w; volatile double b0 = lb + (k - 1) * w; volatile double b2 = b0 + w;
          double lo = std::min((double)b1, (double)b2), hi = std::max((double)b1, (double)b2);
          if (lo != hi) for (double c = lo; c <= hi && cand.size() < 48; c = std::nextafter(c, 1e300)) cand.push_back(c); }
        { int k = r.range(1, s3b - 1); volatile double b1 = lb + k * w; double c = b1; for (int q = 0; q < 2; q++) c = std::nextafter(c, -1e300);
          for (int q = 0; q < 5; q++) { cand.push_back(c); c = std::nextafter(c, 1e300); } }
        size_t next_cand = 0;
        for (int rep = 0; rep < 10 && next_cand < cand.size(); rep++) {
          double c = cand[next_cand++];
          const ExprNode& e1 = sx[0] - sx[1];
          const ExprNode& e2 = sx[0] + sx[1] - ExprConstant::new_scalar(2 * c);
          SystemFactory fac; fac.add_var(sx); fac.add_ctr(ExprCtr(e1, EQ)); fac.add_ctr(ExprCtr(e2, EQ));
          string dags = dump_expr(e1, sx) + "|" + dump_expr(e2, sx), specs = "eq|eq";
          System sys(fac);
          Vector pl(2); pl[0] = c; pl[1] = c;
          CtcHC4 hc4(sys, r.coin() ? 0.01 : 0.1, r.coin(30));
          Ctc3BCid cid(hc4, s3b, r.range(1, 3), -1, 1e-11);
          CtcAcid acid(sys, hc4, false, s3b, r.range(1, 3), 1e-11, 0.005);
          Ctc& ct = r.coin(75) ? (Ctc&)cid : (Ctc&)acid;
          IntervalVector in(2); in[var] = Interval(lb, ub); in[1 - var] = Interval(c - r.range(1, 16) / 4.0, c + r.range(1, 16) / 4.0);
          IntervalVector out = in; ct.contract(out);
          check_round_up("3bcid-slice-end");
          emit_points(r, dags, specs, in, out, pl);
        }
      }
      } catch (std::exception& e) { EMIT("harnesserror %s => 0\n", e.what()); }
    }
  } else if (wl == "c04t") { wl_c04t(r, n);
  } else { fprintf(stderr, "unknown workload\n"); return 2; }
  fprintf(stderr, "emitted %ld\n", emitted);
  return 0;
}
