// MPFR-based point oracle: rigorous double enclosures [RD f(p), RU f(p)] of elementary functions at double points.
#ifndef VERIF_MPFR_ORACLE_H
#define VERIF_MPFR_ORACLE_H
#include <mpfr.h>
#include "common.h"

namespace vh {

struct Enc { // running hull of point images; lo/hi are doubles (possibly infinite)
  bool any = false; double lo = 0, hi = 0; double argmin = 0, argmax = 0, argmin2 = 0, argmax2 = 0;
  void add(double l, double h, double p, double p2 = 0) {
    if (!any) { any = true; lo = l; hi = h; argmin = argmax = p; argmin2 = argmax2 = p2; return; }
    if (l < lo) { lo = l; argmin = p; argmin2 = p2; }
    if (h > hi) { hi = h; argmax = p; argmax2 = p2; }
  }
  std::string tok() const { return any ? hex(lo) + ":" + hex(hi) : std::string("E"); }
};

typedef int (*mpfr_fn1)(mpfr_ptr, mpfr_srcptr, mpfr_rnd_t);

// evaluate f at the double p with 53-bit directed rounding, then to double in the same direction
inline bool eval1(mpfr_fn1 f, double p, double& dn, double& up) {
  mpfr_t x, r; mpfr_init2(x, 53); mpfr_init2(r, 53);
  mpfr_set_d(x, p, MPFR_RNDN);
  f(r, x, MPFR_RNDD); bool nan = mpfr_nan_p(r); dn = mpfr_get_d(r, MPFR_RNDD);
  f(r, x, MPFR_RNDU); nan = nan || mpfr_nan_p(r); up = mpfr_get_d(r, MPFR_RNDU);
  mpfr_clear(x); mpfr_clear(r);
  return !nan;
}

typedef int (*mpfr_fn2)(mpfr_ptr, mpfr_srcptr, mpfr_srcptr, mpfr_rnd_t);
inline bool eval2(mpfr_fn2 f, double p, double q, double& dn, double& up) {
  mpfr_t x, y, r; mpfr_init2(x, 53); mpfr_init2(y, 53); mpfr_init2(r, 53);
  mpfr_set_d(x, p, MPFR_RNDN); mpfr_set_d(y, q, MPFR_RNDN);
  f(r, x, y, MPFR_RNDD); bool nan = mpfr_nan_p(r); dn = mpfr_get_d(r, MPFR_RNDD);
  f(r, x, y, MPFR_RNDU); nan = nan || mpfr_nan_p(r); up = mpfr_get_d(r, MPFR_RNDU);
  mpfr_clear(x); mpfr_clear(y); mpfr_clear(r);
  return !nan;
}

// monotone map between doubles and ordered integers (for uniform sampling over representable values)
inline int64_t ord(double d) { int64_t b = (int64_t)bits(d); return b < 0 ? (int64_t)0x8000000000000000LL - b : b; }
inline double unord(int64_t o) { int64_t b = o < 0 ? (int64_t)0x8000000000000000LL - o : o; return frombits((uint64_t)b); }

// the double nearest to k*pi/2 (computed with 2300 bits, enough for every binary64 magnitude)
inline double near_k_halfpi(long k) {
  mpfr_t pi; mpfr_init2(pi, 2300); mpfr_const_pi(pi, MPFR_RNDN);
  mpfr_mul_si(pi, pi, k, MPFR_RNDN); mpfr_div_2ui(pi, pi, 1, MPFR_RNDN);
  double d = mpfr_get_d(pi, MPFR_RNDN); mpfr_clear(pi); return d;
}
// floor(x / (pi/2)) as a long when it fits (|x| < 1e15), else 0 with ok=false
inline long k_of(double x, bool& ok) {
  if (!(std::fabs(x) < 1e15)) { ok = false; return 0; }
  mpfr_t pi, v; mpfr_init2(pi, 300); mpfr_init2(v, 300); mpfr_const_pi(pi, MPFR_RNDN); mpfr_div_2ui(pi, pi, 1, MPFR_RNDN);
  mpfr_set_d(v, x, MPFR_RNDN); mpfr_div(v, v, pi, MPFR_RNDN); mpfr_floor(v, v);
  long k = mpfr_get_si(v, MPFR_RNDN); mpfr_clear(pi); mpfr_clear(v); ok = true; return k;
}

// sample points of a non-empty interval (all finite doubles inside it)
inline std::vector<double> samples(Rng& r, const Interval& x, int nrand = 6, bool trig = false) {
  std::vector<double> out;
  double a = x.lb(), b = x.ub();
  double fa = a == NEG_INFINITY ? -DBL_MAX : a, fb = b == POS_INFINITY ? DBL_MAX : b;
  auto push = [&](double p) { if (p == p && p >= fa && p <= fb && std::fabs(p) <= DBL_MAX) out.push_back(p); };
  push(fa); push(fb); push(std::nextafter(fa, INFINITY)); push(std::nextafter(fb, -INFINITY));
  push(0.0); push(1.0); push(-1.0); push(std::nextafter(1.0, 0)); push(std::nextafter(-1.0, 0)); push(std::nextafter(1.0, 2)); push(std::nextafter(-1.0, -2));
  push(4.9406564584124654e-324); push(-4.9406564584124654e-324); push(DBL_MIN); push(-DBL_MIN);
  push(fa / 2 + fb / 2);
  int64_t oa = ord(fa), ob = ord(fb);
  for (int i = 0; i < nrand; i++) {
    uint64_t span = (uint64_t)(ob - oa);
    push(unord(oa + (int64_t)(span ? r.next() % (span + 1 == 0 ? span : span + 1) : 0)));
    if (fb - fa < INFINITY) { double t = (double)(r.next() >> 11) / 9007199254740992.0; push(fa + t * (fb - fa)); }
  }
  if (trig) {
    bool ok1, ok2; long ka = k_of(fa, ok1), kb = k_of(fb, ok2);
    if (ok1 && ok2) {
      long ks[6] = {ka, ka + 1, ka + 2, kb, kb - 1, ka + (long)r.below((uint64_t)(kb - ka + 1))};
      for (long k : ks) { double c = near_k_halfpi(k); push(c); push(std::nextafter(c, INFINITY)); push(std::nextafter(c, -INFINITY)); }
    }
  }
  return out;
}

} // namespace vh
#endif
