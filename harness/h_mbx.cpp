// Workloads for C10: Minibex text denotes the model it spells; exact serialisation round-trips.
//   h_mbx rtfun  <seed> <count>   random Functions built through the API (all operators) -> minibex(false) -> Function(file | strings)
//   h_mbx rtsys  <seed> <count>   random Systems built through SystemFactory -> minibex(false) -> System(file)
//   h_mbx api    <seed> <count>   deterministic: one function per printable operator / printer corner (count ignored)
//   h_mbx hex    <seed> <count>   interval constants over the lattice of special doubles: printed text and its reading
//   h_mbx text   <seed> <count>   texts of the independent grammar-based generator: reference denotation vs real parser, then round trip
//   h_mbx ftext  <seed> <count>   generated function files read by Function(filename): reference denotation vs real parser
//   h_mbx mutate <seed> <count>   single-token mutations: accept/reject and meaning vs the reference reader; a valid parse after each
//   h_mbx corner <seed> <count>   hand-written texts (precedence, documented forms, known pitfalls)  (count ignored)
//   h_mbx bench  <seed> <count>   benchmark files shipped with the library: load, serialise, reload
// Every parse of a text runs in a forked child (CPU / memory / wall-clock limits): a crash, an exit or a hang is an outcome.
//
// Lines (D = six tokens: vars box goal ctrs fctrs ops):
//   mbxfun  <kind> <vars> <prog> <pts> => <outcome> [<vars> <prog>]
//   mbxsys  <strict|flat> <kind> D <pts> => <outcome> [D]
//   mbxcons <kind> <nvar> <ctrs> <fctrs> <ops> <pts>                       (internal consistency of a System object)
//   mbxmut  <kind> <reject|unsupported|accept D <pts>> => <outcome> [D]
//   mbxouter <kind> => <outcome>     (mutated text with an outer product column*row, accepted by the reference, not parsed)
//   mbxload <file> => <outcome>
//   mbxself <kind> <model of the generator> => <model of the reference reader>      (harness self check)
//   hexitv  <lo> <hi> <mid> <degenerate> => <text>          hexread <text> => <interval>
//   mbxskip <why>
// outcome = parsed | syntaxerror | dimexception | verifabort | exception:<type> | crash:<signal> | exit:<code> | timeout
#include "common.h"
#include "expr_io.h"
#include "mbx_gen.h"
#include <typeinfo>
#include <fstream>
#include <algorithm>
#include <unistd.h>
#include <fcntl.h>
#include <signal.h>
#include <dirent.h>
#include <sys/wait.h>
#include <sys/resource.h>
#include <sys/stat.h>
using namespace ibex; using namespace vh; using namespace std;

static long emitted = 0;
#define EMIT(...) do { printf(__VA_ARGS__); emitted++; } while (0)
static string g_dir;
static const size_t MAXTOK = 400000;   // larger dumps are not sent to the driver

// ------------------------------------------------------------------------------------------ helpers
static string rawhex(double d) { char b[20]; snprintf(b, sizeof b, "%016llx", (unsigned long long)bits(d)); return b; }
static void spit(const string& fn, const string& s) { ofstream f(fn.c_str(), ios::binary | ios::trunc); f << s; f.close(); }
static string slurp(const string& fn) { ifstream f(fn.c_str(), ios::binary); return string((istreambuf_iterator<char>(f)), istreambuf_iterator<char>()); }
static string slug(const string& w, size_t mx = 60) { string s; for (char c : w) { if (s.size() >= mx) break; s += (isalnum((unsigned char)c) ? c : '_'); } return s.empty() ? string("_") : s; }
static double dyadic(Rng& r) { return r.range(-24, 24) / 8.0; }
static string points(Rng& r, int nvar, int k = 3) {
  if (nvar <= 0) return "-"; string s;
  for (int j = 0; j < k; j++) { if (j) s += "|"; for (int i = 0; i < nvar; i++) { if (i) s += ";"; s += vh::hex(dyadic(r)); } }
  return s;
}
static const char* opname(CmpOp op) { switch (op) { case LT: return "lt"; case LEQ: return "leq"; case EQ: return "eq"; case GEQ: return "geq"; default: return "gt"; } }

static string vars_tok(const Array<const ExprSymbol>& a) {
  string s; for (int i = 0; i < a.size(); i++) { if (i) s += ","; s += string(a[i].name) + "@" + to_string(a[i].dim.nb_rows()) + "." + to_string(a[i].dim.nb_cols()); } return s.empty() ? "-" : s;
}
// (a box with an empty component is the empty set: one canonical token)
static string box_tok(const IntervalVector& b) { string s; for (int i = 0; i < b.size(); i++) { if (b[i].is_empty()) return "E"; if (i) s += ";"; s += tok(b[i]); } return s.empty() ? "-" : s; }
// six tokens describing a System object
static string sys_dump(const System& s) {
  string o = vars_tok(s.args) + " " + box_tok(s.box) + " " + (s.goal ? dump_fun(*s.goal) : string("-")) + " ";
  string c; for (int i = 0; i < s.nb_ctr; i++) { if (i) c += "|"; c += string(opname(s.ctrs[i].op)) + "^" + dump_fun(s.ctrs[i].f); }
  o += (c.empty() ? "-" : c) + " ";
  if (s.nb_ctr > 0) { o += dump_fun(s.f_ctrs) + " "; string p; for (int i = 0; i < s.f_ctrs.image_dim(); i++) { if (i) p += ","; p += opname(s.ops[i]); } o += p; }
  else o += "- -";
  return o;
}
static string model_dump(const mbx::Model& m) { return m.vars_tok() + " " + m.box_tok() + " " + m.goal_tok() + " " + m.ctrs_tok() + " - -"; }
static int nvar_of(const System& s) { return s.nb_var; }

// the function applied at the root of `f` (serialised systems wrap their functions: `_x_0 = _f_1(x,y); _x_0[i] op 0`)
static const Function* applied_function(const Function& f) {
  ExprSubNodes nodes(f.expr());
  for (int i = 0; i < nodes.size(); i++) if (const ExprApply* a = dynamic_cast<const ExprApply*>(&nodes[i])) return &a->func;
  return NULL;
}

// ------------------------------------------------------------------------------------------ isolated execution
struct Child { string outcome, payload; };
static int g_timeouts = 0;            // a parser that hangs after every error would cost the wall-clock limit each time:
static const int MAX_TIMEOUTS = 25;   // the workload is stopped (and fails) after that many
template <class F> static Child isolated(F job, int wall = 20, int mem_mb = 1024) {
  int p[2]; if (pipe(p) != 0) { perror("pipe"); exit(3); }
  fflush(stdout); fflush(stderr);
  pid_t pid = fork();
  if (pid < 0) { perror("fork"); exit(3); }
  if (pid == 0) {
    close(p[0]);
    int nul = open("/dev/null", O_WRONLY); if (nul >= 0) { dup2(nul, 1); dup2(nul, 2); }
    struct rlimit rl; rl.rlim_cur = rl.rlim_max = (rlim_t)mem_mb * 1024 * 1024; setrlimit(RLIMIT_AS, &rl);
    rl.rlim_cur = rl.rlim_max = wall; setrlimit(RLIMIT_CPU, &rl);
    rl.rlim_cur = rl.rlim_max = 0; setrlimit(RLIMIT_CORE, &rl);
    alarm(wall);
    job(p[1]);
    close(p[1]);
    VH_EXIT(0);
  }
  close(p[1]);
  string out; char buf[65536]; ssize_t k;
  while ((k = read(p[0], buf, sizeof buf)) > 0) out.append(buf, k);
  close(p[0]);
  int status = 0; waitpid(pid, &status, 0);
  Child c; c.payload = out;
  if (WIFSIGNALED(status)) { int sg = WTERMSIG(status); c.outcome = (sg == SIGALRM || sg == SIGXCPU || sg == SIGKILL) ? "timeout" : "crash:" + to_string(sg); if (c.outcome == "timeout") g_timeouts++; }
  else if (!WIFEXITED(status) || WEXITSTATUS(status) != 0) c.outcome = "exit:" + to_string(WEXITSTATUS(status));
  else c.outcome = "done";
  return c;
}
static void wr(int fd, const string& s) { size_t o = 0; while (o < s.size()) { ssize_t k = write(fd, s.data() + o, s.size() - o); if (k <= 0) break; o += k; } }

// run `body` (which returns the tokens describing the object built) and classify the exceptions of the library
template <class F> static string guarded(F body) {
  try { return "parsed " + body(); }
  catch (SyntaxError& e) { return "syntaxerror"; }
  catch (DimException& e) { return "dimexception"; }
  catch (VerifAbort& e) { return "verifabort"; }
  catch (std::bad_array_new_length&) { return "exception:bad_array_new_length"; }
  catch (std::bad_alloc&) { return "exception:bad_alloc"; }
  catch (std::exception& e) { return string("exception:") + slug(typeid(e).name()); }
  catch (...) { return "exception:unknown"; }
}
// the records written by a child are separated by '\n'; the final status of the process completes the last one
static vector<string> records(const Child& c, size_t expected) {
  vector<string> r; size_t p = 0;
  while (p < c.payload.size()) { size_t q = c.payload.find('\n', p); if (q == string::npos) { break; } r.push_back(c.payload.substr(p, q - p)); p = q + 1; }
  while (r.size() < expected) r.push_back(c.outcome == "done" ? string("crash:noresult") : c.outcome);
  return r;
}
static bool toolarge(const string& s) { return s.size() > MAXTOK; }

// ------------------------------------------------------------------------------------------ API generators
struct RtGen {
  Rng& r; bool allops; int max_depth;
  vector<const ExprSymbol*> syms; vector<const ExprNode*> pool;
  RtGen(Rng& rr, bool all, int d) : r(rr), allops(all), max_depth(d) {}
  static bool is_const(const ExprNode& e) { ExprSubNodes n(e); for (int i = 0; i < n.size(); i++) if (dynamic_cast<const ExprSymbol*>(&n[i])) return false; return true; }
  double cst() { switch (r.below(6)) { case 0: return (double)r.range(-3, 3); case 1: return r.range(-8, 8) / 4.0; case 2: return 0.1 * r.range(-20, 20); case 3: return rand_double(r); default: return r.range(-30, 30) / 8.0; } }
  Interval itv() { double c = cst(); if (c != c || std::isinf(c)) c = 1.5; if (r.coin(15)) { double w = r.range(1, 4) / 8.0; double h = c + w; if (std::isinf(h)) h = c; return Interval(c, h); } return Interval(c); }
  const ExprNode& konst(int rows, int cols) {
    if (rows == 1 && cols == 1) return ExprConstant::new_scalar(itv());
    if (rows == 1 || cols == 1) { int n = rows * cols; IntervalVector v(n); for (int i = 0; i < n; i++) v[i] = itv(); return ExprConstant::new_vector(v, rows == 1); }
    IntervalMatrix m(rows, cols); for (int i = 0; i < rows; i++) for (int j = 0; j < cols; j++) m[i][j] = itv(); return ExprConstant::new_matrix(m);
  }
  const ExprNode& varleaf(int rows, int cols) {
    vector<const ExprNode*> cand;
    for (auto s : syms) if (s->dim.nb_rows() == rows && s->dim.nb_cols() == cols) cand.push_back(s);
    for (auto p : pool) if (p->dim.nb_rows() == rows && p->dim.nb_cols() == cols && !is_const(*p)) cand.push_back(p);
    if (rows == 1 && cols == 1) for (auto s : syms) {
      if (s->dim.is_vector()) cand.push_back(&(*s)[(int)r.below(s->dim.vec_size())]);
      else if (s->dim.is_matrix()) cand.push_back(&(*s)[(int)r.below(s->dim.nb_rows())][(int)r.below(s->dim.nb_cols())]);
    }
    if (!cand.empty()) return *cand[r.below(cand.size())];
    // build it from scalar leaves
    if (rows == 1 && cols == 1) return *syms[0];   // (cannot happen: a scalar candidate always exists)
    if (rows == 1 || cols == 1) { int n = rows * cols; Array<const ExprNode> a(n); for (int i = 0; i < n; i++) a.set_ref(i, varleaf(1, 1)); return ExprVector::new_(a, rows == 1 ? ExprVector::ROW : ExprVector::COL); }
    Array<const ExprNode> a(rows); for (int i = 0; i < rows; i++) a.set_ref(i, varleaf(1, cols)); return ExprVector::new_(a, ExprVector::COL);
  }
  const ExprNode& leaf(int rows, int cols) { if (r.coin(22)) return konst(rows, cols); return varleaf(rows, cols); }
  // in `allops` mode no operator node is built on constants only (the parser would fold it into an interval
  // constant computed by the interval library: legitimate, but not comparable exactly)
  const ExprNode& nc(const ExprNode& e, bool force = false) { if ((!allops && !force) || !is_const(e)) return e; return varleaf(e.dim.nb_rows(), e.dim.nb_cols()); }
  const ExprNode& gen(int rows, int cols, int depth) { const ExprNode& e = gen0(rows, cols, depth); if (r.coin(30)) pool.push_back(&e); return e; }
  const ExprNode& gen0(int rows, int cols, int depth) {
    if (depth <= 0 || r.coin(12)) return leaf(rows, cols);
    bool scalar = rows == 1 && cols == 1;
    if (scalar) {
      int k = r.below(allops ? 26 : 17);   // 0..16: operators of the exact evaluators; 17..25: sqrt, elementary functions, atan2, saw, real powers
      switch (k) {
        case 0: return nc(gen(1, 1, depth - 1)) + gen(1, 1, depth - 1);
        case 1: return nc(gen(1, 1, depth - 1)) - gen(1, 1, depth - 1);
        case 2: case 3: return nc(gen(1, 1, depth - 1)) * gen(1, 1, depth - 1);
        case 4: return gen(1, 1, depth - 1) / nc(gen(1, 1, depth - 1), true);
        case 5: return sqr(nc(gen(1, 1, depth - 1)));
        case 6: { int n = r.coin(20) ? r.range(5, 40) : r.range(-4, 4); const ExprNode& a = nc(gen(1, 1, depth - 1), n < 0); /* (no constant 0^-n: an empty constant cannot be evaluated) */ if (r.coin(20)) return ExprPower::new_(a, n); return pow(a, n); }
        case 7: return -nc(gen(1, 1, depth - 1));
        case 8: { int n = r.range(2, 3); return nc(gen(1, n, depth - 1)) * gen(n, 1, depth - 1); }
        case 9: { int n = r.coin(15) ? r.range(10, 13) : r.range(2, 3); bool row = r.coin(); const ExprNode& v = nc(gen(row ? 1 : n, row ? n : 1, depth > 1 ? 1 : 0)); return v[(int)r.below(n)]; }
        case 10: { int n = r.range(2, 3), m = r.range(2, 3); const ExprNode& M = nc(gen(n, m, depth - 1)); return M[(int)r.below(n)][(int)r.below(m)]; }
        case 11: return abs(nc(gen(1, 1, depth - 1)));
        case 12: return max(nc(gen(1, 1, depth - 1)), gen(1, 1, depth - 1));
        case 13: return min(nc(gen(1, 1, depth - 1)), gen(1, 1, depth - 1));
        case 14: return sign(nc(gen(1, 1, depth - 1)));
        case 15: return chi(nc(gen(1, 1, depth - 1)), gen(1, 1, depth - 1), gen(1, 1, depth - 1));
        case 16: return r.coin() ? (const ExprNode&)floor(nc(gen(1, 1, depth - 1))) : (const ExprNode&)ceil(nc(gen(1, 1, depth - 1)));
        case 17: return sqrt(nc(gen(1, 1, depth - 1), true));
        case 18: return exp(nc(gen(1, 1, depth - 1)));
        case 19: return log(nc(gen(1, 1, depth - 1)));
        case 20: { const ExprNode& a = nc(gen(1, 1, depth - 1)); switch (r.below(6)) { case 0: return cos(a); case 1: return sin(a); case 2: return tan(a); case 3: return acos(a); case 4: return asin(a); default: return atan(a); } }
        case 21: { const ExprNode& a = nc(gen(1, 1, depth - 1)); switch (r.below(6)) { case 0: return cosh(a); case 1: return sinh(a); case 2: return tanh(a); case 3: return acosh(a); case 4: return asinh(a); default: return atanh(a); } }
        case 22: return atan2(nc(gen(1, 1, depth - 1)), gen(1, 1, depth - 1));
        case 23: return saw(nc(gen(1, 1, depth - 1)));
        case 24: return pow(nc(gen(1, 1, depth - 1)), nc(gen(1, 1, depth - 1)));
        default: return pow(nc(gen(1, 1, depth - 1)), r.range(1, 9) / 4.0 + 0.125);
      }
    }
    bool vec = rows == 1 || cols == 1; int n = rows * cols;
    switch (r.below(vec ? 8 : 9)) {
      case 0: return nc(gen(rows, cols, depth - 1)) + gen(rows, cols, depth - 1);
      case 1: return nc(gen(rows, cols, depth - 1)) - gen(rows, cols, depth - 1);
      case 2: return nc(gen(1, 1, depth - 1)) * gen(rows, cols, depth - 1);
      case 3: return -nc(gen(rows, cols, depth - 1));
      case 4: return transpose(nc(gen(cols, rows, depth - 1)));
      case 5: { int k = r.range(2, 3); return nc(gen(rows, k, depth - 1)) * gen(k, cols, depth - 1); }
      case 6: if (vec) { // a range of a longer vector
                int extra = r.range(1, 2), first = r.range(0, extra); const ExprNode& v = nc(gen(rows == 1 ? 1 : n + extra, rows == 1 ? n + extra : 1, depth - 1));
                return v[rows == 1 ? DoubleIndex::cols(v.dim, first, first + n - 1) : DoubleIndex::rows(v.dim, first, first + n - 1)]; }
              { const ExprNode& M = nc(gen(rows + 1, cols + 1, depth - 1)); int i = r.range(0, 1), j = r.range(0, 1); return M[DoubleIndex::submatrix(M.dim, i, i + rows - 1, j, j + cols - 1)]; }
      case 7: if (!vec) { if (r.coin()) { int c1 = r.range(1, cols - 1); Array<const ExprNode> a(2); a.set_ref(0, gen(rows, c1, depth - 1)); a.set_ref(1, nc(gen(rows, cols - c1, depth - 1))); return ExprVector::new_(a, ExprVector::ROW); }
                          int r1 = r.range(1, rows - 1); Array<const ExprNode> a(2); a.set_ref(0, gen(r1, cols, depth - 1)); a.set_ref(1, nc(gen(rows - r1, cols, depth - 1))); return ExprVector::new_(a, ExprVector::COL); }
              // fall through
      default: {
        if (vec) { Array<const ExprNode> a(n); for (int i = 0; i < n; i++) a.set_ref(i, i == 0 ? nc(gen(1, 1, depth - 1)) : gen(1, 1, depth - 1)); return ExprVector::new_(a, rows == 1 ? ExprVector::ROW : ExprVector::COL); }
        if (r.coin()) { Array<const ExprNode> a(rows); for (int i = 0; i < rows; i++) a.set_ref(i, i == 0 ? nc(gen(1, cols, depth - 1)) : gen(1, cols, depth - 1)); return ExprVector::new_(a, ExprVector::COL); }
        Array<const ExprNode> a(cols); for (int j = 0; j < cols; j++) a.set_ref(j, j == 0 ? nc(gen(rows, 1, depth - 1)) : gen(rows, 1, depth - 1)); return ExprVector::new_(a, ExprVector::ROW); }
    }
  }
};

static Dim rand_dim(Rng& r) { switch (r.below(7)) { case 0: return Dim::col_vec(r.range(2, 3)); case 1: return Dim::row_vec(r.range(2, 3)); case 2: return Dim::matrix(r.range(2, 3), r.range(2, 3)); case 3: return Dim::col_vec(r.range(10, 13)); default: return Dim::scalar(); } }
static Array<const ExprSymbol>* make_args(Rng& r, RtGen& g, int& nvar) {
  int ns = r.range(1, 3); Array<const ExprSymbol>* a = new Array<const ExprSymbol>(ns); nvar = 0;
  static const char* names[] = {"x", "y", "z", "alpha", "X_1", "_v", "t0"};
  int base = r.below(4);
  for (int i = 0; i < ns; i++) { Dim d = rand_dim(r); const ExprSymbol& s = ExprSymbol::new_(names[(base + i) % 7], d); a->set_ref(i, s); g.syms.push_back(&s); nvar += d.size(); }
  return a;
}

// ------------------------------------------------------------------------------------------ reparse jobs
static string fun_tokens(const Function& f) { return vars_tok(f.args()) + " " + dump_fun(f); }
static string parse_function_file(const string& fn) { return guarded([&]() { Function g(fn.c_str()); return fun_tokens(g); }); }
static string parse_system_file(const string& fn, int simpl) { return guarded([&]() { System s(fn.c_str(), simpl); return sys_dump(s); }); }

static int g_case = 0; static long g_pid = 0;   // (pid of the harness, also inside the forked children: the files are removed at the end)
static string scratch(const char* ext) { return g_dir + "/mbx_" + to_string(g_pid) + "_" + to_string(g_case++ % 8) + ext; }

static void emit_fun_rt(const char* kind, const Function& f, int nvar, Rng& r, bool try_strings) {
  string text = f.minibex(false); string fn = scratch(".mbx"); spit(fn, text);
  string orig = fun_tokens(f); string pts = points(r, nvar);
  // string-based constructor when the text is a single `return`
  bool strings = false; vector<string> argdecl; string body;
  if (try_strings && text.find("_tmp_") == string::npos) {
    size_t p1 = text.find('('), p2 = text.find(")\n"), p3 = text.find("return "), p4 = text.rfind(";\nend");
    if (p1 != string::npos && p2 != string::npos && p3 != string::npos && p4 != string::npos && p2 < p3) {
      string a = text.substr(p1 + 1, p2 - p1 - 1); size_t q = 0; while (true) { size_t c = a.find(',', q); argdecl.push_back(a.substr(q, c == string::npos ? string::npos : c - q)); if (c == string::npos) break; q = c + 1; }
      body = text.substr(p3 + 7, p4 - p3 - 7); strings = true;
    }
  }
  Child c = isolated([&](int fd) {
    string res;
    if (strings) res = guarded([&]() { vector<const char*> av; for (auto& s : argdecl) av.push_back(s.c_str()); Function g((int)av.size(), &av[0], body.c_str()); return fun_tokens(g); });
    else res = parse_function_file(fn);
    wr(fd, res + "\n");
  });
  vector<string> rec = records(c, 1);
  if (toolarge(orig) || toolarge(rec[0])) { EMIT("mbxskip too-large\n"); return; }
  EMIT("mbxfun %s%s %s %s => %s\n", kind, strings ? "-strings" : "", orig.c_str(), pts.c_str(), rec[0].c_str());
}

static void emit_cons(const char* kind, const string& dump, int nvar, const string& pts) {
  // dump = vars box goal ctrs fctrs ops
  vector<string> t; { istringstream is(dump); string w; while (is >> w) t.push_back(w); }
  if (t.size() != 6 || t[3] == "-") return;
  EMIT("mbxcons %s %d %s %s %s %s\n", kind, nvar, t[3].c_str(), t[4].c_str(), t[5].c_str(), pts.c_str());
}

// serialise `s`, reload the text in a child, compare (flat) — and the structural comparison of the function bodies
static void emit_sys_rt(const char* kind, const System& s, Rng& r, int simpl) {
  string text = s.minibex(false); string fn = scratch(".mbx"); spit(fn, text);
  string orig = sys_dump(s); string pts = points(r, nvar_of(s));
  string ob_goal = s.goal ? fun_tokens(*s.goal) : string(), ob_f = s.nb_ctr > 0 ? fun_tokens(s.f_ctrs) : string();
  Child c = isolated([&](int fd) {
    string res = guarded([&]() {
      System s2(fn.c_str(), simpl); string d = sys_dump(s2);
      // bodies of the functions applied by the reloaded system
      string extra;
      if (s2.goal) { const Function* g = applied_function(*s2.goal); extra += "\n" + (g ? "parsed " + fun_tokens(*g) : string("parsed ") + fun_tokens(*s2.goal)); } else extra += "\n-";
      if (s2.nb_ctr > 0) { const Function* g = applied_function(s2.f_ctrs); extra += "\n" + (g ? "parsed " + fun_tokens(*g) : string("parsed ") + fun_tokens(s2.f_ctrs)); } else extra += "\n-";
      return d + extra;
    });
    wr(fd, res + "\n");
  });
  vector<string> rec = records(c, 1);
  if (getenv("VERIF_TRACE") && rec[0].compare(0, 7, "parsed ") != 0) fprintf(stderr, "RTSYS %s (line %ld) -> %s:\n%s\n", kind, emitted + 1, rec[0].c_str(), text.c_str());
  if (toolarge(orig) || toolarge(rec[0])) { EMIT("mbxskip too-large\n"); return; }
  EMIT("mbxsys flat %s %s %s => %s\n", kind, orig.c_str(), pts.c_str(), rec[0].c_str());
  emit_cons((string(kind) + "-orig").c_str(), orig, nvar_of(s), pts);
  if (rec[0].compare(0, 7, "parsed ") == 0) {
    emit_cons((string(kind) + "-reloaded").c_str(), rec[0].substr(7), nvar_of(s), pts);
    if (rec.size() >= 3) {
      if (s.goal && rec[1] != "-") EMIT("mbxfun %s-goal-body %s %s => %s\n", kind, ob_goal.c_str(), pts.c_str(), rec[1].c_str());
      if (s.nb_ctr > 0 && rec[2] != "-") EMIT("mbxfun %s-fctrs-body %s %s => %s\n", kind, ob_f.c_str(), pts.c_str(), rec[2].c_str());
    }
  }
}

// ------------------------------------------------------------------------------------------ text workloads
struct GenText { mbx::Program P; vector<string> toks; string text; mbx::RefResult gen, ref; bool inexact = false; };
static bool gen_text(Rng& r, GenText& g, bool noise, bool transcendental) {
  mbx::GenCfgM cfg; cfg.transcendental = transcendental; cfg.max_depth = r.range(1, 3); cfg.inexact_literals = !transcendental && r.coin(25); g.inexact = cfg.inexact_literals;
  mbx::SysGen sg(r, cfg); g.P = sg.program(); mbx::fix_order(g.P);
  // expectation of the generator: denotation of the tree it built
  try { mbx::Denoter D; g.gen.m = D.system(g.P); g.gen.t = mbx::RefResult::ACCEPT; }
  catch (mbx::Reject& e) { g.gen.t = mbx::RefResult::REJECT; g.gen.why = e.why; }
  catch (mbx::Unsupported& e) { g.gen.t = mbx::RefResult::UNSUPPORTED; g.gen.why = e.why; }
  mbx::Printer pr(&r, noise); pr.program(g.P); g.toks = pr.out; g.text = mbx::join_tokens(g.toks, noise ? &r : NULL);
  g.ref = mbx::read_system(g.text);
  return true;
}

static string ref_tokens(const mbx::RefResult& R) {
  switch (R.t) { case mbx::RefResult::ACCEPT: return "accept " + model_dump(R.m); case mbx::RefResult::REJECT: return "reject"; default: return "unsupported"; }
}

// parse `first` (any outcome), then `second` in the same process
static vector<string> parse_sequence(const string& first, const string& second, int simpl, bool strings_between, int wall = 20) {
  string f1 = scratch(".mbx"), f2 = scratch(".mbx"); spit(f1, first); spit(f2, second);
  Child c = isolated([&](int fd) {
    wr(fd, parse_system_file(f1, simpl) + "\n");
    if (strings_between) { string res = guarded([&]() { Function g("x", "y", "x+y^2"); return string("ok"); }); (void)res; }
    wr(fd, parse_system_file(f2, simpl) + "\n");
  }, wall);
  return records(c, 2);
}

// ------------------------------------------------------------------------------------------ main
static vector<string> list_bench(const string& root) {
  vector<string> out; vector<string> st{root};
  while (!st.empty()) {
    string d = st.back(); st.pop_back(); DIR* dp = opendir(d.c_str()); if (!dp) continue;
    while (dirent* e = readdir(dp)) { string n = e->d_name; if (n == "." || n == "..") continue; string p = d + "/" + n; struct stat sb; if (stat(p.c_str(), &sb) != 0) continue;
      if (S_ISDIR(sb.st_mode)) st.push_back(p); else if (n.size() > 4 && (n.substr(n.size() - 4) == ".bch" || n.substr(n.size() - 4) == ".mbx")) out.push_back(p); }
    closedir(dp);
  }
  sort(out.begin(), out.end()); return out;
}

int main(int argc, char** argv) {
  string wl = argc > 1 ? argv[1] : "rtfun";
  uint64_t seed = argc > 2 ? strtoull(argv[2], 0, 10) : 1;
  long n = argc > 3 ? atol(argv[3]) : 100;
  bool full = argc > 4 && string(argv[4]) == "full";
  { string a0 = argv[0]; size_t p = a0.rfind('/'); g_dir = (p == string::npos ? string(".") : a0.substr(0, p)) + "/runs"; mkdir(g_dir.c_str(), 0755); }
  g_pid = (long)getpid();
  Rng r(seed * 7919 + 104729 * (uint64_t)wl.size() + wl[0]);

  if (wl == "rtfun") {
    for (long it = 0; it < n; it++) {
      try {
        bool all = r.coin(55); RtGen g(r, all, r.range(1, 4)); int nvar; Array<const ExprSymbol>* a = make_args(r, g, nvar);
        int rows = 1, cols = 1; if (r.coin(40)) { Dim d = rand_dim(r); if (d.size() <= 9) { rows = d.nb_rows(); cols = d.nb_cols(); } }
        const ExprNode& e = g.gen(rows, cols, g.max_depth);
        Function f(*a, e, r.coin(20) ? NULL : "f");
        emit_fun_rt(all ? "rt-all" : "rt-rat", f, nvar, r, r.coin(35));
      } catch (std::exception& e) { EMIT("mbxskip builderror-%s\n", slug(typeid(e).name()).c_str()); }
    }
  } else if (wl == "rtsys") {
    for (long it = 0; it < n; it++) {
      try {
        bool all = r.coin(50); RtGen g(r, all, r.range(1, 3)); int nvar; Array<const ExprSymbol>* a = make_args(r, g, nvar);
        SystemFactory fac; IntervalVector box(nvar);
        for (int i = 0; i < nvar; i++) { switch (r.below(6)) { case 0: box[i] = Interval::all_reals(); break; case 1: box[i] = Interval(NEG_INFINITY, r.range(-5, 5)); break; case 2: box[i] = Interval(r.range(-5, 5) / 4.0, POS_INFINITY); break;
            case 3: { double c = rand_double(r); if (std::isinf(c) || c != c) c = 0.1; box[i] = Interval(c); break; } default: { double lo = r.range(-40, 40) / 8.0; box[i] = Interval(lo, lo + r.range(0, 40) / 8.0); } } }
        fac.add_var(*a, box);
        bool hasgoal = r.coin(40); if (hasgoal) fac.add_goal(g.nc(g.gen(1, 1, g.max_depth), true));
        int nc = r.range(r.coin(15) ? 0 : 1, 4);
        for (int k = 0; k < nc; k++) {
          int rows = 1, cols = 1; if (r.coin(30)) { Dim d = rand_dim(r); if (d.size() <= 9) { rows = d.nb_rows(); cols = d.nb_cols(); } }
          const ExprNode& e = g.nc(g.gen(rows, cols, g.max_depth), true); CmpOp op = (CmpOp)r.below(5);
          fac.add_ctr(ExprCtr(e, op));
        }
        if (nc == 0 && !hasgoal) continue;
        System s(fac);
        { string d = sys_dump(s); if (d.find("k:E") != string::npos || d.find("/E") != string::npos || d.find("E/") != string::npos) { EMIT("mbxskip empty-constant-after-simplification\n"); continue; } }
        emit_sys_rt(all ? "rt-all" : "rt-rat", s, r, r.coin(70) ? 0 : 1);
      } catch (std::exception& e) { EMIT("mbxskip builderror-%s\n", slug(typeid(e).name()).c_str()); }
    }
  } else if (wl == "api") {
    // one function per operator keyword / printer corner
    struct Case { const char* kind; std::function<const ExprNode&(const ExprSymbol&, const ExprSymbol&, const ExprSymbol&)> mk; };
    vector<Case> cs = {
      {"op-sign", [](const ExprSymbol& x, const ExprSymbol&, const ExprSymbol&) -> const ExprNode& { return sign(x); }},
      {"op-abs", [](const ExprSymbol& x, const ExprSymbol&, const ExprSymbol&) -> const ExprNode& { return abs(x); }},
      {"op-sqr", [](const ExprSymbol& x, const ExprSymbol&, const ExprSymbol&) -> const ExprNode& { return sqr(x); }},
      {"op-sqrt", [](const ExprSymbol& x, const ExprSymbol&, const ExprSymbol&) -> const ExprNode& { return sqrt(x); }},
      {"op-exp", [](const ExprSymbol& x, const ExprSymbol&, const ExprSymbol&) -> const ExprNode& { return exp(x); }},
      {"op-log", [](const ExprSymbol& x, const ExprSymbol&, const ExprSymbol&) -> const ExprNode& { return log(x); }},
      {"op-cos", [](const ExprSymbol& x, const ExprSymbol&, const ExprSymbol&) -> const ExprNode& { return cos(x); }},
      {"op-sin", [](const ExprSymbol& x, const ExprSymbol&, const ExprSymbol&) -> const ExprNode& { return sin(x); }},
      {"op-tan", [](const ExprSymbol& x, const ExprSymbol&, const ExprSymbol&) -> const ExprNode& { return tan(x); }},
      {"op-acos", [](const ExprSymbol& x, const ExprSymbol&, const ExprSymbol&) -> const ExprNode& { return acos(x); }},
      {"op-asin", [](const ExprSymbol& x, const ExprSymbol&, const ExprSymbol&) -> const ExprNode& { return asin(x); }},
      {"op-atan", [](const ExprSymbol& x, const ExprSymbol&, const ExprSymbol&) -> const ExprNode& { return atan(x); }},
      {"op-cosh", [](const ExprSymbol& x, const ExprSymbol&, const ExprSymbol&) -> const ExprNode& { return cosh(x); }},
      {"op-sinh", [](const ExprSymbol& x, const ExprSymbol&, const ExprSymbol&) -> const ExprNode& { return sinh(x); }},
      {"op-tanh", [](const ExprSymbol& x, const ExprSymbol&, const ExprSymbol&) -> const ExprNode& { return tanh(x); }},
      {"op-acosh", [](const ExprSymbol& x, const ExprSymbol&, const ExprSymbol&) -> const ExprNode& { return acosh(x); }},
      {"op-asinh", [](const ExprSymbol& x, const ExprSymbol&, const ExprSymbol&) -> const ExprNode& { return asinh(x); }},
      {"op-atanh", [](const ExprSymbol& x, const ExprSymbol&, const ExprSymbol&) -> const ExprNode& { return atanh(x); }},
      {"op-floor", [](const ExprSymbol& x, const ExprSymbol&, const ExprSymbol&) -> const ExprNode& { return floor(x); }},
      {"op-ceil", [](const ExprSymbol& x, const ExprSymbol&, const ExprSymbol&) -> const ExprNode& { return ceil(x); }},
      {"op-saw", [](const ExprSymbol& x, const ExprSymbol&, const ExprSymbol&) -> const ExprNode& { return saw(x); }},
      {"op-minus", [](const ExprSymbol& x, const ExprSymbol&, const ExprSymbol&) -> const ExprNode& { return -x; }},
      {"op-trans", [](const ExprSymbol&, const ExprSymbol&, const ExprSymbol& v) -> const ExprNode& { return transpose(v); }},
      {"op-add", [](const ExprSymbol& x, const ExprSymbol& y, const ExprSymbol&) -> const ExprNode& { return x + y; }},
      {"op-sub", [](const ExprSymbol& x, const ExprSymbol& y, const ExprSymbol&) -> const ExprNode& { return x - y; }},
      {"op-mul", [](const ExprSymbol& x, const ExprSymbol& y, const ExprSymbol&) -> const ExprNode& { return x * y; }},
      {"op-div", [](const ExprSymbol& x, const ExprSymbol& y, const ExprSymbol&) -> const ExprNode& { return x / y; }},
      {"op-max", [](const ExprSymbol& x, const ExprSymbol& y, const ExprSymbol&) -> const ExprNode& { return ibex::max((const ExprNode&)x, (const ExprNode&)y); }},
      {"op-min", [](const ExprSymbol& x, const ExprSymbol& y, const ExprSymbol&) -> const ExprNode& { return ibex::min((const ExprNode&)x, (const ExprNode&)y); }},
      {"op-atan2", [](const ExprSymbol& x, const ExprSymbol& y, const ExprSymbol&) -> const ExprNode& { return atan2(x, y); }},
      {"op-chi", [](const ExprSymbol& x, const ExprSymbol& y, const ExprSymbol&) -> const ExprNode& { return chi(x, y, x + y); }},
      {"op-powexpr", [](const ExprSymbol& x, const ExprSymbol& y, const ExprSymbol&) -> const ExprNode& { return pow(x, y); }},
      {"pow3", [](const ExprSymbol& x, const ExprSymbol&, const ExprSymbol&) -> const ExprNode& { return pow(x, 3); }},
      {"pow-neg2", [](const ExprSymbol& x, const ExprSymbol&, const ExprSymbol&) -> const ExprNode& { return pow(x, -2); }},
      {"pow-neg2-times-y", [](const ExprSymbol& x, const ExprSymbol& y, const ExprSymbol&) -> const ExprNode& { return pow(x, -2) * y; }},
      {"pow0", [](const ExprSymbol& x, const ExprSymbol&, const ExprSymbol&) -> const ExprNode& { return ExprPower::new_(x, 0); }},
      {"pow1-node", [](const ExprSymbol& x, const ExprSymbol&, const ExprSymbol&) -> const ExprNode& { return ExprPower::new_(x, 1); }},
      {"pow2-node", [](const ExprSymbol& x, const ExprSymbol&, const ExprSymbol&) -> const ExprNode& { return ExprPower::new_(x, 2); }},
      {"pow12", [](const ExprSymbol& x, const ExprSymbol&, const ExprSymbol&) -> const ExprNode& { return pow(x, 12); }},
      {"pow12-after-hex-constant", [](const ExprSymbol& x, const ExprSymbol& y, const ExprSymbol&) -> const ExprNode& { return 0.5 * y + pow(x, 12); }},
      {"pow-neg3-after-hex-constant", [](const ExprSymbol& x, const ExprSymbol& y, const ExprSymbol&) -> const ExprNode& { return 0.5 * y + pow(x, -3); }},
      {"index11-after-hex-constant", [](const ExprSymbol& x, const ExprSymbol&, const ExprSymbol& v) -> const ExprNode& { return 0.5 * x + v[10]; }},
      {"index-of-expression-with-constant", [](const ExprSymbol&, const ExprSymbol&, const ExprSymbol& v) -> const ExprNode& { return (0.30000000000000004 * v)[1]; }},
      {"index-of-shared-expression", [](const ExprSymbol& x, const ExprSymbol&, const ExprSymbol& v) -> const ExprNode& { const ExprNode& w = x * v; return w[1] + w[2]; }},
      {"negative-constant-factor", [](const ExprSymbol& x, const ExprSymbol&, const ExprSymbol&) -> const ExprNode& { return ExprConstant::new_scalar(-0.5) * sin(x); }},
      {"negative-constant-squared", [](const ExprSymbol& x, const ExprSymbol&, const ExprSymbol&) -> const ExprNode& { return x + sqr(ExprConstant::new_scalar(-3)); }},
      {"negative-constant-power4", [](const ExprSymbol& x, const ExprSymbol&, const ExprSymbol&) -> const ExprNode& { return x + ExprPower::new_(ExprConstant::new_scalar(-0.5), 4); }},
      {"minus-squared", [](const ExprSymbol& x, const ExprSymbol&, const ExprSymbol&) -> const ExprNode& { return sqr(-x) + ExprPower::new_(-x, 3); }},
      {"interval-upper-bound-negzero", [](const ExprSymbol& x, const ExprSymbol&, const ExprSymbol&) -> const ExprNode& { return x + ExprConstant::new_scalar(Interval(-1, -0.0)); }},
      {"empty-constant", [](const ExprSymbol& x, const ExprSymbol&, const ExprSymbol&) -> const ExprNode& { return x + ExprConstant::new_scalar(Interval::empty_set()); }},
      {"unbounded-constants", [](const ExprSymbol& x, const ExprSymbol&, const ExprSymbol&) -> const ExprNode& { return (x + ExprConstant::new_scalar(Interval::all_reals())) * ExprConstant::new_scalar(Interval::pos_reals()) + ExprConstant::new_scalar(Interval::neg_reals()); }},
      {"extreme-constants", [](const ExprSymbol& x, const ExprSymbol&, const ExprSymbol&) -> const ExprNode& { return (x + DBL_MAX) * 4.9406564584124654e-324 - ExprConstant::new_scalar(Interval(-DBL_MAX, DBL_MIN)); }},
      {"shared-subexpression", [](const ExprSymbol& x, const ExprSymbol& y, const ExprSymbol&) -> const ExprNode& { const ExprNode& e = x + y; return e * e + cos(e); }},
      {"shared-vector-constant", [](const ExprSymbol& x, const ExprSymbol&, const ExprSymbol& v) -> const ExprNode& { IntervalVector c(12, Interval(1, 2)); c[3] = Interval(0.1); const ExprConstant& k = ExprConstant::new_vector(c, false); return transpose(k) * v + x * (transpose(k) * v); }},
    };
    for (auto& c : cs) {
      try {
        const ExprSymbol& x = ExprSymbol::new_("x"); const ExprSymbol& y = ExprSymbol::new_("y"); const ExprSymbol& v = ExprSymbol::new_("v", Dim::col_vec(12));
        Function f(x, y, v, c.mk(x, y, v), "f");
        emit_fun_rt(c.kind, f, 14, r, false);
      } catch (std::exception& e) { EMIT("mbxskip builderror-%s-%s\n", c.kind, slug(typeid(e).name()).c_str()); }
    }
    // systems: row-vector / matrix variables, unbounded and degenerate domains, vector and matrix constraints, all comparison operators
    try {
      const ExprSymbol& x = ExprSymbol::new_("x"); const ExprSymbol& w = ExprSymbol::new_("w", Dim::row_vec(3)); const ExprSymbol& M = ExprSymbol::new_("M", Dim::matrix(2, 3));
      SystemFactory fac; IntervalVector box(10); box[0] = Interval(-1, 0.25); box[1] = Interval::all_reals(); box[2] = Interval(NEG_INFINITY, 2); box[3] = Interval(0.1);
      for (int i = 4; i < 10; i++) box[i] = Interval(i, i + 0.5);
      fac.add_var(x, box.subvector(0, 0)); fac.add_var(w, box.subvector(1, 3)); fac.add_var(M, box.subvector(4, 9));
      fac.add_goal(x * (w * transpose(w)));
      fac.add_ctr(ExprCtr(M * transpose(w), GEQ)); fac.add_ctr(ExprCtr(w[1] - x, LT)); fac.add_ctr(ExprCtr(M - M, EQ)); fac.add_ctr(ExprCtr(x, GT)); fac.add_ctr(ExprCtr(w, LEQ));
      for (int k = 0; k < 8; k++) fac.add_ctr(ExprCtr(x - (double)k, LEQ));   // more than 10 components: `_x_0[10]`
      System s(fac); emit_sys_rt("sys-dims-and-ops", s, r, 0);
      const ExprSymbol& z = ExprSymbol::new_("z"); SystemFactory fac2; fac2.add_var(z, Interval(-1, -0.0)); fac2.add_ctr(ExprCtr(z + 1, GEQ)); System s2(fac2); emit_sys_rt("sys-domain-upper-bound-negzero", s2, r, 0);
    } catch (std::exception& e) { EMIT("mbxskip builderror-sys-%s\n", slug(typeid(e).name()).c_str()); }
  } else if (wl == "hex") {
    vector<double> L = lattice(); L.push_back(-0.0);
    for (long it = 0; it < n; it++) {
      double a, b;
      if (it < (long)L.size()) { a = b = L[it]; if (std::isinf(a)) { a = a > 0 ? 1.0 : NEG_INFINITY; b = std::isinf(b) && b < 0 ? -1.0 : POS_INFINITY; } }
      else { a = r.coin() ? L[r.below(L.size())] : rand_double(r); b = r.coin() ? L[r.below(L.size())] : rand_double(r); if (a != a || b != b) continue; if (a > b) std::swap(a, b); if (r.coin(10)) b = a; }
      if (a == POS_INFINITY || b == NEG_INFINITY) continue;
      Interval I(a, b); if (I.is_empty()) continue;
      const ExprSymbol& x = ExprSymbol::new_("x"); Function f(x, x + ExprConstant::new_scalar(I), "f");
      string text = f.minibex(false); size_t p1 = text.find("(x+"), p2 = text.rfind(");");
      if (p1 == string::npos || p2 == string::npos) { EMIT("mbxskip hex-text-shape\n"); continue; }
      string ctext = text.substr(p1 + 3, p2 - p1 - 3);
      EMIT("hexitv %s %s %s %d => %s\n", rawhex(I.lb()).c_str(), rawhex(I.ub()).c_str(), rawhex(I.mid()).c_str(), I.is_degenerated() ? 1 : 0, ctext.c_str());
      string fn = scratch(".mbx"); spit(fn, text);
      Child c = isolated([&](int fd) { wr(fd, guarded([&]() { Function g(fn.c_str()); const ExprBinaryOp* bo = dynamic_cast<const ExprBinaryOp*>(&g.expr()); const ExprConstant* k = bo ? dynamic_cast<const ExprConstant*>(&bo->right) : NULL;
                                                           if (!k) return string("noconstant"); const Interval& J = k->get_value(); return J.is_empty() ? string("E") : rawhex(J.lb()) + ":" + rawhex(J.ub()); }) + "\n"); });
      EMIT("hexread %s => %s\n", ctext.c_str(), records(c, 1)[0].c_str());
      emit_fun_rt("hexconst", f, 1, r, false);
    }
  } else if (wl == "text") {
    for (long it = 0; it < n; it++) {
      if (g_timeouts > MAX_TIMEOUTS) { EMIT("mbxstop too-many-timeouts\n"); break; }
      bool transc = r.coin(55); GenText g; gen_text(r, g, r.coin(70), transc);
      string gm = ref_tokens(g.gen), rm = ref_tokens(g.ref);
      if (gm != rm) { EMIT("mbxself print-read %s => %s\n", gm.c_str(), rm.c_str()); if (getenv("VERIF_TRACE")) fprintf(stderr, "SELF MISMATCH text:\n%s\n gen: %s (%s)\n ref: %s (%s)\n", g.text.c_str(), gm.substr(0, 300).c_str(), g.gen.why.c_str(), rm.substr(0, 300).c_str(), g.ref.why.c_str()); continue; }
      if (g.ref.t != mbx::RefResult::ACCEPT) { EMIT("mbxskip generated-text-%s-%s\n", g.ref.t == mbx::RefResult::REJECT ? "rejected-by-reference" : "unsupported-by-reference", slug(g.ref.why, 40).c_str()); if (getenv("VERIF_TRACE")) fprintf(stderr, "SKIP %s\n%s\n", g.ref.why.c_str(), g.text.c_str()); continue; }
      // level 1 (the default of the library) only without elementary functions: the simplifier folds constant sub-expressions through
      // them with the interval library, which no exact evaluator can follow (simplification is the subject of C11)
      int simpl = (!transc && !g.inexact && r.coin(40)) ? 1 : 0; /* (nor with literals that are not binary64 numbers: their two-sided tolerance does not survive re-association) */ int nv = g.ref.m.nvar(); string pts = points(r, nv);
      string fn = scratch(".mbx"); spit(fn, g.text);
      Child c = isolated([&](int fd) {
        string res = guarded([&]() { System s(fn.c_str(), simpl); string d = sys_dump(s);
          // round trip of the loaded system
          string text2 = s.minibex(false); string fn2 = fn + ".rt"; spit(fn2, text2);
          string rt = guarded([&]() { System s2(fn2.c_str(), 0); return sys_dump(s2); });
          return d + "\n" + rt; });
        wr(fd, res + "\n");
      });
      vector<string> rec = records(c, 1);
      string exp = model_dump(g.ref.m);
      if (toolarge(exp) || toolarge(rec[0])) { EMIT("mbxskip too-large\n"); continue; }
      if (getenv("VERIF_TRACE")) fprintf(stderr, "TEXT %ld (line %ld):\n%s\n", it, emitted + 1, g.text.c_str());
      EMIT("mbxsys strict text%d %s %s => %s\n", simpl, exp.c_str(), pts.c_str(), rec[0].c_str());
      if (rec[0].compare(0, 7, "parsed ") == 0) {
        emit_cons("text-loaded", rec[0].substr(7), nv, pts);
        if (rec.size() >= 2) EMIT("mbxsys flat rt-text %s %s => %s\n", rec[0].substr(7).c_str(), pts.c_str(), rec[1].c_str());
      }
    }
  } else if (wl == "ftext") {
    // texts of function files: constants + functions (the first one is the function loaded), read by Function(filename)
    for (long it = 0; it < n; it++) {
      bool transc = r.coin(50); mbx::GenCfgM cfg; cfg.transcendental = transc; cfg.max_depth = r.range(1, 3); mbx::SysGen sg(r, cfg);
      mbx::Program P = sg.program(); mbx::fix_order(P);
      if (P.funcs1.empty() && P.funcs2.empty()) { EMIT("mbxskip no-function-generated\n"); continue; }
      // keep the constants and the functions only (in declaration order)
      mbx::Program Q; Q.has_consts = P.has_consts; Q.consts = P.consts; Q.funcs1 = P.funcs1; Q.funcs1.insert(Q.funcs1.end(), P.funcs2.begin(), P.funcs2.end());
      bool noise = r.coin(60); mbx::Printer pr(&r, noise); pr.program(Q); string text = mbx::join_tokens(pr.out, noise ? &r : NULL);
      mbx::RefResult R = mbx::read_function(text);
      mbx::RefResult G; try { mbx::Denoter D; G.m = mbx::Denoter_function(D, Q); G.t = mbx::RefResult::ACCEPT; } catch (mbx::Reject& e) { G.t = mbx::RefResult::REJECT; } catch (mbx::Unsupported& e) { G.t = mbx::RefResult::UNSUPPORTED; }
      string gm = G.t == mbx::RefResult::ACCEPT ? G.m.vars_tok() + " " + G.m.goal_tok() : string("-"), rm = R.t == mbx::RefResult::ACCEPT ? R.m.vars_tok() + " " + R.m.goal_tok() : string("-");
      if (gm != rm || G.t != R.t) { EMIT("mbxself print-read-function %s => %s\n", gm.c_str(), rm.c_str()); if (getenv("VERIF_TRACE")) fprintf(stderr, "SELF MISMATCH function text (%s):\n%s\n", R.why.c_str(), text.c_str()); continue; }
      if (R.t != mbx::RefResult::ACCEPT) { EMIT("mbxskip generated-function-text-not-accepted-by-reference-%s\n", slug(R.why, 40).c_str()); continue; }
      string fn = scratch(".mbx"); spit(fn, text);
      Child c = isolated([&](int fd) { wr(fd, parse_function_file(fn) + "\n"); }, 4);
      vector<string> rec = records(c, 1);
      if (getenv("VERIF_TRACE")) fprintf(stderr, "TEXT %ld (line %ld):\n%s\n", it, emitted + 1, text.c_str());
      EMIT("mbxfun ftext %s %s => %s\n", rm.c_str(), points(r, R.m.nvar()).c_str(), rec[0].c_str());
    }
  } else if (wl == "mutate") {
    for (long it = 0; it < n; it++) {
      if (g_timeouts > MAX_TIMEOUTS) { EMIT("mbxstop too-many-timeouts\n"); break; }
      GenText g; gen_text(r, g, false, r.coin(50));
      if (g.ref.t != mbx::RefResult::ACCEPT || ref_tokens(g.gen) != ref_tokens(g.ref)) { EMIT("mbxskip base-text-not-accepted\n"); continue; }
      int nm = full ? 6 : 3;
      if (getenv("VERIF_TRACE")) fprintf(stderr, "BASE %ld (line %ld):\n%s\n", it, emitted + 1, g.text.c_str());
      for (int k = 0; k < nm; k++) {
        string what; vector<string> mt = mbx::mutate(g.toks, r, what); string mtext = mbx::join_tokens(mt, NULL);
        if (mtext == g.text) continue;
        mbx::outer_seen() = false;
        mbx::RefResult R = mbx::read_system(mtext);
        bool outer = mbx::outer_seen();
        int nv = R.t == mbx::RefResult::ACCEPT ? R.m.nvar() : 0; string pts = points(r, nv);
        vector<string> rec = parse_sequence(mtext, g.text, 0, r.coin(20), 4);
        if (outer && R.t == mbx::RefResult::ACCEPT && rec[0].compare(0, 7, "parsed ") != 0) { // an outer product column*row: the numeric layer cannot hold it (recorded finding)
          EMIT("mbxouter %s => %s\n", what.c_str(), rec[0].substr(0, rec[0].find(' ')).c_str()); continue; }
        if (getenv("VERIF_TRACE")) fprintf(stderr, "MUT %ld.%d %s ref=%d(%s):\n%s\n", it, k, what.c_str(), (int)R.t, R.why.c_str(), mtext.c_str());
        string rt = ref_tokens(R);
        if (toolarge(rt) || toolarge(rec[0]) || toolarge(rec[1])) { EMIT("mbxskip too-large\n"); continue; }
        if (R.t == mbx::RefResult::ACCEPT) EMIT("mbxmut %s %s %s => %s\n", what.c_str(), rt.c_str(), pts.c_str(), rec[0].c_str());
        else EMIT("mbxmut %s %s => %s\n", what.c_str(), rt.c_str(), rec[0].c_str());
        // the original text must still be read correctly afterwards, in the same process
        string pts2 = points(r, g.ref.m.nvar()); string first = rec[0].substr(0, rec[0].find(' '));
        EMIT("mbxsys strict after-%s %s %s => %s\n", slug(first, 20).c_str(), model_dump(g.ref.m).c_str(), pts2.c_str(), rec[1].c_str());
      }
    }
  } else if (wl == "corner") {
    #include "mbx_corner.h"
  } else if (wl == "bench") {
    string repo = getenv("VERIF_REPO") ? getenv("VERIF_REPO") : "/repo";
    vector<string> files = list_bench(repo + "/benchs"); vector<string> t2 = list_bench(repo + "/tests/minibex"); files.insert(files.end(), t2.begin(), t2.end());
    size_t limit = full ? 12000 : 4000;
    vector<string> sel; for (auto& f : files) { struct stat sb; if (stat(f.c_str(), &sb) == 0 && (size_t)sb.st_size <= limit) sel.push_back(f); }
    EMIT("mbxskip bench-files-%zu-selected-%zu\n", files.size(), sel.size());
    // quick tier: a seed-dependent sample; `full`: all selected files
    vector<string> run; if (full || (long)sel.size() <= n) run = sel; else { for (long k = 0; k < n; k++) run.push_back(sel[r.below(sel.size())]); sort(run.begin(), run.end()); run.erase(unique(run.begin(), run.end()), run.end()); }
    for (auto& f : run) {
      string rel = f.substr(repo.size());
      Child c = isolated([&](int fd) {
        string res = guarded([&]() { System s(f.c_str()); string d = sys_dump(s);
          string text2 = s.minibex(false); string fn2 = scratch(".rt"); spit(fn2, text2);
          string rt = guarded([&]() { System s2(fn2.c_str(), 0); return sys_dump(s2); });
          return to_string(s.nb_var) + "\n" + d + "\n" + rt; });
        wr(fd, res + "\n");
      }, 30, 2048);
      vector<string> rec = records(c, 1);
      string first = rec[0].substr(0, rec[0].find(' '));
      EMIT("mbxload %s => %s\n", rel.c_str(), first.c_str());
      if (first == "parsed" && rec.size() >= 3) {
        int nv = atoi(rec[0].c_str() + 7); string pts = points(r, nv, 2);
        if (toolarge(rec[1]) || toolarge(rec[2])) { EMIT("mbxskip too-large\n"); continue; }
        EMIT("mbxsys flat bench:%s %s %s => %s\n", slug(rel, 50).c_str(), rec[1].c_str(), pts.c_str(), rec[2].c_str());
        emit_cons("bench-loaded", rec[1], nv, pts);
      }
    }
  } else { fprintf(stderr, "unknown workload\n"); return 2; }
  for (int k = 0; k < 8; k++) { string b = g_dir + "/mbx_" + to_string(g_pid) + "_" + to_string(k); for (const char* e : {".mbx", ".mbx.rt", ".rt"}) unlink((b + e).c_str()); }
  fprintf(stderr, "emitted %ld\n", emitted);
  return 0;
}
