// C07 (+ optimizer half of C18): the global optimizer.  Real Optimizer objects assembled by hand (no LP library in this
// configuration) on problems whose global minimum is known by construction.
//
//   optrun <fam> <cfg> <obj dag> <ctr dags |> <specs |> <box> <eps_h> <eps_x> <rel_eps_f> <abs_eps_f> <init loup> <rigor>
//          <planted point | -> <sample points , | -> <certificate | -> <planted point is a global minimiser 1/0>  =>  <status> <uplo> <loup> <loup point (box)> <nb_cells>
//   optdefault ... (same fields)                          DefaultOptimizer, only when it ran (it needs an LP library)
//   optresumeint ... (same fields)                        state saved at an interruption (status TIME_OUT), read back from the COV file
//   optresume <same inputs> <chain k1.k2..> <interrupted states: uplo~loup~point joined by ,> => <status> <uplo> <loup> <point> <nb_cells>
//   optresumefresh <n> <extended> <nb boxes> => ok | CRASH:signal | MISMATCH | ERROR      a CovOptimData not yet filled by an optimizer: save + reload (child process)
//   optcover <fam> <cfg> <box> <init loup> <events , > => <status> <uplo> <loup>      log of a search through wrappers: T~cell (top) B~left~right (halves) O~cell (pop)
//          C~in~out (contractor) P~cell (push), all on extended boxes (goal coordinate last)
//   opterror <fam> <cfg> => <message>                     the library aborted (ibex_error) or threw
//
//   certificate:  <c>#<sos>#<lin>    sos = items `w^<dag of q>` joined by & (or -);   lin = items `lam^<slack>` joined by & (or -)
//                 slack: L<k> = x_k - lo_k,  U<k> = hi_k - x_k,  C<j> = slack of inequality j (-g for <=, g for >=),
//                        P<j> = eps_h - h_j,  M<j> = eps_h + h_j  (equality j, relaxed)
//                 meaning:  objective == c + sum w q^2 + sum lam slack   (as polynomials; w, lam >= 0)  => objective >= c on the feasible set
#include "common.h"
#include "expr_io.h"
#include <sys/stat.h>
#include <unistd.h>
using namespace ibex; using namespace vh; using namespace std;

namespace ibex { namespace verif { extern long optimizer_cell_budget; } }

static long emitted = 0;
#define EMIT(...) do { printf(__VA_ARGS__); emitted++; } while (0)

static double dy(Rng& r, int lo, int hi, int den) { return r.range(lo, hi) / (double)den; }
static string ptoks(const vector<Vector>& v) { if (v.empty()) return "-"; string s; for (size_t i = 0; i < v.size(); i++) { if (i) s += ","; s += ptok(v[i]); } return s; }
static const char* spec_of(CmpOp op) { switch (op) { case LT: return "lt"; case LEQ: return "leq"; case EQ: return "eq"; case GEQ: return "geq"; default: return "gt"; } }
static const char* status_name(Optimizer::Status s) {
  switch (s) { case Optimizer::SUCCESS: return "SUCCESS"; case Optimizer::INFEASIBLE: return "INFEASIBLE"; case Optimizer::NO_FEASIBLE_FOUND: return "NO_FEASIBLE_FOUND";
    case Optimizer::UNBOUNDED_OBJ: return "UNBOUNDED_OBJ"; case Optimizer::TIME_OUT: return "TIME_OUT"; default: return "UNREACHED_PREC"; }
}
static string sanitize(string m) { for (auto& ch : m) if (ch == ' ' || ch == '\n' || ch == '\t') ch = '_'; return m; }

// ------------------------------------------------------------------------------------------------ problems
struct Prob {
  string fam;
  int n = 0;
  Array<const ExprSymbol>* x = 0;
  SystemFactory* fac = 0;
  System* sys = 0;
  IntervalVector box;          // the initial box of the search (inside sys->box)
  bool has_p = false; Vector p;     // planted point: feasible for the eps_h-relaxed problem (global minimiser when a certificate is given)
  vector<Vector> pts;               // other points worth testing (feasible or not)
  string cert = "-";
  bool pmin = false;                // without certificate: the planted point is claimed to be a global minimiser of the relaxed problem
  bool has_eq = false;
  int nctr = 0;
  string obj, ctrs, specs;          // dumped from the System (constraints flattened: one scalar constraint per component)
  vector<pair<const ExprNode*, CmpOp> > flat;   // the scalar constraints, in order; finish() declares them (possibly grouped into vector-valued constraints)
  bool vec = false;                 // group runs of constraints with the same operator into ONE vector-valued constraint of the System
  bool want_rigor = false;
  void addc(const ExprCtr& c) { flat.push_back(make_pair(&c.e, c.op)); }
  Prob() : box(1), p(1) {}
};

static Interval eval_at(const Array<const ExprSymbol>& x, const ExprNode& e, const Vector& p) {
  int n = x.size(); Array<const ExprSymbol> cp(n); for (int i = 0; i < n; i++) cp.set_ref(i, ExprSymbol::new_(x[i].name, Dim::scalar()));
  Function tmp(cp, ExprCopy().copy(x, cp, e), "t");
  return tmp.eval(IntervalVector(p));
}

struct Cert {
  double c = 0; vector<string> sos, lin;
  void add_sos(double w, const string& dag) { sos.push_back(hex(w) + "^" + dag); }
  void add_lin(double lam, const string& sl) { lin.push_back(hex(lam) + "^" + sl); }
  string str() const {
    string s = hex(c) + "#";
    if (sos.empty()) s += "-"; for (size_t i = 0; i < sos.size(); i++) { if (i) s += "&"; s += sos[i]; }
    s += "#";
    if (lin.empty()) s += "-"; for (size_t i = 0; i < lin.size(); i++) { if (i) s += "&"; s += lin[i]; }
    return s;
  }
};

static void new_vars(Prob& P, int n) {
  P.n = n; P.x = new Array<const ExprSymbol>(n);
  for (int i = 0; i < n; i++) P.x->set_ref(i, ExprSymbol::new_(("x" + to_string(i)).c_str(), Dim::scalar()));
  P.fac = new SystemFactory();
}

// a box around the point: components containing p_i (interior, on a bound, degenerate), sometimes large
static IntervalVector box_with(Rng& r, const Vector& p) {
  IntervalVector b(p.size());
  for (int i = 0; i < p.size(); i++) {
    double lo = p[i] - r.range(1, 16) / 8.0, hi = p[i] + r.range(1, 16) / 8.0;
    switch (r.below(12)) { case 0: lo = p[i]; break; case 1: hi = p[i]; break; case 2: if (p.size() > 1) lo = hi = p[i]; break; case 3: lo = p[i] - 1000; hi = p[i] + 500; break; default: break; }
    b[i] = Interval(lo, hi);
  }
  return b;
}

// 0..k random constraints (built with ExprGen) satisfied with a margin at p; they do not change the minimiser
static bool add_random_ctrs(Rng& r, Prob& P, const Vector& p, int k) {
  for (int j = 0; j < k; j++) {
    GenCfg cfg; cfg.allow_vec = false; cfg.allow_apply = false; cfg.allow_div = r.coin(20); cfg.differentiable = r.coin(70); cfg.max_depth = r.range(1, 3);
    ExprGen g(r, cfg); for (int i = 0; i < P.n; i++) g.syms.push_back(&(*P.x)[i]);
    const ExprNode& e = g.gen(1, 1, cfg.max_depth);
    Interval v = eval_at(*P.x, e, p);
    if (v.is_empty() || v.is_unbounded()) return false;
    CmpOp op; double cst;
    if (r.coin()) { op = r.coin(80) ? LEQ : LT; cst = v.ub() + r.range(1, 8) / 8.0; }
    else { op = r.coin(80) ? GEQ : GT; cst = v.lb() - r.range(1, 8) / 8.0; }
    P.addc(ExprCtr(e - ExprConstant::new_scalar(cst), op)); P.nctr++;
  }
  return true;
}

// a thick constant (produced by constant folding in interval arithmetic) has no exact point value: no oracle
static bool has_thick_const(const string& d) {
  size_t pos = 0;
  while ((pos = d.find("k:", pos)) != string::npos) {
    if (pos > 0 && d[pos - 1] != ',' && d[pos - 1] != '!' && d[pos - 1] != '|') { pos += 2; continue; }
    size_t end = d.find('@', pos); string body = d.substr(pos + 2, end - pos - 2);
    size_t a = 0; while (a < body.size()) { size_t e = body.find('/', a); if (e == string::npos) e = body.size(); string it = body.substr(a, e - a); size_t t = it.find('~'); if (t == string::npos || it.substr(0, t) != it.substr(t + 1)) return true; a = e + 1; }
    pos = end;
  }
  return false;
}

static string dump_scalar(const Array<const ExprSymbol>& x, const ExprNode& e) {
  int n = x.size(); Array<const ExprSymbol> cp(n); for (int i = 0; i < n; i++) cp.set_ref(i, ExprSymbol::new_(x[i].name, Dim::scalar()));
  Function tmp(cp, ExprCopy().copy(x, cp, e), "t");
  return dump_fun(tmp);
}

static bool finish(Rng& r, Prob& P, const IntervalVector& sysbox) {
  // declaration: one constraint per scalar expression, or (P.vec) maximal runs of 2..4 constraints with the same operator as one
  // vector-valued constraint  (e1;e2;..) op 0.  The line given to the model always lists the scalar constraints.
  bool grouped = false;
  for (size_t j = 0; j < P.flat.size();) {
    size_t k = j + 1;
    if (P.vec) { while (k < P.flat.size() && k - j < 4 && P.flat[k].second == P.flat[j].second && r.coin(85)) k++; }
    if (k - j == 1) P.fac->add_ctr(ExprCtr(*P.flat[j].first, P.flat[j].second));
    else { Array<const ExprNode> comps(k - j); for (size_t i = j; i < k; i++) comps.set_ref(i - j, *P.flat[i].first);
           const ExprNode& v = r.coin(80) ? (const ExprNode&)ExprVector::new_col(comps) : (const ExprNode&)ExprVector::new_row(comps);
           P.fac->add_ctr(ExprCtr(v, P.flat[j].second)); grouped = true; }
    j = k;
  }
  P.sys = new System(*P.fac);
  (void)sysbox;
  P.obj = dump_fun(*P.sys->goal);
  P.ctrs = ""; P.specs = "";
  if (!grouped)
    for (int j = 0; j < P.sys->nb_ctr; j++) { if (j) { P.ctrs += "|"; P.specs += "|"; } P.ctrs += dump_fun(P.sys->ctrs[j].f); P.specs += spec_of(P.sys->ctrs[j].op); if (P.sys->ctrs[j].op == EQ) P.has_eq = true; }
  else { // the scalar expressions as they were written (the System holds the simplified vector-valued ones)
    P.fam += "+vec";
    for (size_t j = 0; j < P.flat.size(); j++) { if (j) { P.ctrs += "|"; P.specs += "|"; } P.ctrs += dump_scalar(*P.x, *P.flat[j].first); P.specs += spec_of(P.flat[j].second); if (P.flat[j].second == EQ) P.has_eq = true; }
  }
  if (P.sys->nb_ctr == 0) { P.ctrs = "-"; P.specs = "-"; }
  if (has_thick_const(P.obj) || has_thick_const(P.ctrs)) return false;
  // sample points: lattice / random points of the box, perturbations of the planted point
  for (int k = 0; k < 8; k++) {
    Vector q(P.n);
    for (int i = 0; i < P.n; i++) { double t = r.range(0, 16) / 16.0; q[i] = P.box[i].lb() + t * (P.box[i].ub() - P.box[i].lb()); if (!P.box[i].contains(q[i])) q[i] = P.box[i].lb(); }
    if (P.has_p && r.coin(50)) { q = P.p; int i = r.below(P.n); double d = r.coin() ? r.range(-8, 8) / 64.0 : r.range(-8, 8) / 1048576.0; if (P.box[i].contains(q[i] + d)) q[i] += d; }
    P.pts.push_back(q);
  }
  return true;
}

// --- A/B: convex separable quadratic  sum w_i (x_i-a_i)^2 + c0 ; minimiser = projection of a on the box / on bound constraints
static bool fam_sepquad(Rng& r, Prob& P, double) {
  P.fam = "sepquad"; int n = r.range(1, 4); new_vars(P, n);
  Vector a(n), w(n), p(n); IntervalVector box(n);
  static const double W[] = {0.25, 0.5, 1, 1, 2, 3};
  for (int i = 0; i < n; i++) { a[i] = dy(r, -32, 32, 8); w[i] = r.coin(7) ? 0.0 : W[r.below(6)]; }
  box = box_with(r, a);
  for (int i = 0; i < n; i++) if (r.coin(25)) { // minimiser outside the box
    double wd = r.range(1, 16) / 8.0, g = r.range(1, 16) / 8.0;
    box[i] = r.coin() ? Interval(a[i] + g, a[i] + g + wd) : Interval(a[i] - g - wd, a[i] - g);
  }
  double c0 = dy(r, -40, 40, 8);
  Cert C; C.c = c0;
  vector<int> cut(n, -1); vector<double> cutb(n, 0); bool strict_cut = false;
  // bound-type constraints x_i <= b (b < a_i) or x_i >= b (b > a_i), b inside the box
  P.fac->add_var(*P.x, box);
  for (int i = 0; i < n; i++) p[i] = a[i] < box[i].lb() ? box[i].lb() : (a[i] > box[i].ub() ? box[i].ub() : a[i]);
  for (int i = 0; i < n; i++) if (r.coin(20) && box[i].diam() >= 0.25 && w[i] > 0) {
    const ExprSymbol& xi = (*P.x)[i];
    bool strict = r.coin(25); if (strict) strict_cut = true;    // a strict bound: the infimum is not attained (no planted point), the certificate still holds
    if (p[i] - 0.125 >= box[i].lb() && r.coin()) { double b = p[i] - 0.125 * r.range(1, (int)std::min(8.0, (p[i] - box[i].lb()) * 8)); P.addc(ExprCtr(xi - ExprConstant::new_scalar(b), strict ? LT : LEQ)); cut[i] = P.nctr++; cutb[i] = b; p[i] = b; }
    else if (p[i] + 0.125 <= box[i].ub()) { double b = p[i] + 0.125 * r.range(1, (int)std::min(8.0, (box[i].ub() - p[i]) * 8)); P.addc(ExprCtr(xi - ExprConstant::new_scalar(b), strict ? GT : GEQ)); cut[i] = P.nctr++; cutb[i] = b; p[i] = b; }
  }
  const ExprNode* goal = &ExprConstant::new_scalar(c0);
  bool first_const = r.coin();
  const ExprNode* sum = 0;
  for (int i = 0; i < n; i++) {
    const ExprSymbol& xi = (*P.x)[i];
    const ExprNode* t;
    const ExprNode& d = xi - ExprConstant::new_scalar(a[i]);
    switch (r.below(5)) {
      case 0: t = &(ExprConstant::new_scalar(w[i]) * sqr(d)); break;
      case 1: t = &(ExprConstant::new_scalar(w[i]) * pow(d, 2)); break;
      case 2: t = &(ExprConstant::new_scalar(w[i]) * (d * (xi - ExprConstant::new_scalar(a[i])))); break;
      case 3: t = &(ExprConstant::new_scalar(w[i]) * sqr(xi) - ExprConstant::new_scalar(2 * w[i] * a[i]) * xi + ExprConstant::new_scalar(w[i] * a[i] * a[i])); break;
      default: t = &(sqr(d) * ExprConstant::new_scalar(w[i])); break;
    }
    sum = sum ? &(*sum + *t) : t;
    // certificate:  w (x-a)^2 = w (p-a)^2 + w (x-p)^2 + 2 w (p-a)(x-p)
    C.c += w[i] * (p[i] - a[i]) * (p[i] - a[i]);
    if (w[i] > 0) C.add_sos(w[i], dump_expr(xi - ExprConstant::new_scalar(p[i]), *P.x));
    if (w[i] > 0 && p[i] != a[i]) {
      double lam = 2 * w[i] * std::fabs(p[i] - a[i]);
      if (cut[i] >= 0) C.add_lin(lam, "C" + to_string(cut[i]));
      else if (p[i] > a[i]) C.add_lin(lam, "L" + to_string(i)); else C.add_lin(lam, "U" + to_string(i));
    }
  }
  goal = first_const ? &(*goal + *sum) : &(*sum + *goal);
  P.fac->add_goal(*goal);
  if (!add_random_ctrs(r, P, p, r.below(3))) return false;
  P.box = box; P.has_p = !strict_cut; P.p = p; P.cert = C.str();
  if (strict_cut) P.pts.push_back(p);      // (on the boundary of a strict constraint: infeasible)
  return finish(r, P, box);
}

// --- C: linear objective over a box (vertex), or t*(a.x) with the active constraint a.x >= b
static bool fam_linear(Rng& r, Prob& P, double) {
  P.fam = "linear"; int n = r.range(1, 4); new_vars(P, n);
  Vector c(n), p(n); for (int i = 0; i < n; i++) { c[i] = r.coin(15) ? 0.0 : dy(r, -12, 12, 4); p[i] = dy(r, -24, 24, 8); }
  IntervalVector box(n);
  double c0 = dy(r, -16, 16, 4);
  Cert C;
  bool active = r.coin(35) && n >= 2;
  if (!active) {
    for (int i = 0; i < n; i++) { double wd = r.coin(10) ? 1000 : r.range(0, 24) / 8.0; box[i] = c[i] > 0 ? Interval(p[i], p[i] + wd) : (c[i] < 0 ? Interval(p[i] - wd, p[i]) : Interval(p[i] - wd, p[i] + wd)); }
    C.c = c0; for (int i = 0; i < n; i++) { C.c += c[i] * p[i]; if (c[i] > 0) C.add_lin(c[i], "L" + to_string(i)); if (c[i] < 0) C.add_lin(-c[i], "U" + to_string(i)); }
    P.fac->add_var(*P.x, box);
  } else {
    box = box_with(r, p);
    P.fac->add_var(*P.x, box);
    double t = r.range(1, 8) / 4.0, b = 0; for (int i = 0; i < n; i++) b += c[i] * p[i];
    const ExprNode* ax = 0; for (int i = 0; i < n; i++) { const ExprNode& m = ExprConstant::new_scalar(c[i]) * (*P.x)[i]; ax = ax ? &(*ax + m) : &m; }
    if (r.coin()) P.addc(ExprCtr(*ax - ExprConstant::new_scalar(b), GEQ)); else P.addc(ExprCtr(ExprConstant::new_scalar(b) - *ax, LEQ));
    P.nctr++;
    C.c = t * b + c0; C.add_lin(t, "C0");
    for (int i = 0; i < n; i++) c[i] *= t;
  }
  const ExprNode* sum = 0; for (int i = 0; i < n; i++) { const ExprNode& m = r.coin() ? (ExprConstant::new_scalar(c[i]) * (*P.x)[i]) : ((*P.x)[i] * ExprConstant::new_scalar(c[i])); sum = sum ? &(*sum + m) : &m; }
  P.fac->add_goal(*sum + ExprConstant::new_scalar(c0));
  if (!add_random_ctrs(r, P, p, r.below(3))) return false;
  P.box = box; P.has_p = true; P.p = p; P.cert = C.str();
  return finish(r, P, box);
}

// --- D: nonconvex sums of squares  sum w_k q_k(x)^2 + c0,  q_k(p) = 0  (several global minimisers in general)
static bool fam_sos(Rng& r, Prob& P, double) {
  P.fam = "sos"; int n = r.range(1, 3); new_vars(P, n);
  Vector p(n); for (int i = 0; i < n; i++) p[i] = dy(r, -16, 16, 8);
  IntervalVector box = box_with(r, p);
  for (int i = 0; i < n; i++) if (box[i].diam() > 100) box[i] = Interval(p[i] - 2, p[i] + 3);
  P.fac->add_var(*P.x, box);
  double c0 = dy(r, -16, 16, 4);
  Cert C; C.c = c0;
  int m = r.range(1, 3); const ExprNode* sum = 0;
  for (int k = 0; k < m; k++) {
    const ExprNode* e;
    int i = r.below(n), j = r.below(n);
    const ExprSymbol& xi = (*P.x)[i]; const ExprSymbol& xj = (*P.x)[j];
    switch (r.below(6)) {
      case 0: e = &sqr(xi); break;                                   // x^2 - p^2 : minimisers +-p
      case 1: e = &(xj - sqr(xi)); break;                            // Rosenbrock valley
      case 2: e = &(xi * xj); break;
      case 3: e = &(sqr(xi) + xj); break;                            // Himmelblau-like
      case 4: e = &(xi + ExprConstant::new_scalar(dy(r, -4, 4, 2)) * xj); break;
      default: { GenCfg cfg; cfg.allow_vec = false; cfg.allow_apply = false; cfg.allow_div = false; cfg.differentiable = true; cfg.max_depth = 2;
                 ExprGen g(r, cfg); for (int v = 0; v < n; v++) g.syms.push_back(&(*P.x)[v]); e = &g.gen(1, 1, 2); }
    }
    Interval v = eval_at(*P.x, *e, p); if (v.is_empty() || !v.is_degenerated() || std::fabs(v.lb()) > 1e6) return false;
    const ExprNode& q = *e - ExprConstant::new_scalar(v.lb());
    double w = r.coin() ? 1.0 : dy(r, 1, 8, 4);
    C.add_sos(w, dump_expr(q, *P.x));
    const ExprNode* t;
    switch (r.below(3)) { case 0: t = &(ExprConstant::new_scalar(w) * sqr(q)); break; case 1: t = &(ExprConstant::new_scalar(w) * pow(q, 2)); break; default: t = &(sqr(q) * ExprConstant::new_scalar(w)); }
    sum = sum ? &(*sum + *t) : t;
  }
  P.fac->add_goal(*sum + ExprConstant::new_scalar(c0));
  if (!add_random_ctrs(r, P, p, r.below(2))) return false;
  P.box = box; P.has_p = true; P.p = p; P.cert = C.str();
  if (!finish(r, P, box)) return false;
  for (int i = 0; i < n; i++) { Vector q = p; q[i] = -q[i]; if (box.contains(q)) P.pts.push_back(q); }
  return true;
}

// --- E: equality-constrained problems (eps_h relaxation, rigor mode)
static bool fam_eq(Rng& r, Prob& P, double eps_h) {
  P.fam = "eq"; Cert C; bool cert = true;
  int kind = r.below(6);
  if (kind == 4) { // min x2 s.t. x2 = x0^2 + x1^2, x0^2 + 4 x1^2 >= s^2 (non-convex, ACTIVE at the minimisers (0,+-s/2), f* = s^2/4),
                   // with redundant bound-like constraints before the active one: the point found for the relaxed problem is
                   // moved by the certification, which must re-check the inequalities
    new_vars(P, 3); double s = dy(r, 1, 8, 4); Vector p(3); p[0] = 0; p[1] = s / 2; p[2] = s * s / 4; cert = false;
    IntervalVector box(3); box[0] = Interval(-dy(r, 1, 8, 4), dy(r, 1, 8, 4)); box[1] = Interval(r.coin() ? -s : 0.0, s / 2 + dy(r, 1, 8, 4)); box[2] = Interval(-1, 3 * s * s + 4);
    P.fac->add_var(*P.x, box); P.fac->add_goal((*P.x)[2]);
    bool eq_first = r.coin(70);
    const ExprNode& h = (*P.x)[2] - sqr((*P.x)[0]) - sqr((*P.x)[1]);
    if (eq_first) { P.addc(ExprCtr(h, EQ)); P.nctr++; }
    int fill = r.below(3); for (int i = 0; i < fill; i++) { P.addc(ExprCtr((*P.x)[i % 2] + ExprConstant::new_scalar(5 + i), GEQ)); P.nctr++; }
    P.addc(ExprCtr(sqr((*P.x)[0]) + ExprConstant::new_scalar(4) * sqr((*P.x)[1]) - ExprConstant::new_scalar(s * s), GEQ)); P.nctr++;
    if (!eq_first) { P.addc(ExprCtr(h, EQ)); P.nctr++; }
    P.box = box; P.p = p; P.vec = r.coin(75); P.want_rigor = true;
    Vector q2 = p; q2[1] = -s / 2; if (box.contains(q2)) P.pts.push_back(q2);
  } else if (kind == 5) { // min x2 s.t. x2 = (x0-q)^2, x1 = x0, (x1-q)^2 >= t^2 : f* = t^2 at x0 = x1 = q +- t
    new_vars(P, 3); double q = dy(r, -8, 8, 4), t = dy(r, 1, 8, 8); Vector p(3); p[0] = p[1] = q - t; p[2] = t * t; cert = false;
    IntervalVector box(3); box[0] = Interval(q - t - dy(r, 1, 8, 4), q + (r.coin() ? t + 1 : 0.0)); box[1] = box[0]; if (r.coin()) box[1] = Interval(box[0].lb() - 0.5, box[0].ub() + 0.25); box[2] = Interval(-1, 40);
    P.fac->add_var(*P.x, box); P.fac->add_goal((*P.x)[2]);
    bool ineq_first = r.coin(30);
    const ExprNode& g = sqr((*P.x)[1] - ExprConstant::new_scalar(q)) - ExprConstant::new_scalar(t * t);
    if (ineq_first) { P.addc(ExprCtr(g, GEQ)); P.nctr++; }
    P.addc(ExprCtr((*P.x)[2] - sqr((*P.x)[0] - ExprConstant::new_scalar(q)), EQ)); P.nctr++;
    P.addc(ExprCtr((*P.x)[1] - (*P.x)[0], EQ)); P.nctr++;
    if (!ineq_first) { if (r.coin()) { P.addc(ExprCtr((*P.x)[0] + ExprConstant::new_scalar(100), GEQ)); P.nctr++; } P.addc(ExprCtr(g, GEQ)); P.nctr++; }
    P.box = box; P.p = p; P.vec = r.coin(75); P.want_rigor = true;
    Vector q2 = p; q2[0] = q2[1] = q + t; if (box.contains(q2)) P.pts.push_back(q2);
  } else if (kind == 0) { // min x0+x1 (+ c x2) s.t. x0-x1=0 : lower corner
    int n = r.range(2, 3); new_vars(P, n); Vector p(n); double l = dy(r, -16, 16, 8); p[0] = p[1] = l; IntervalVector box(n);
    box[0] = Interval(l, l + r.range(1, 16) / 8.0); box[1] = Interval(l, l + r.range(1, 16) / 8.0);
    double c2 = 0; if (n == 3) { c2 = dy(r, 1, 8, 4); p[2] = dy(r, -8, 8, 8); box[2] = Interval(p[2], p[2] + r.range(1, 8) / 8.0); }
    P.fac->add_var(*P.x, box);
    const ExprNode* g = &((*P.x)[0] + (*P.x)[1]); if (n == 3) g = &(*g + ExprConstant::new_scalar(c2) * (*P.x)[2]);
    P.fac->add_goal(*g); P.addc(ExprCtr((*P.x)[0] - (*P.x)[1], EQ)); P.nctr++;
    C.c = 2 * l + (n == 3 ? c2 * p[2] : 0); C.add_lin(1, "L0"); C.add_lin(1, "L1"); if (n == 3) C.add_lin(c2, "L2");
    P.box = box; P.p = p;
  } else if (kind == 1) { // min x0^2+x1^2 s.t. x0+x1=s : relaxed minimiser t=(s-eps)/2
    new_vars(P, 2); double s = dy(r, 2, 16, 4); double t = (s - eps_h) / 2; Vector p(2); p[0] = p[1] = t;
    if (!(t > 0) || (s - eps_h) != 2 * t || ((s - eps_h) + eps_h) != s) cert = false;           // exact only for dyadic eps_h
    IntervalVector box(2); box[0] = Interval(s / 2 - r.range(1, 16) / 8.0, s / 2 + r.range(1, 16) / 8.0); box[1] = Interval(s / 2 - r.range(1, 16) / 8.0, s / 2 + r.range(1, 16) / 8.0);
    P.fac->add_var(*P.x, box);
    P.fac->add_goal(sqr((*P.x)[0]) + sqr((*P.x)[1]));
    P.addc(ExprCtr((*P.x)[0] + (*P.x)[1] - ExprConstant::new_scalar(s), EQ)); P.nctr++;
    C.c = 2 * t * t; C.add_sos(1, dump_expr((*P.x)[0] - ExprConstant::new_scalar(t), *P.x)); C.add_sos(1, dump_expr((*P.x)[1] - ExprConstant::new_scalar(t), *P.x)); C.add_lin(2 * t, "M0");
    if (!cert) { p[0] = p[1] = s / 2; }
    P.box = box; P.p = p;
  } else if (kind == 2) { // min x0+x1 on the circle x0^2+x1^2 = 2 a^2 : (-a,-a); no certificate (the relaxed minimum is irrational)
    new_vars(P, 2); double a = dy(r, 1, 8, 4); Vector p(2); p[0] = p[1] = -a; cert = false;
    IntervalVector box(2); box[0] = Interval(-a - r.range(1, 8) / 4.0, r.coin() ? a + 1 : 0.0); box[1] = Interval(-a - r.range(1, 8) / 4.0, r.coin() ? a + 1 : 0.0);
    P.fac->add_var(*P.x, box);
    P.fac->add_goal((*P.x)[0] + (*P.x)[1]);
    P.addc(ExprCtr(sqr((*P.x)[0]) + sqr((*P.x)[1]) - ExprConstant::new_scalar(2 * a * a), EQ)); P.nctr++;
    P.box = box; P.p = p;
  } else { // three variables on the line x0=x1=x2, separable quadratic with common centre
    new_vars(P, 3); double a = dy(r, -8, 8, 4); Vector p(3); p[0] = p[1] = p[2] = a;
    IntervalVector box = box_with(r, p); for (int i = 0; i < 3; i++) if (box[i].diam() > 100 || box[i].is_degenerated()) box[i] = Interval(a - 1, a + 2);
    P.fac->add_var(*P.x, box);
    const ExprNode* g = 0; for (int i = 0; i < 3; i++) { double w = dy(r, 1, 8, 4); const ExprNode& d = (*P.x)[i] - ExprConstant::new_scalar(a); const ExprNode& t = ExprConstant::new_scalar(w) * sqr(d); g = g ? &(*g + t) : &t; C.add_sos(w, dump_expr(d, *P.x)); }
    double c0 = dy(r, -8, 8, 4); C.c = c0;
    P.fac->add_goal(*g + ExprConstant::new_scalar(c0));
    P.addc(ExprCtr((*P.x)[0] - (*P.x)[1], EQ)); P.nctr++;
    P.addc(ExprCtr((*P.x)[1] - (*P.x)[2], EQ)); P.nctr++;
    P.box = box; P.p = p;
  }
  P.has_p = true; if (cert) P.cert = C.str();
  if (kind < 4 && r.coin(40)) if (!add_random_ctrs(r, P, P.p, 1)) return false;
  return finish(r, P, P.box);
}

// --- F: infeasible problems
static bool fam_infeasible(Rng& r, Prob& P, double) {
  P.fam = "infeasible"; int n = r.range(1, 3); new_vars(P, n);
  IntervalVector box(n); for (int i = 0; i < n; i++) box[i] = Interval(dy(r, -24, 0, 8), dy(r, 1, 24, 8));
  P.fac->add_var(*P.x, box);
  const ExprSymbol& x0 = (*P.x)[0];
  GenCfg cfg; cfg.allow_vec = false; cfg.allow_apply = false; cfg.allow_div = false; cfg.differentiable = true; cfg.max_depth = 2;
  ExprGen g(r, cfg); for (int v = 0; v < n; v++) g.syms.push_back(&(*P.x)[v]);
  P.fac->add_goal(g.gen(1, 1, 2));
  const ExprSymbol& xl = (*P.x)[n - 1];
  double dl = r.coin() ? dy(r, 1, 8, 8) : dy(r, 1, 8, 512);
  switch (r.below(7)) {
    case 0: P.addc(ExprCtr(sqr(x0) + ExprConstant::new_scalar(dl), LEQ)); P.nctr++; break;
    case 1: P.addc(ExprCtr(pow(x0 - ExprConstant::new_scalar(1), 3), GEQ)); P.addc(ExprCtr(pow(x0, 3), LEQ)); P.nctr += 2; break;
    case 2: { P.addc(ExprCtr(sqr(x0 - ExprConstant::new_scalar(2)) + sqr(xl) - ExprConstant::new_scalar(1), LEQ));
              P.addc(ExprCtr(sqr(x0 + ExprConstant::new_scalar(2)) + sqr(xl) - ExprConstant::new_scalar(1), LEQ)); P.nctr += 2; break; }
    case 3: // (x0 - xl)^2 + delta <= 0 written with dependency: the root contraction cannot see it
            P.addc(ExprCtr(sqr(x0) - ExprConstant::new_scalar(2) * x0 * xl + sqr(xl) + ExprConstant::new_scalar(n == 1 ? 1.0 : dl), LEQ)); P.nctr++; break;
    case 4: { // two discs whose distance slightly exceeds the sum of the radii
              double c = 1 + dl / 2; P.addc(ExprCtr(sqr(x0 - ExprConstant::new_scalar(c)) + sqr(xl) - ExprConstant::new_scalar(1), LEQ));
              P.addc(ExprCtr(sqr(x0 + ExprConstant::new_scalar(c)) + sqr(xl) - ExprConstant::new_scalar(1), LEQ)); P.nctr += 2; break; }
    case 5: // x0*xl >= 1 + delta and x0 + xl <= 2 (AM-GM), on a box around (1,1)
            if (n >= 2) { for (int i = 0; i < n; i++) box[i] = Interval(dy(r, 1, 7, 8), dy(r, 9, 24, 8));
              new_vars(P, n); const ExprSymbol& a = (*P.x)[0]; const ExprSymbol& b = (*P.x)[n - 1];      // (fresh symbols and factory; the old ones are abandoned)
              P.fac->add_var(*P.x, box); P.fac->add_goal(a + b);
              P.addc(ExprCtr(a * b - ExprConstant::new_scalar(1 + dl), GEQ)); P.addc(ExprCtr(a + b - ExprConstant::new_scalar(2), LEQ)); P.nctr += 2; break; }
            // fall through
    default: P.addc(ExprCtr(x0 - ExprConstant::new_scalar(box[0].ub() + 0.125), GEQ)); P.nctr++; break;
  }
  P.box = box; P.has_p = false;
  return finish(r, P, box);
}

// --- G/H: objectives outside the polynomial fragment: x + k^2/x, |x-a|+|y-b|, max, sqrt domain
static int g_misc_kind = -1;   // (workload bias)
static bool fam_misc(Rng& r, Prob& P, double) {
  P.fam = "misc"; int kind = g_misc_kind >= 0 ? g_misc_kind : (int)r.below(4);
  if (kind == 0) { // x + k^2/x on [lo,hi] containing k : minimum 2k at x=k
    new_vars(P, 1); double k = dy(r, 1, 8, 2); Vector p(1); p[0] = k; IntervalVector box(1); box[0] = Interval(k / 4, k + r.range(0, 16) / 4.0);
    P.fac->add_var(*P.x, box); P.fac->add_goal((*P.x)[0] + ExprConstant::new_scalar(k * k) / (*P.x)[0]); P.box = box; P.p = p;
  } else if (kind == 1) { // sum |x_i - a_i| + c0
    int n = r.range(1, 3); new_vars(P, n); Vector a(n); for (int i = 0; i < n; i++) a[i] = dy(r, -16, 16, 8); IntervalVector box = box_with(r, a);
    P.fac->add_var(*P.x, box); const ExprNode* g = 0; for (int i = 0; i < n; i++) { const ExprNode& t = abs((*P.x)[i] - ExprConstant::new_scalar(a[i])); g = g ? &(*g + t) : &t; }
    P.fac->add_goal(*g + ExprConstant::new_scalar(dy(r, -8, 8, 4))); P.box = box; P.p = a;
  } else if (kind == 2) { // max(x0 - a, a - x0) + (x1-b)^2
    new_vars(P, 2); Vector a(2); a[0] = dy(r, -16, 16, 8); a[1] = dy(r, -16, 16, 8); IntervalVector box = box_with(r, a);
    P.fac->add_var(*P.x, box); const ExprNode& d = (*P.x)[0] - ExprConstant::new_scalar(a[0]);
    P.fac->add_goal(max(d, -d) + sqr((*P.x)[1] - ExprConstant::new_scalar(a[1]))); P.box = box; P.p = a;
  } else { // min x0 (+x1^2) s.t. sqrt(x0 + b) >= -1 : the constraint only restricts the domain, minimiser x0 = -b
    int n = r.range(1, 2); new_vars(P, n); double b = dy(r, -8, 8, 4); Vector p(n); p[0] = -b; if (n == 2) p[1] = 0;
    IntervalVector box(n); box[0] = Interval(-b - r.range(1, 8) / 2.0, -b + r.range(1, 8) / 2.0); if (n == 2) box[1] = Interval(-1, 2);
    P.fac->add_var(*P.x, box); const ExprNode* g = &(*P.x)[0]; if (n == 2) g = &(*g + sqr((*P.x)[1]));
    P.fac->add_goal(*g); P.addc(ExprCtr(sqrt((*P.x)[0] + ExprConstant::new_scalar(b)) + ExprConstant::new_scalar(1), GEQ)); P.nctr++; P.box = box; P.p = p;
  }
  P.has_p = true; P.pmin = true;
  if (r.coin(30)) if (!add_random_ctrs(r, P, P.p, 1)) return false;
  return finish(r, P, P.box);
}

// --- R: random objective and constraints, no oracle (the cover certificate needs none)
static bool fam_random(Rng& r, Prob& P, double) {
  P.fam = "random"; int n = r.range(1, 3); new_vars(P, n);
  IntervalVector box(n); for (int i = 0; i < n; i++) { double c = dy(r, -16, 16, 8); box[i] = Interval(c - r.range(1, 16) / 8.0, c + r.range(1, 16) / 8.0); }
  P.fac->add_var(*P.x, box);
  GenCfg cfg; cfg.allow_vec = false; cfg.allow_apply = false; cfg.allow_div = r.coin(25); cfg.differentiable = r.coin(70); cfg.max_depth = r.range(1, 3);
  ExprGen g(r, cfg); for (int v = 0; v < n; v++) g.syms.push_back(&(*P.x)[v]);
  P.fac->add_goal(g.gen(1, 1, cfg.max_depth));
  Vector mid = box.mid();
  if (!add_random_ctrs(r, P, mid, r.below(3))) return false;
  P.box = box; P.has_p = false;
  return finish(r, P, box);
}

static bool make_problem(Rng& r, Prob& P, double eps_h, int which = -1) {
  int k = which >= 0 ? which : (int)r.below(12);
  P.vec = r.coin(25);
  switch (k) { case 0: case 1: case 2: return fam_sepquad(r, P, eps_h); case 3: case 4: return fam_linear(r, P, eps_h); case 5: case 6: return fam_sos(r, P, eps_h);
    case 7: case 8: return fam_eq(r, P, eps_h); case 9: return fam_infeasible(r, P, eps_h); case 12: return fam_random(r, P, eps_h); default: return fam_misc(r, P, eps_h); }
}

// ------------------------------------------------------------------------------------------------ logging wrappers (cover certificate)
static vector<string>* LOG = 0;
struct LogCtc : public Ctc {
  Ctc& c;
  LogCtc(Ctc& c) : Ctc(c.nb_var), c(c) {}
  void contract(IntervalVector& box) { string in = tok(box); c.contract(box); if (LOG) LOG->push_back("C~" + in + "~" + tok(box)); }
  void contract(IntervalVector& box, ContractContext& ctx) { string in = tok(box); c.contract(box, ctx); if (LOG) LOG->push_back("C~" + in + "~" + tok(box)); }
  void add_property(const IntervalVector& b, BoxProperties& m) { c.add_property(b, m); }
};
struct LogBsc : public Bsc {
  Bsc& b;
  LogBsc(Bsc& b, const Vector& prec) : Bsc(prec), b(b) {}
  BisectionPoint choose_var(const Cell& cell) {
    BisectionPoint pt = b.choose_var(cell);          // (may throw NoBisectableVariableException: nothing logged)
    if (LOG) { // the two halves, computed as Cell::bisect does
      IntervalVector l(cell.box), r2(cell.box);
      if (pt.rel_pos) { pair<IntervalVector, IntervalVector> h = cell.box.bisect(pt.var, pt.pos); l = h.first; r2 = h.second; }
      else { l[pt.var] = Interval(cell.box[pt.var].lb(), pt.pos); r2[pt.var] = Interval(pt.pos, cell.box[pt.var].ub()); }
      LOG->push_back("B~" + tok(l) + "~" + tok(r2));
    }
    return pt;
  }
  void add_property(const IntervalVector& box, BoxProperties& m) { b.add_property(box, m); }
};
struct LogBuffer : public CellBufferOptim {
  CellBufferOptim& b;
  LogBuffer(CellBufferOptim& b) : b(b) {}
  void add_property(const IntervalVector& box, BoxProperties& m) { b.add_property(box, m); }
  void flush() { b.flush(); }
  unsigned int size() const { return b.size(); }
  bool empty() const { return b.empty(); }
  void push(Cell* c) { if (LOG) LOG->push_back("P~" + tok(c->box)); b.push(c); }
  Cell* pop() { Cell* c = b.pop(); if (LOG) LOG->push_back("O~" + tok(c->box)); return c; }
  Cell* top() const { Cell* c = b.top(); if (LOG) LOG->push_back("T~" + tok(c->box)); return c; }
  std::ostream& print(std::ostream& os) const { return os; }
  double minimum() const { return b.minimum(); }
  void contract(double loup) { b.contract(loup); }
};

// ------------------------------------------------------------------------------------------------ configurations
struct Params {
  double eps_h, eps_x, rel_eps_f, abs_eps_f, init_loup; bool rigor, aub, xcov; int ctc, bsc, finder, buf, crit2pr, crit2, beam; bool choose_obj; uint64_t rseed; long budget; bool viacfg = false, stats = false; int epsx_pat = 0;
  string tag() const { char b[200]; snprintf(b, sizeof b, "c%d.b%d%d.f%d%s.q%d-%d-%d-%d.a%d.x%d.g%d%d%d", ctc, bsc, (int)choose_obj, finder, rigor ? "R" : "", buf, crit2pr, crit2, beam, (int)aub, (int)xcov, (int)viacfg, (int)stats, epsx_pat); return b; }
};

static Params make_params(Rng& r, const Prob& P, double eps_h) {
  Params q; q.eps_h = eps_h;
  static const double EX[] = {1e-7, 1e-9, 1e-3, 0.015625, 0.125, 0.5};
  q.eps_x = r.coin(65) ? EX[r.below(2)] : EX[r.below(6)];
  static const double EA[] = {1e-3, 1e-4, 1e-6, 0.0078125, 0.0625, 0.5, 1e-2};
  static const double ER[] = {1e-3, 1e-5, 0.0625, 0.5};
  q.abs_eps_f = EA[r.below(7)]; q.rel_eps_f = r.coin(40) ? ER[r.below(4)] : 0.0; if (r.coin(8)) { q.abs_eps_f = 0; if (q.rel_eps_f == 0) q.rel_eps_f = 1e-3; }
  q.init_loup = POS_INFINITY; q.rigor = P.want_rigor ? r.coin(80) : (P.has_eq ? r.coin(50) : r.coin(10));
  q.aub = r.coin(75); q.xcov = r.coin(70);
  q.ctc = r.below(10); q.bsc = r.below(6); q.finder = r.below(3); q.buf = r.below(4); q.choose_obj = r.coin();
  static const int PR[] = {0, 20, 50, 100}; q.crit2pr = PR[r.below(4)]; q.crit2 = r.below(8); q.beam = r.range(1, 5);
  q.rseed = r.below(1000) + 1; q.budget = -1;
  q.viacfg = r.coin(35); q.stats = q.viacfg && r.coin(30); q.epsx_pat = r.coin(20) ? (int)r.range(1, 7) : 0;
  return q;
}

struct Result { Optimizer::Status st; double uplo, loup; IntervalVector lp; size_t nb; Result() : lp(1) {} };

// the optimizer built from a configuration object (constructor Optimizer(OptimizerConfig&))
struct HarnessConfig : public OptimizerConfig {
  unsigned int n; Ctc& c; Bsc& b; LoupFinder& f; CellBufferOptim& q; int gv;
  HarnessConfig(unsigned int n, Ctc& c, Bsc& b, LoupFinder& f, CellBufferOptim& q, int gv) : n(n), c(c), b(b), f(f), q(q), gv(gv) {}
  unsigned int nb_var() { return n; }
  Ctc& get_ctc() { return c; }
  Bsc& get_bsc() { return b; }
  LoupFinder& get_loup_finder() { return f; }
  CellBufferOptim& get_cell_buffer() { return q; }
  int goal_var() { return gv; }
};

// all the objects of one optimizer (fresh for every run)
struct Assembly {
  HarnessConfig* cfg = 0;
  NormalizedSystem norm; ExtendedSystem ext;
  CtcHC4* hc4; CtcHC4* hc4b; CtcAcid* acid; Ctc3BCid* cid; CtcCompo* compo; CtcIdentity* ident; Ctc* ctc;
  OptimLargestFirst* olf; Bsc* bsc; LoupFinder* inner; LoupFinderCertify* certify; LoupFinder* finder;
  CellHeap* h1; CellHeap* h2; CellBufferOptim* buffer; Optimizer* o;
  LogCtc* lctc; LogBsc* lbsc; LogBuffer* lbuf;
  Assembly(const Prob& P, const Params& q, bool logging = false) : norm(*P.sys, q.eps_h), ext(*P.sys, q.eps_h), hc4(0), hc4b(0), acid(0), cid(0), compo(0), ident(0), olf(0), inner(0), certify(0), h1(0), h2(0), lctc(0), lbsc(0), lbuf(0) {
    int n = P.n;
    hc4 = new CtcHC4(ext.ctrs, 0.01, q.ctc % 2 == 1);
    switch (q.ctc) {
      case 0: case 1: case 2: case 3: ctc = hc4; break;
      case 4: case 5: hc4b = new CtcHC4(ext.ctrs, 0.1, true); acid = new CtcAcid(ext, *hc4b, true); compo = new CtcCompo(*hc4, *acid); ctc = compo; break;
      case 6: case 7: cid = new Ctc3BCid(*hc4); compo = new CtcCompo(*hc4, *cid); ctc = compo; break;
      case 8: hc4b = new CtcHC4(ext.ctrs, 0.1, true); acid = new CtcAcid(ext, *hc4b, true); ctc = acid; break;
      default: if (q.eps_x >= 0.125 && n <= 2) { ident = new CtcIdentity(n + 1); ctc = ident; } else ctc = hc4; break;
    }
    Vector epsx(n + 1, q.eps_x);
    // per-variable precisions: bit i of the pattern coarsens variable i (0.25), the last pattern value 7 never bisects variable 0 (+oo)
    if (q.epsx_pat) for (int i = 0; i < n; i++) { if ((q.epsx_pat >> (i % 3)) & 1) epsx[i] = 0.25; } if (q.epsx_pat == 7 && n > 1) epsx[0] = POS_INFINITY;
    olf = new OptimLargestFirst(ext.goal_var(), q.choose_obj, epsx);
    switch (q.bsc) {
      case 0: case 1: case 2: bsc = olf; break;
      case 3: bsc = new SmearSumRelative(ext, epsx, *olf); break;
      case 4: bsc = new SmearMax(ext, epsx, *olf); break;
      default: bsc = new RoundRobin(epsx, 0.45); break;
    }
    int fk = q.finder;
    if (fk == 1 && norm.nb_ctr > 0) for (int i = 0; i < norm.f_ctrs.image_dim(); i++) if (!norm.f_ctrs[i].inhc4revise().implemented()) fk = 2;   // as DefaultOptimizerConfig::set_inHC4
    // the loup finder works on the normalized system or, for a quarter of the problems without equality, on the system as the user
    // wrote it (>= and > constraints are then seen as such by System::is_inner / active_ctrs)
    bool has_eq = (("|" + P.specs + "|").find("|eq|") != string::npos);
    const System& fsys = (!has_eq && q.rseed % 4 == 1) ? (const System&)*P.sys : (const System&)norm;
    if (fk == 1 && &fsys != (const System*)&norm && fsys.nb_ctr > 0) for (int i = 0; i < fsys.f_ctrs.image_dim(); i++) if (!fsys.f_ctrs[i].inhc4revise().implemented()) fk = 2;
    switch (fk) { case 0: inner = new LoupFinderProbing(fsys, 1 + (int)(q.rseed % 3)); break; case 1: inner = new LoupFinderInHC4(fsys); break; default: inner = new LoupFinderFwdBwd(fsys); }
    if (q.rigor) { certify = new LoupFinderCertify(*P.sys, *inner); finder = certify; } else finder = inner;
    switch (q.buf) {
      case 0: buffer = new CellHeap(ext); break;
      case 1: case 2: buffer = new CellDoubleHeap(ext, q.crit2pr, (CellCostFunc::criterion)q.crit2); break;
      default: h1 = new CellHeap(ext); h2 = new CellHeap(ext); buffer = new CellBeamSearch(*h1, *h2, ext, q.beam); break;
    }
    Ctc* uc = ctc; Bsc* ub = bsc; CellBufferOptim* uq = buffer;
    if (logging) { lctc = new LogCtc(*ctc); lbsc = new LogBsc(*bsc, epsx); lbuf = new LogBuffer(*buffer); uc = lctc; ub = lbsc; uq = lbuf; }
    Vector epsx_opt(n, q.eps_x); for (int i = 0; i < n; i++) epsx_opt[i] = epsx[i];
    if (q.viacfg) {
      cfg = new HarnessConfig(n, *uc, *ub, *finder, *uq, ext.goal_var());
      cfg->set_rel_eps_f(q.rel_eps_f); cfg->set_abs_eps_f(q.abs_eps_f); cfg->set_eps_x(epsx_opt); cfg->set_trace(0); cfg->set_timeout(120);
      cfg->set_extended_cov(q.xcov); cfg->set_anticipated_upper_bounding(q.aub); cfg->set_statistics(q.stats);
      o = new Optimizer(*cfg);
    } else {
      o = new Optimizer(n, *uc, *ub, *finder, *uq, ext.goal_var(), q.eps_x, q.rel_eps_f, q.abs_eps_f);
      if (q.epsx_pat) (Vector&)o->eps_x = epsx_opt;
    }
    o->anticipated_upper_bounding = q.aub; o->extended_COV = q.xcov; o->timeout = 120; o->trace = 0;
  }
  ~Assembly() { delete o; if (cfg) delete cfg; if (lbuf) delete lbuf; if (lbsc) delete lbsc; if (lctc) delete lctc; delete buffer; if (h1) delete h1; if (h2) delete h2; if (certify) delete certify; delete inner; if (bsc != olf) delete bsc; delete olf;
                if (compo) delete compo; if (cid) delete cid; if (acid) delete acid; if (hc4b) delete hc4b; if (ident) delete ident; delete hc4; }
  Result result() const { Result R; R.st = o->get_status(); R.uplo = o->get_uplo(); R.loup = o->get_loup(); R.lp = o->get_loup_point(); R.nb = o->get_nb_cells(); return R; }
};

static string inputs(const Prob& P, const Params& q) {
  string s = P.fam + " " + q.tag() + " " + P.obj + " " + P.ctrs + " " + P.specs + " " + tok(P.box) + " " + hex(q.eps_h) + " " + hex(q.eps_x) + " " + hex(q.rel_eps_f) + " " + hex(q.abs_eps_f) + " " + hex(q.init_loup) + " " + (q.rigor ? "1" : "0") + " ";
  vector<Vector> one; if (P.has_p) one.push_back(P.p);
  s += ptoks(one) + " " + ptoks(P.pts) + " " + P.cert + " " + (P.pmin ? "1" : "0");
  return s;
}
static string outputs(const Result& R) { return string(status_name(R.st)) + " " + hex(R.uplo) + " " + hex(R.loup) + " " + tok(R.lp) + " " + to_string(R.nb); }

static Result run_once(const Prob& P, const Params& q, long budget) {
  Assembly A(P, q);
  RNG::srand(q.rseed);
  verif::optimizer_cell_budget = budget;
  A.o->optimize(P.box, q.init_loup);
  verif::optimizer_cell_budget = -1;
  check_round_up("optimize");
  return A.result();
}

static string run_dir() {
  const char* t = getenv("VERIF_TMP"); string d = t ? t : ".build/runs";
  mkdir(".build", 0777); mkdir(d.c_str(), 0777);
  return d;
}

// interrupted at the cell counts `ks` (cells handled in the current call), saved, reloaded, resumed with fresh objects
static void run_chain(const Prob& P, const Params& q, const vector<long>& ks, const string& file, long final_budget) {
  string chain, states; Result last; bool have = false;
  CovOptimData* data = 0;
  for (size_t s = 0; s <= ks.size(); s++) {
    Assembly A(P, q);
    RNG::srand(q.rseed + s);
    verif::optimizer_cell_budget = s < ks.size() ? ks[s] : final_budget;    // (the last run is bounded too: a TIME_OUT result is still a result)
    if (!data) A.o->optimize(P.box, q.init_loup); else if ((q.rseed + s) % 2) A.o->optimize(*data, q.init_loup); else A.o->optimize(file.c_str(), q.init_loup);
    verif::optimizer_cell_budget = -1;
    Result R = A.result();
    if (s == ks.size() || R.st != Optimizer::TIME_OUT) { // final (or the search finished before the budget)
      if (have) EMIT("optresume %s %s %s => %s\n", inputs(P, q).c_str(), chain.c_str(), states.c_str(), outputs(R).c_str());
      break;
    }
    A.o->get_data().save(file.c_str());
    if (data) delete data;
    data = new CovOptimData(file.c_str());
    // the state as read back from the file is itself a (TIME_OUT) result
    Result I; I.st = Optimizer::TIME_OUT; I.uplo = data->uplo(); I.loup = data->loup(); I.lp = data->loup_point(); I.nb = data->nb_cells();
    if (I.uplo != R.uplo || I.loup != R.loup || !(I.lp == R.lp)) EMIT("opterror %s %s => saved-state-differs-from-optimizer-state\n", P.fam.c_str(), q.tag().c_str());
    EMIT("optresumeint %s => %s\n", inputs(P, q).c_str(), outputs(I).c_str());
    if (have) { chain += "."; states += ","; }
    chain += to_string(ks[s]); states += hex(I.uplo) + "~" + hex(I.loup) + "~" + tok(I.lp); have = true; last = I;
  }
  if (data) delete data;
  unlink(file.c_str());
}

// a search started from a covering that does NOT come from an optimizer (a plain list of boxes covering the domain: no loup
// point, uplo = -oo, loup = +oo, original space): every box of the list must be searched, the result obeys the same rules as
// the result of optimize(box)
static void run_foreign(Rng& r, const Prob& P, const Params& q0, long budget) {
  // (no a-priori bound: optimize(data, bound) takes the loup of the data, +oo here, not the bound; C07 does not say what an
  //  a-priori bound means for a covering that carries its own loup, so this variant does not use one)
  Params q = q0; q.init_loup = POS_INFINITY;
  int n = P.box.size();
  int var = r.below(n); if (!P.box[var].is_bisectable()) return;
  int pieces = r.range(2, 3);
  vector<IntervalVector> bs; double lo = P.box[var].lb(), hi = P.box[var].ub();
  if (lo == NEG_INFINITY || hi == POS_INFINITY) return;
  for (int i = 0; i < pieces; i++) { IntervalVector b = P.box; double a = lo + (hi - lo) * i / pieces, c = (i == pieces - 1) ? hi : lo + (hi - lo) * (i + 1) / pieces; b[var] = Interval(a, c); bs.push_back(b); }
  if (r.coin()) std::reverse(bs.begin(), bs.end());
  CovList list(n); for (auto& b : bs) list.add(b);
  CovOptimData data(list, true);
  Assembly A(P, q);
  RNG::srand(q.rseed);
  verif::optimizer_cell_budget = budget;
  A.o->optimize(data, q.init_loup);
  verif::optimizer_cell_budget = -1;
  check_round_up("optimize-foreign");
  Result R = A.result();
  EMIT("optrun %s => %s\n", inputs(P, q).c_str(), outputs(R).c_str());
}

// a CovOptimData object that no optimizer has filled yet (no loup point, no variable names) must be savable and reloadable;
// run in a child process: a crash is a finding
#include <sys/wait.h>
static void fresh_data(Rng& r, const string& file) {
  int n = r.range(1, 4); bool ext = r.coin(); int nb = r.below(3);
  fflush(stdout);
  pid_t pid = fork();
  if (pid == 0) {
    int rc = 3;
    try {
      CovOptimData d(ext ? n + 1 : n, ext);
      for (int i = 0; i < nb; i++) d.add(IntervalVector(ext ? n + 1 : n, Interval(i, i + 1)));
      d.save(file.c_str());
      CovOptimData back(file.c_str());
      bool same = back.n == d.n && back.size() == d.size() && back.is_extended_space() == ext && back.loup_point().is_empty() && back.uplo() == NEG_INFINITY && back.loup() == POS_INFINITY
                  && back.uplo_of_epsboxes() == POS_INFINITY && back.nb_cells() == 0;
      for (size_t i = 0; same && i < d.size(); i++) same = back[i] == d[i];
      rc = same ? 0 : 1;
    } catch (...) { rc = 2; }
    VH_EXIT(rc);
  }
  int st = 0; waitpid(pid, &st, 0);
  string res = WIFSIGNALED(st) ? "CRASH:signal" + to_string(WTERMSIG(st)) : (WEXITSTATUS(st) == 0 ? "ok" : (WEXITSTATUS(st) == 1 ? "MISMATCH" : "ERROR"));
  EMIT("optresumefresh %d %d %d => %s\n", n, (int)ext, nb, res.c_str());
  unlink(file.c_str());
}

int main(int argc, char** argv) {
  string wl = argc > 1 ? argv[1] : "c07";
  uint64_t seed = argc > 2 ? strtoull(argv[2], 0, 10) : 1;
  long count = argc > 3 ? atol(argv[3]) : 50;
  bool full = argc > 4 && string(argv[4]) == "full";
  Rng r(seed * 7368787 + (wl == "c07" ? 11 : (wl == "cover" ? 47 : 29)));
  // the library prints diagnostics on std::cout (e.g. before ibex_error): keep them out of the protocol (printf / stdout)
  static std::ostringstream sink; std::cout.rdbuf(sink.rdbuf());
  static const double EH[] = {1e-8, 0.0009765625 /*2^-10*/, 9.5367431640625e-07 /*2^-20*/, 0.0, 0.00390625};
  long budget_cap = full ? 20000 : 3000;
  if (wl == "c07") {
    for (long it = 0; it < count; it++) {
      double eps_h = EH[r.below(5)];
      Prob P; bool ok = false;
      try { ok = make_problem(r, P, eps_h); } catch (std::exception& e) { ok = false; }
      if (!ok) continue;
      for (int c = 0; c < 3; c++) {
        Params q = make_params(r, P, eps_h);
        if (P.has_p && r.coin(20)) { // an a-priori upper bound: above, equal to, or slightly below the planted value
          Interval fp = P.sys->goal->eval(IntervalVector(P.p));
          if (!fp.is_empty() && fp.is_degenerated()) switch (r.below(4)) { case 0: q.init_loup = fp.lb() + 1; break; case 1: q.init_loup = fp.lb(); break; case 2: q.init_loup = fp.lb() - 0.0009765625; break; default: q.init_loup = fp.lb() + 0.0009765625; } }
        try {
          Result R = run_once(P, q, budget_cap);
          EMIT("optrun %s => %s\n", inputs(P, q).c_str(), outputs(R).c_str());
        } catch (VerifAbort& a) { verif::optimizer_cell_budget = -1; EMIT("opterror %s %s => %s\n", P.fam.c_str(), q.tag().c_str(), sanitize(a.what()).c_str()); }
          catch (std::exception& e) { verif::optimizer_cell_budget = -1; EMIT("opterror %s %s => exception:%s\n", P.fam.c_str(), q.tag().c_str(), sanitize(typeid(e).name()).c_str()); }
      }
      // the default optimizer needs an LP library: a line only when it ran
      if (r.coin(20)) {
        try {
          Params q = make_params(r, P, eps_h); q.rigor = false;
          DefaultOptimizer o(*P.sys, q.rel_eps_f, q.abs_eps_f, q.eps_h, false, true, false, 1, q.eps_x);
          ((Optimizer&)o).timeout = 20; verif::optimizer_cell_budget = budget_cap;
          o.optimize(P.box);
          verif::optimizer_cell_budget = -1;
          Result R; R.st = o.get_status(); R.uplo = o.get_uplo(); R.loup = o.get_loup(); R.lp = o.get_loup_point(); R.nb = o.get_nb_cells();
          q.init_loup = POS_INFINITY;
          EMIT("optdefault %s => %s\n", inputs(P, q).c_str(), outputs(R).c_str());
        } catch (VerifAbort&) { verif::optimizer_cell_budget = -1; } catch (std::exception&) { verif::optimizer_cell_budget = -1; }
      }
    }
  } else if (wl == "resume") {
    string dir = run_dir(); string file = dir + "/optresume_" + to_string((long)getpid()) + "_" + to_string(seed) + ".cov";
    for (long it = 0; it < count; it++) {
      if (it % 10 == 0) fresh_data(r, file);
      double eps_h = EH[r.below(5)];
      // a quarter of the problems: objectives with multiple occurrences of the variables (x + k^2/x, cross terms), coarse precision,
      // COV in the original space: cells whose goal domain must be rebuilt at the resume
      bool dep = r.coin(25);
      Prob P; bool ok = false;
      g_misc_kind = dep ? 0 : -1;
      try { ok = make_problem(r, P, eps_h, dep ? (r.coin(60) ? 10 : 5) : -1); } catch (std::exception& e) { ok = false; }
      g_misc_kind = -1;
      if (!ok) continue;
      Params q = make_params(r, P, eps_h);
      if (dep || r.coin(30)) q.xcov = false;
      if (dep || r.coin(30)) { static const double C[] = {0.0625, 0.5, 0.125, 0.03125}; if (r.coin()) q.rel_eps_f = C[r.below(4)]; else q.abs_eps_f = C[r.below(4)]; }
      if (dep) { q.init_loup = POS_INFINITY; q.eps_x = 1e-7; if (q.ctc >= 9) q.ctc = 0;
        // an a-priori bound slightly BELOW the minimum of a function with multiple occurrences: refuting it takes many cells
        // (no feasible point is ever found: the final status must be NO_FEASIBLE_FOUND whatever the interruptions)
        if (P.has_p && r.coin(40)) { Interval fp = P.sys->goal->eval(IntervalVector(P.p)); if (!fp.is_empty() && !fp.is_unbounded()) q.init_loup = fp.lb() - (r.coin() ? 0.015625 : 0.0009765625); } }
      else if (P.has_p && r.coin(30)) { // an a-priori upper bound carried through the interruptions: below / equal to / above the planted value
        Interval fp = P.sys->goal->eval(IntervalVector(P.p));
        if (!fp.is_empty() && fp.is_degenerated()) switch (r.below(4)) { case 0: q.init_loup = fp.lb() - 0.0009765625; break; case 1: q.init_loup = fp.lb() - 1; break; case 2: q.init_loup = fp.lb(); break; default: q.init_loup = fp.lb() + 0.5; } }
      try {
        Result R0 = run_once(P, q, full ? 600 : 160);
        if (R0.st == Optimizer::TIME_OUT && !r.coin(25)) continue;     // mostly searches that finish within the budget
        long N = (long)R0.nb;
        EMIT("optrun %s => %s\n", inputs(P, q).c_str(), outputs(R0).c_str());
        if (r.coin(60)) run_foreign(r, P, q, full ? 1200 : 320);
        // every interruption point (cells are counted two by two)
        vector<long> all; for (long k = 2; k < N; k += 2) all.push_back(k);
        size_t maxk = full ? 200 : 24;
        if (all.size() > maxk) { vector<long> sel; for (size_t i = 0; i < maxk; i++) sel.push_back(all[r.below(all.size())]); all = sel; }
        for (long k : all) { vector<long> ks(1, k); run_chain(P, q, ks, file, 2 * N + 100); }
        // chains of 2 and 3 interruptions
        for (int c = 0; c < (full ? 12 : 3) && N > 6; c++) {
          vector<long> ks; int len = r.range(2, 3); for (int i = 0; i < len; i++) ks.push_back(2 * r.range(1, (int)std::max<long>(1, N / (2 * len))));
          run_chain(P, q, ks, file, 2 * N + 100);
        }
      } catch (VerifAbort& a) { verif::optimizer_cell_budget = -1; EMIT("opterror %s %s => %s\n", P.fam.c_str(), q.tag().c_str(), sanitize(a.what()).c_str()); }
        catch (std::exception& e) { verif::optimizer_cell_budget = -1; EMIT("opterror %s %s => exception:%s\n", P.fam.c_str(), q.tag().c_str(), sanitize(typeid(e).name()).c_str()); }
    }
  } else if (wl == "cover") {
    // complete searches (or searches stopped by the cell budget) logged through the wrappers: optcover <box> <init loup> <events> => <status> <uplo> <loup>
    for (long it = 0; it < count; it++) {
      double eps_h = EH[r.below(5)];
      Prob P; bool ok = false;
      try { ok = make_problem(r, P, eps_h, r.coin(30) ? 12 : -1); } catch (std::exception& e) { ok = false; }
      if (!ok) continue;
      for (int c = 0; c < 2; c++) {
        Params q = make_params(r, P, eps_h);
        try {
          vector<string> log; Result R;
          { Assembly A(P, q, true); RNG::srand(q.rseed);
            verif::optimizer_cell_budget = full ? 1500 : 300; LOG = &log;
            A.o->optimize(P.box, q.init_loup);
            LOG = 0; verif::optimizer_cell_budget = -1; R = A.result(); }
          EMIT("optrun %s => %s\n", inputs(P, q).c_str(), outputs(R).c_str());
          if (log.size() > (full ? 40000u : 9000u)) continue;
          string ev; if (log.empty()) ev = "-"; for (size_t i = 0; i < log.size(); i++) { if (i) ev += ","; ev += log[i]; }
          EMIT("optcover %s %s %s %s %s => %s %s %s\n", P.fam.c_str(), q.tag().c_str(), tok(P.box).c_str(), hex(q.init_loup).c_str(), ev.c_str(), status_name(R.st), hex(R.uplo).c_str(), hex(R.loup).c_str());
        } catch (VerifAbort& a) { LOG = 0; verif::optimizer_cell_budget = -1; EMIT("opterror %s %s => %s\n", P.fam.c_str(), q.tag().c_str(), sanitize(a.what()).c_str()); }
          catch (std::exception& e) { LOG = 0; verif::optimizer_cell_budget = -1; EMIT("opterror %s %s => exception:%s\n", P.fam.c_str(), q.tag().c_str(), sanitize(typeid(e).name()).c_str()); }
      }
    }
  } else { fprintf(stderr, "unknown workload\n"); return 2; }
  fprintf(stderr, "emitted %ld\n", emitted);
  return 0;
}
