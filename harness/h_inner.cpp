// C14: inner operators and feasibility claims.  Lines:
//   ifwd2 <op> <X> <Y> => <Z>                                   iadd isub imul idiv imax imin : Z inside the exact range (decided exactly)
//   ifwd1 <op> <X> => <Z>                                       isqr iminus
//   ifwdo <op> <X> <lowB> <lowStrict> <upB> <upStrict> => <Z>   ilog iexp iacos iasin iatan : MPFR bounds with the OPPOSITE rounding
//   ibwd2 <op> <z> <x> <y> <xin> <yin> => <flag> <x'> <y'>      ibwd_add sub mul div max min (xin=yin=E: non-inflating)
//   ibwd1 <op> <n> <y> <x> <xin> => <flag> <x'>                 ibwd_sqr abs minus sqrt pow(n)
//   ibwdo <op> <y> <x> <xin> <encl|U|E> => <flag> <x'>          ibwd_exp log cos sin tan : encl = [RD min f(x'), RU max f(x')] by MPFR, U = undefined somewhere
//   ibwdf <dag> <spec> <box> <seed|E> <pts|-> => <result box>   Function::ibwd
//   ibwdft <dag> <y> <box> <seed|E> <[f](p) of sample points of the result|-> => <result box>   functions with exp log cos sin tan (sampled)
//   isinner <dags> <specs> <box> <pts|-> => <flag> <active bits> System::is_inner / active_ctrs
//   loup <finder> <goal dag> <ctr dag|-> <specs|-> <box> <old loup> => <point> <loup> | notfound
//   roundmode <where> => 0                                      the call left a rounding mode other than upward
#include "common.h"
#include "mpfr_oracle.h"
#include "expr_io.h"
using namespace ibex; using namespace vh; using namespace std;

static long emitted = 0;
#define EMIT(...) do { printf(__VA_ARGS__); emitted++; } while (0)
static void rm(const char* w) { if (fegetround() != FE_UPWARD) { EMIT("roundmode %s => 0\n", w); fesetround(FE_UPWARD); } }

// ------------------------------------------------------------------------------------------------
// Part A.1  forward inner operators
// ------------------------------------------------------------------------------------------------
typedef Interval (*ifn2)(const Interval&, const Interval&);
typedef Interval (*ifn1)(const Interval&);
struct F2 { const char* name; ifn2 f; };
static F2 FWD2[] = {{"iadd", iadd}, {"isub", isub}, {"imul", imul}, {"idiv", idiv}, {"imax", imax}, {"imin", imin}};
struct F1 { const char* name; ifn1 f; };
static F1 FWD1[] = {{"isqr", isqr}, {"iminus", iminus}};

static void fwd2(const Interval& x, const Interval& y) {
  for (auto& o : FWD2) { Interval z = o.f(x, y); rm(o.name); EMIT("ifwd2 %s %s %s => %s\n", o.name, tok(x).c_str(), tok(y).c_str(), rawtok(z).c_str()); }
}
static void fwd1(const Interval& x) {
  for (auto& o : FWD1) { Interval z = o.f(x); rm(o.name); EMIT("ifwd1 %s %s => %s\n", o.name, tok(x).c_str(), rawtok(z).c_str()); }
}

static const double INF = POS_INFINITY;
static double mp_up(mpfr_fn1 f, double p) { double d, u; eval1(f, p, d, u); return u; }
static double mp_dn(mpfr_fn1 f, double p) { double d, u; eval1(f, p, d, u); return d; }
static double mpi_dn() { mpfr_t p; mpfr_init2(p, 53); mpfr_const_pi(p, MPFR_RNDD); double d = mpfr_get_d(p, MPFR_RNDD); mpfr_clear(p); return d; }
static double mpi_up() { mpfr_t p; mpfr_init2(p, 53); mpfr_const_pi(p, MPFR_RNDU); double d = mpfr_get_d(p, MPFR_RNDU); mpfr_clear(p); return d; }

// bounds of the exact range of a monotone function over the part of X inside its domain, with the
// rounding that makes the comparison with a double bound exact:  l >= f(a)  <=>  l >= RU(f(a))
static void fwdo(const char* name, const Interval& x) {
  Interval z; double lowB = INF, upB = -INF; int ls = 0, us = 0;
  string nm = name;
  if (nm == "ilog") {
    z = ilog(x);
    if (!x.is_empty() && x.ub() > 0) {
      lowB = x.lb() <= 0 ? -INF : mp_up(mpfr_log, x.lb());
      upB = x.ub() == INF ? INF : mp_dn(mpfr_log, x.ub());
    }
  } else if (nm == "iexp") {
    z = iexp(x);
    if (!x.is_empty()) {
      if (x.lb() == -INF) { lowB = 0; ls = 1; } else lowB = mp_up(mpfr_exp, x.lb());
      upB = x.ub() == INF ? INF : mp_dn(mpfr_exp, x.ub());
    }
  } else if (nm == "iacos") {
    z = iacos(x);
    if (!x.is_empty() && x.lb() <= 1 && x.ub() >= -1) {
      double a = x.lb() < -1 ? -1 : x.lb(), b = x.ub() > 1 ? 1 : x.ub();
      lowB = mp_up(mpfr_acos, b); upB = mp_dn(mpfr_acos, a);
    }
  } else if (nm == "iasin") {
    z = iasin(x);
    if (!x.is_empty() && x.lb() <= 1 && x.ub() >= -1) {
      double a = x.lb() < -1 ? -1 : x.lb(), b = x.ub() > 1 ? 1 : x.ub();
      lowB = mp_up(mpfr_asin, a); upB = mp_dn(mpfr_asin, b);
    }
  } else if (nm == "iatan") {
    z = iatan(x);
    if (!x.is_empty()) {
      // limits -pi/2, pi/2 are irrational: l > -pi/2  <=>  l >= RU(-pi/2) = -RD(pi/2)
      lowB = x.lb() == -INF ? -(mpi_dn() / 2) : mp_up(mpfr_atan, x.lb());
      upB = x.ub() == INF ? mpi_dn() / 2 : mp_dn(mpfr_atan, x.ub());
    }
  } else return;
  rm(name);
  EMIT("ifwdo %s %s %s %d %s %d => %s\n", name, tok(x).c_str(), hex(lowB).c_str(), ls, hex(upB).c_str(), us, rawtok(z).c_str());
}
static const char* FWDO[] = {"ilog", "iexp", "iacos", "iasin", "iatan"};

// ------------------------------------------------------------------------------------------------
// Part A.2  inner backward projections of single operators
// ------------------------------------------------------------------------------------------------
typedef bool (*ib2)(const Interval&, Interval&, Interval&, const Interval&, const Interval&);
static Interval o_add(const Interval& a, const Interval& b) { return a + b; }
static Interval o_sub(const Interval& a, const Interval& b) { return a - b; }
static Interval o_mul(const Interval& a, const Interval& b) { return a * b; }
static Interval o_div(const Interval& a, const Interval& b) { return a / b; }
static Interval o_max(const Interval& a, const Interval& b) { return max(a, b); }
static Interval o_min(const Interval& a, const Interval& b) { return min(a, b); }
struct B2 { const char* name; ib2 b; ifn2 f; };
static B2 BWD2[] = {{"add", ibwd_add, o_add}, {"sub", ibwd_sub, o_sub}, {"mul", ibwd_mul, o_mul}, {"div", ibwd_div, o_div}, {"max", ibwd_max, o_max}, {"min", ibwd_min, o_min}};

static double moderate(Rng& r) {
  switch (r.below(6)) {
    case 0: return (double)r.range(-8, 8);
    case 1: return r.range(-40, 40) / 8.0;
    case 2: return 0.1 * r.range(-30, 30);
    case 3: { double v = (double)(int64_t)(r.next() % 20001ULL) / 1000.0 - 10.0; return v; }
    case 4: { int e = r.range(-20, 20); double m = 1.0 + (double)(r.next() >> 11) / 9007199254740992.0; double v = std::ldexp(m, e); return r.coin() ? v : -v; }
    default: return rand_double(r);
  }
}
static Interval mod_itv(Rng& r) {
  double a = moderate(r), b;
  switch (r.below(7)) { case 0: b = a; break; case 1: b = a + std::ldexp(1.0, r.range(-20, 3)); break; case 2: a = -INF; b = moderate(r); break; case 3: b = INF; break; default: b = moderate(r); }
  if (a != a || b != b) return Interval(0, 1);
  if (a > b) std::swap(a, b);
  if (a == INF || b == -INF) return Interval(0, 1);
  return Interval(a, b);
}
// a sub-interval of x (possibly degenerate), never empty for non-empty x
static Interval sub_itv(Rng& r, const Interval& x) {
  if (x.is_empty()) return x;
  double a = x.lb(), b = x.ub();
  double fa = a == -INF ? (b == INF ? -8 : b - 8) : a, fb = b == INF ? fa + 16 : b;
  auto pt = [&]() { double t = r.range(0, 16) / 16.0; double v = fa + t * (fb - fa); if (!(v >= fa)) v = fa; if (!(v <= fb)) v = fb; return v; };
  double p = pt(), q = r.coin(40) ? p : pt(); if (p > q) std::swap(p, q);
  switch (r.below(6)) { case 0: p = a == -INF ? p : a; break; case 1: q = b == INF ? q : b; break; default: break; }
  Interval s(p, q); s &= x; if (s.is_empty()) s = Interval(fa) & x; if (s.is_empty()) s = x;
  return s;
}
// an image interval around / related to v
static Interval image_around(Rng& r, const Interval& v) {
  if (v.is_empty()) return mod_itv(r);
  double l = v.lb(), u = v.ub();
  auto widen = [&](double w) { return r.coin(40) ? 0.0 : (r.coin() ? r.range(0, 16) / 8.0 : std::ldexp(1.0, r.range(-40, 4))); };
  switch (r.below(8)) {
    case 0: return Interval(-INF, u + widen(0));
    case 1: return Interval(l - widen(0), INF);
    case 2: return v;
    case 3: return Interval(l - widen(0), u + widen(0));
    case 4: return Interval(-INF, u);
    case 5: return Interval(l, INF);
    case 6: return Interval(l - widen(0), u + widen(0)) | Interval(0.0);
    default: return Interval(l - widen(0), u + widen(0));
  }
}

static void bwd2(Rng& r, const B2& o, const Interval& x, const Interval& y) {
  bool inflate = r.coin(50) && !x.is_empty() && !y.is_empty();
  Interval xin = Interval::empty_set(), yin = Interval::empty_set(), z;
  if (inflate) {
    xin = sub_itv(r, x); yin = sub_itv(r, y);
    Interval v = o.f(xin, yin);
    if (string(o.name) == "div" && yin.contains(0)) inflate = false;   // precondition xin/yin inside z cannot hold with a pole in yin
    else if (v.is_empty()) inflate = false;
    else { z = image_around(r, v); z |= v; }
    if (!inflate) { xin.set_empty(); yin.set_empty(); }
  }
  if (!inflate) {
    switch (r.below(4)) {
      case 0: z = mod_itv(r); break;
      case 1: z = rand_itv(r, 2); break;
      default: z = image_around(r, o.f(sub_itv(r, x), sub_itv(r, y)));
    }
  }
  Interval x2 = x, y2 = y;
  bool fl = o.b(z, x2, y2, xin, yin);
  rm(o.name);
  EMIT("ibwd2 %s %s %s %s %s %s => %d %s %s\n", o.name, tok(z).c_str(), tok(x).c_str(), tok(y).c_str(), tok(xin).c_str(), tok(yin).c_str(), fl ? 1 : 0, rawtok(x2).c_str(), rawtok(y2).c_str());
}

static void bwd1(Rng& r, const Interval& x) {
  // sqr abs pow sqrt minus
  int which = r.below(6);
  int n = 0; const char* name;
  switch (which) { case 0: name = "sqr"; n = 2; break; case 1: name = "abs"; break; case 2: name = "minus"; break; case 3: name = "sqrt"; break; default: name = "pow"; n = r.range(-4, 6); break; }
  string nm = name;
  auto fwd = [&](const Interval& a) -> Interval { if (nm == "sqr") return sqr(a); if (nm == "abs") return abs(a); if (nm == "minus") return -a; if (nm == "sqrt") return sqrt(a); return n == 2 ? sqr(a) : pow(a, n); };
  bool can_inflate = nm == "sqr" || nm == "abs" || nm == "pow";
  bool inflate = can_inflate && r.coin(50) && !x.is_empty();
  Interval xin = Interval::empty_set(), y;
  if (inflate) {
    xin = sub_itv(r, x);
    // the code of ibwd_pow/abs assumes that a seed does not contain 0 when y.lb()>0: guaranteed by abs/sqr(xin) in y
    Interval v = fwd(xin);
    if (v.is_empty() || (nm == "pow" && n <= 0)) { inflate = false; xin.set_empty(); }
    else { y = image_around(r, v); y |= v; }
  }
  if (!inflate) { switch (r.below(4)) { case 0: y = mod_itv(r); break; case 1: y = rand_itv(r, 2); break; default: y = image_around(r, fwd(sub_itv(r, x))); } }
  Interval x2 = x; bool fl;
  if (nm == "sqr") fl = ibwd_sqr(y, x2, xin);
  else if (nm == "abs") fl = ibwd_abs(y, x2, xin);
  else if (nm == "minus") fl = ibwd_minus(y, x2);
  else if (nm == "sqrt") fl = ibwd_sqrt(y, x2);
  else fl = ibwd_pow(y, x2, n, xin);
  rm(name);
  EMIT("ibwd1 %s %d %s %s %s => %d %s\n", name, n, tok(y).c_str(), tok(x).c_str(), tok(xin).c_str(), fl ? 1 : 0, rawtok(x2).c_str());
}

// integer k range of critical points  off + k*pi  inside [a,b]  (|a|,|b| < 1e15): returns false when out of range
static bool crit_range(double a, double b, bool half_off, long& kmin, long& kmax) {
  if (!(std::fabs(a) < 1e15) || !(std::fabs(b) < 1e15)) return false;
  mpfr_t pi, v; mpfr_init2(pi, 400); mpfr_init2(v, 400); mpfr_const_pi(pi, MPFR_RNDN);
  auto idx = [&](double t, bool up) -> long {   // (t - off)/pi rounded up / down to an integer
    mpfr_set_d(v, t, MPFR_RNDN); mpfr_div(v, v, pi, MPFR_RNDN);
    if (half_off) mpfr_sub_d(v, v, 0.5, MPFR_RNDN);
    if (up) mpfr_ceil(v, v); else mpfr_floor(v, v);
    return mpfr_get_si(v, MPFR_RNDN); };
  kmin = idx(a, true); kmax = idx(b, false);
  mpfr_clear(pi); mpfr_clear(v);
  return true;
}
// oracle enclosure token of f over the non-empty interval xp, in the exact-comparison sense
static string oracle_range(const string& nm, const Interval& xp) {
  if (xp.is_empty()) return "E";
  double a = xp.lb(), b = xp.ub();
  if (nm == "exp") { double lo = a == -INF ? 0 : mp_dn(mpfr_exp, a), hi = b == INF ? INF : mp_up(mpfr_exp, b); return hex(lo) + ":" + hex(hi); }
  if (nm == "log") { if (!(a > 0)) return "U"; double lo = mp_dn(mpfr_log, a), hi = b == INF ? INF : mp_up(mpfr_log, b); return hex(lo) + ":" + hex(hi); }
  if (a == -INF || b == INF) { if (nm == "tan") return "U"; return hex(-1.0) + ":" + hex(1.0); }
  long k1, k2;
  if (nm == "tan") {
    if (!crit_range(a, b, true, k1, k2)) return "U";
    if (k1 <= k2) return "U";                      // a pole pi/2+k*pi inside
    return hex(mp_dn(mpfr_tan, a)) + ":" + hex(mp_up(mpfr_tan, b));
  }
  bool cosf = nm == "cos";
  mpfr_fn1 f = cosf ? (mpfr_fn1)mpfr_cos : (mpfr_fn1)mpfr_sin;
  double lo = std::min(mp_dn(f, a), mp_dn(f, b)), hi = std::max(mp_up(f, a), mp_up(f, b));
  if (!crit_range(a, b, !cosf, k1, k2)) return hex(-1.0) + ":" + hex(1.0);
  // cos: extremum (-1)^k at k*pi ; sin: (-1)^k at pi/2+k*pi
  for (long k = k1; k <= k2 && k < k1 + 2; k++) { if (k % 2 == 0) hi = 1; else lo = -1; }
  return hex(lo) + ":" + hex(hi);
}
static void bwdo(Rng& r, const Interval& x0) {
  static const char* names[] = {"exp", "log", "cos", "sin", "tan"};
  string nm = names[r.below(5)];
  Interval x = x0;
  bool trig = nm == "cos" || nm == "sin" || nm == "tan";
  if (trig && r.coin(70)) { double c = r.range(-800, 800) / 64.0; x = Interval(c, c + r.range(0, 64) / 8.0); }
  // ibwd_trigo scans the periods one by one: keep the number of periods small (the run time is not the property)
  if (trig && !x.is_empty() && !(x.lb() >= -3000 && x.ub() <= 3000)) { x &= Interval(-3000, 3000); if (x.is_empty()) x = Interval(-3000, -2990); }
  if (nm == "log" && r.coin(60)) x = abs(x);
  auto fwd = [&](const Interval& a) -> Interval { if (nm == "exp") return exp(a); if (nm == "log") return log(a); if (nm == "cos") return cos(a); if (nm == "sin") return sin(a); return tan(a); };
  bool can_inflate = nm == "cos" || nm == "sin" || nm == "tan";
  bool inflate = can_inflate && r.coin(50) && !x.is_empty();
  Interval xin = Interval::empty_set(), y;
  if (inflate) {
    xin = sub_itv(r, x); if (r.coin(60)) xin = Interval(xin.lb());
    Interval v = fwd(xin);
    if (v.is_empty() || v.is_unbounded()) { inflate = false; xin.set_empty(); }
    else { y = image_around(r, v); y |= v; }
  }
  if (!inflate) { switch (r.below(4)) { case 0: y = mod_itv(r); break; case 1: y = Interval(-1, 1) & mod_itv(r); if (y.is_empty()) y = Interval(-0.5, 0.25); break; default: y = image_around(r, fwd(sub_itv(r, x))); } }
  Interval x2 = x; bool fl;
  if (getenv("C14_DEBUG")) fprintf(stderr, "ibwdo %s y=%s x=%s xin=%s\n", nm.c_str(), tok(y).c_str(), tok(x).c_str(), tok(xin).c_str());
  if (nm == "exp") fl = ibwd_exp(y, x2); else if (nm == "log") fl = ibwd_log(y, x2);
  else if (nm == "cos") fl = ibwd_cos(y, x2, xin); else if (nm == "sin") fl = ibwd_sin(y, x2, xin); else fl = ibwd_tan(y, x2, xin);
  rm(nm.c_str());
  EMIT("ibwdo %s %s %s %s %s => %d %s\n", nm.c_str(), tok(y).c_str(), tok(x).c_str(), tok(xin).c_str(), oracle_range(nm, x2).c_str(), fl ? 1 : 0, rawtok(x2).c_str());
}

// ------------------------------------------------------------------------------------------------
// Parts B, C, D: whole functions, systems, loup finders
// ------------------------------------------------------------------------------------------------
static double dyadic(Rng& r) { return r.range(-32, 32) / 8.0; }
static IntervalVector box_around(Rng& r, const Vector& p, int pct_unbounded = 6) {
  IntervalVector b(p.size());
  for (int i = 0; i < p.size(); i++) {
    double lo = p[i] - (r.coin(30) ? r.range(0, 8) / 16.0 : r.range(0, 24) / 8.0), hi = p[i] + (r.coin(30) ? r.range(0, 8) / 16.0 : r.range(0, 24) / 8.0);
    if ((int)r.below(100) < pct_unbounded) { if (r.coin()) lo = -INF; else hi = INF; }
    else if (r.coin(8)) lo = hi = p[i];
    b[i] = Interval(lo, hi);
  }
  return b;
}
static Vector point_in(Rng& r, const IntervalVector& b) {
  Vector p(b.size());
  for (int i = 0; i < b.size(); i++) {
    double a = b[i].lb(), c = b[i].ub();
    double fa = a == -INF ? (c == INF ? -4 : c - 8) : a, fc = c == INF ? fa + 8 : c;
    double v;
    switch (r.below(6)) { case 0: v = fa; break; case 1: v = fc; break; case 2: v = fa / 2 + fc / 2; break; default: { double t = r.range(0, 64) / 64.0; v = fa + t * (fc - fa); } }
    if (!(v >= fa)) v = fa; if (!(v <= fc)) v = fc;
    if (!b[i].contains(v)) v = fa;
    p[i] = v;
  }
  return p;
}
static string pts_token(Rng& r, const IntervalVector& b, int k) {
  if (b.is_empty()) return "-";
  for (int i = 0; i < b.size(); i++) if (b[i].is_empty()) return "-";
  string s;
  for (int j = 0; j < k; j++) { if (j) s += "|"; s += ptok(point_in(r, b)); }
  return s;
}
struct Fun { Function* f; Array<const ExprSymbol>* args; int nvar; vector<Function*> aux; };
static Function* make_aux(Rng& r, int k, bool sqrt_ok) {
  GenCfg c; c.allow_vec = false; c.allow_apply = false; c.max_depth = 2; c.differentiable = true; c.allow_sqrt = sqrt_ok;
  ExprGen g(r, c);
  int na = r.range(1, 2);
  Array<const ExprSymbol>* a = new Array<const ExprSymbol>(na);
  for (int i = 0; i < na; i++) { const ExprSymbol& s = ExprSymbol::new_(("a" + to_string(k) + "_" + to_string(i)).c_str(), Dim::scalar()); a->set_ref(i, s); g.syms.push_back(&s); }
  const ExprNode& e = g.gen(1, 1, 2);
  return new Function(*a, e, ("aux" + to_string(k)).c_str());
}
// a random scalar function of nv scalar variables with operators supported by the inner projection
static bool make_fun(Rng& r, int nv, Fun& out, bool for_inhc4) {
  GenCfg cfg; cfg.allow_vec = false; cfg.max_depth = r.range(1, 4); cfg.allow_apply = r.coin(25); cfg.allow_sqrt = r.coin(30);
  cfg.differentiable = for_inhc4 ? r.coin(60) : r.coin(40); cfg.allow_div = r.coin(70);
  ExprGen g(r, cfg);
  if (r.coin(30)) {
    // vector / matrix arguments (row vectors included) reached through components, sub-vectors, rows, columns and blocks;
    // a slice node may be shared by several components (index nodes that copy their sub-domain in InHC4Revise)
    int na = r.range(1, 2); out.args = new Array<const ExprSymbol>(na); out.nvar = 0;
    for (int i = 0; i < na; i++) {
      Dim d = Dim::scalar();
      switch (r.below(5)) { case 0: break; case 1: case 2: d = Dim::row_vec(r.range(2, 4)); break; case 3: d = Dim::col_vec(r.range(2, 4)); break; default: d = Dim::matrix(r.range(2, 3), r.range(2, 3)); }
      if (out.nvar + d.size() > 9) d = Dim::scalar();
      const ExprSymbol& s = ExprSymbol::new_(("x" + to_string(i)).c_str(), d); out.args->set_ref(i, s); g.syms.push_back(&s); out.nvar += d.size();
      int nsl = d.is_scalar() ? 0 : r.range(0, 2);
      for (int k = 0; k < nsl; k++) {
        const ExprNode* sl;
        if (d.is_vector()) { int n = d.vec_size(); int a = r.below(n), b = r.range(a, n - 1); sl = &s[d.type() == Dim::ROW_VECTOR ? DoubleIndex::cols(d, a, b) : DoubleIndex::rows(d, a, b)]; }
        else { int a = r.below(d.nb_rows()), b = r.range(a, d.nb_rows() - 1), c = r.below(d.nb_cols()), e = r.range(c, d.nb_cols() - 1);
               switch (r.below(4)) { case 0: sl = &s[DoubleIndex::one_row(d, a)]; break; case 1: sl = &s[DoubleIndex::one_col(d, c)]; break; case 2: sl = &s[DoubleIndex::rows(d, a, b)]; break; default: sl = &s[DoubleIndex::submatrix(d, a, b, c, e)]; } }
        int uses = r.range(1, 3);
        for (int u = 0; u < uses; u++) {
          const Dim& sd = sl->dim;
          if (sd.is_scalar()) g.pool.push_back(sl);
          else if (sd.is_vector()) g.pool.push_back(&(*sl)[r.below(sd.vec_size())]);
          else { const ExprNode& row = (*sl)[r.below(sd.nb_rows())]; g.pool.push_back(&row[r.below(sd.nb_cols())]); }
        }
      }
    }
    nv = out.nvar;
  } else {
  out.args = new Array<const ExprSymbol>(nv); out.nvar = nv;
  for (int i = 0; i < nv; i++) { const ExprSymbol& s = ExprSymbol::new_(("x" + to_string(i)).c_str(), Dim::scalar()); out.args->set_ref(i, s); g.syms.push_back(&s); }
  }
  if (cfg.allow_apply) { int nf = r.range(1, 2); for (int k = 0; k < nf; k++) { Function* f = make_aux(r, k, cfg.allow_sqrt); g.funs.push_back(f); out.aux.push_back(f); } }
  const ExprNode& e = g.gen(1, 1, cfg.max_depth);
  out.f = new Function(*out.args, e, "f");
  if (for_inhc4 && !out.f->inhc4revise().implemented()) return false;
  return true;
}

// a seed box must satisfy the documented precondition f(seed) in y at EVERY point: ibex's evaluation ignores the points where f
// is undefined, so we also require that the outer contraction w.r.t. f(x) in R (which only removes points outside the domain of
// definition) leaves the seed unchanged, and that f is defined with an image inside y at sample points of the seed
static bool seed_ok(Rng& r, Function& f, const IntervalVector& s, const Interval& y) {
  Interval fs = f.eval(s);
  if (fs.is_empty() || fs.is_unbounded() || !fs.is_subset(y)) return false;
  // an unbounded intermediate value (log or tan at a pole, ...) hidden by a product with 0: the function is undefined on the seed
  { Eval& ev = f.basic_evaluator(); for (int i = 0; i < f.nb_nodes(); i++) { const Domain& d = ev.d[i]; if (d.dim.is_scalar() && (d.i().is_empty() || d.i().is_unbounded())) return false; } }
  IntervalVector s2 = s;
  try { f.backward(Interval::all_reals(), s2); } catch (...) { return false; }
  if (s2.is_empty() || s2 != s) return false;
  auto bad = [&](const Vector& p) { Interval fp = f.eval(IntervalVector(p)); return fp.is_empty() || !fp.is_subset(y); };
  for (int j = 0; j < 12; j++) if (bad(point_in(r, s))) return false;
  int n = s.size();
  if (n <= 4 && !s.is_unbounded()) {
    for (int c = 0; c < (1 << n); c++) { Vector p(n); for (int i = 0; i < n; i++) p[i] = (c >> i) & 1 ? s[i].ub() : s[i].lb(); if (bad(p)) return false; }
    for (int i = 0; i < n; i++) if (s[i].contains(0)) { Vector p = s.mid(); p[i] = 0; if (bad(p)) return false; }   // poles of divisions
  }
  return true;
}
static void part_fun(Rng& r, long n) {
  for (long it = 0; it < n; it++) {
    try {
      int nv = r.range(1, 3);
      Fun F; if (!make_fun(r, nv, F, true)) { EMIT("skipfun notimplemented => 0\n"); continue; }
      Function& f = *F.f; nv = F.nvar;
      string dag = dump_fun(f);
      // a second function that APPLIES f through an explicit application node (Function::operator() would inline the expression
      // of f): its inner projections call the projections of f itself (apply_bwd), in the mode of the outer call
      Function* wrap = 0;
      if (r.coin(30)) { try {
        int na = f.nb_arg(); Array<const ExprSymbol> ys(na); Array<const ExprNode> yn(na);
        for (int i = 0; i < na; i++) { const ExprSymbol& s = ExprSymbol::new_(("w" + to_string(i)).c_str(), f.arg(i).dim); ys.set_ref(i, s); yn.set_ref(i, s); }
        wrap = new Function(ys, ExprApply::new_(f, yn), "wrap");
        if (!wrap->inhc4revise().implemented()) { delete wrap; wrap = 0; } } catch (...) { wrap = 0; } }
      for (int k = 0; k < 4; k++) {
        Vector planted(nv); for (int i = 0; i < nv; i++) planted[i] = dyadic(r);
        Interval v = f.eval(IntervalVector(planted));
        if (v.is_empty() || v.is_unbounded()) continue;
        IntervalVector box = box_around(r, planted);
        // requested image: around the value at the planted point
        Interval y;
        switch (r.below(7)) {
          case 0: y = Interval(-INF, v.ub() + r.range(0, 16) / 8.0); break;
          case 1: y = Interval(v.lb() - r.range(0, 16) / 8.0, INF); break;
          case 2: y = Interval(v.lb() - r.range(0, 32) / 8.0, v.ub() + r.range(0, 32) / 8.0); break;
          case 3: y = Interval(-INF, v.ub()); break;
          case 4: y = Interval(v.lb() - r.range(1, 8) / 64.0, v.ub() + r.range(1, 8) / 64.0); break;
          case 5: y = Interval(v.lb() - r.range(0, 400) / 8.0, v.ub() + r.range(0, 400) / 8.0); break;
          default: y = Interval(-INF, v.ub() + r.range(0, 400) / 8.0); break;
        }
        IntervalVector seed = IntervalVector::empty(nv);
        if (r.coin(45)) { // inflating mode: a seed box around the planted point whose (outward) image is inside y
          IntervalVector s(nv); for (int i = 0; i < nv; i++) { double w = r.coin(50) ? 0 : r.range(0, 8) / 32.0; s[i] = Interval(planted[i] - w, planted[i] + w) & box[i]; }
          if (seed_ok(r, f, s, y)) seed = s;
          else { IntervalVector s2(planted); if (seed_ok(r, f, s2, y)) seed = s2; }
        }
        if (r.coin(30) && !getenv("H_INNER_NOHIST")) { IntervalVector other = box_around(r, planted); try { f.ibwd(Interval(-1, 1), other); } catch (...) {} }   // history
        if (wrap && r.coin(60)) { // history through the applying function: a contracting call of f, then an INFLATING call of the function that applies f
          try { IntervalVector o1 = box_around(r, planted); f.ibwd(y, o1);
                Vector far(nv); for (int i = 0; i < nv; i++) far[i] = planted[i] + r.range(-24, 24) / 8.0;
                Interval vf = f.eval(IntervalVector(far));
                if (!vf.is_empty() && !vf.is_unbounded()) { IntervalVector o2(nv); for (int i = 0; i < nv; i++) o2[i] = Interval(far[i] - 4, far[i] + 4);
                  wrap->ibwd(Interval(vf.lb() - 50, vf.ub() + 50), o2, IntervalVector(far)); } } catch (...) {} }
        IntervalVector res = box;
        if (seed.is_empty() && r.coin()) f.ibwd(y, res); else f.ibwd(y, res, seed);   // (contracting mode through both entry points: the 2-argument one and the 3-argument one with an EMPTY seed)
        rm("Function::ibwd");
        EMIT("ibwdf %s in:%s %s %s %s => %s\n", dag.c_str(), mtok(y).c_str(), tok(box).c_str(), tok(seed).c_str(), pts_token(r, res, 6).c_str(), tok(res).c_str());
      }
    } catch (ibex::VerifAbort& e) { EMIT("skipfun abort => 0\n"); }
    catch (std::exception& e) { EMIT("harnesserror %s => 0\n", e.what()); }
  }
}

// ---- B': functions with transcendental nodes (exp log cos sin tan): sampled check -----------------
// the result must be inside the box and contain the seed (exact); at sample points of the result the
// library's own outward evaluation [f](p) (validated by C01/C02) must meet the image y and be non-empty
static const ExprNode& gen_trans(Rng& r, ExprGen& g, int depth) {
  if (depth <= 0) return g.gen(1, 1, r.range(0, 2));
  switch (r.below(10)) {
    case 0: return exp(gen_trans(r, g, depth - 1));
    case 1: return log(sqr(gen_trans(r, g, depth - 1)) + ExprConstant::new_scalar(r.range(1, 8) / 4.0));
    // (ibwd_trigo scans the periods one by one: arguments of moderate magnitude only, no exp / tan underneath)
    case 2: return cos(g.gen(1, 1, r.range(0, 1)));
    case 3: return sin(g.gen(1, 1, r.range(0, 1)));
    case 4: return tan(g.gen(1, 1, r.range(0, 1)));
    case 5: return log(gen_trans(r, g, depth - 1));
    case 6: return gen_trans(r, g, depth - 1) + gen_trans(r, g, depth - 1);
    case 7: return gen_trans(r, g, depth - 1) * gen_trans(r, g, depth - 1);
    case 8: return gen_trans(r, g, depth - 1) - gen_trans(r, g, depth - 1);
    default: return g.gen(1, 1, r.range(0, 2));
  }
}
static void part_funt(Rng& r, long n) {
  for (long it = 0; it < n; it++) {
    try {
      int nv = r.range(1, 3);
      GenCfg cfg; cfg.allow_vec = false; cfg.allow_apply = false; cfg.differentiable = true; cfg.allow_div = r.coin(50); cfg.max_depth = 2;
      ExprGen g(r, cfg);
      Array<const ExprSymbol> args(nv);
      for (int i = 0; i < nv; i++) { const ExprSymbol& s = ExprSymbol::new_(("x" + to_string(i)).c_str(), Dim::scalar()); args.set_ref(i, s); g.syms.push_back(&s); }
      const ExprNode& e = gen_trans(r, g, r.range(1, 3));
      Function f(args, e, "f");
      if (!f.inhc4revise().implemented()) { EMIT("skipfun notimplemented => 0\n"); continue; }
      for (int k = 0; k < 4; k++) {
        Vector planted(nv); for (int i = 0; i < nv; i++) planted[i] = dyadic(r);
        Interval v = f.eval(IntervalVector(planted));
        if (v.is_empty() || v.is_unbounded()) continue;
        IntervalVector box = box_around(r, planted, 0);
        IntervalVector seed = IntervalVector::empty(nv);
        Interval y;
        if (r.coin(60)) {
          IntervalVector s(nv); for (int i = 0; i < nv; i++) { double w = r.coin(50) ? 0 : r.range(0, 8) / 64.0; s[i] = Interval(planted[i] - w, planted[i] + w) & box[i]; }
          Interval fs = f.eval(s);
          if (seed_ok(r, f, s, Interval::all_reals())) { seed = s; v = fs; }
        }
        switch (r.below(6)) {
          case 0: y = v; break;                                                   // the tightest admissible image: the seed is on its border
          case 1: y = Interval(-INF, v.ub()); break;
          case 2: y = Interval(v.lb(), INF); break;
          case 3: y = Interval(v.lb() - r.range(0, 16) / 8.0, v.ub() + r.range(0, 16) / 8.0); break;
          case 4: y = Interval(-INF, v.ub() + r.range(0, 16) / 8.0); break;
          default: y = Interval(v.lb() - r.range(0, 4) / 64.0, v.ub() + r.range(0, 4) / 64.0); break;
        }
        IntervalVector res = box;
        if (seed.is_empty() && r.coin()) f.ibwd(y, res); else f.ibwd(y, res, seed);   // (contracting mode through both entry points: the 2-argument one and the 3-argument one with an EMPTY seed)
        rm("Function::ibwd");
        string encl = "-";
        bool ok_box = !res.is_empty(); for (int i = 0; ok_box && i < nv; i++) if (res[i].is_empty()) ok_box = false;
        if (ok_box) { encl = ""; for (int j = 0; j < 6; j++) { Vector p = point_in(r, res); Interval fp = f.eval(IntervalVector(p)); if (j) encl += "|"; encl += fp.is_empty() ? string("U") : tok(fp); } }
        EMIT("ibwdft %s %s %s %s %s => %s\n", dump_fun(f).c_str(), tok(y).c_str(), tok(box).c_str(), tok(seed).c_str(), encl.c_str(), tok(res).c_str());
      }
    } catch (ibex::VerifAbort& e) { EMIT("skipfun abort => 0\n"); }
    catch (std::exception& e) { EMIT("harnesserror %s => 0\n", e.what()); }
  }
}

static const char* opname(CmpOp o) { switch (o) { case LT: return "lt"; case LEQ: return "leq"; case EQ: return "eq"; case GEQ: return "geq"; default: return "gt"; } }
struct Sys { System* sys; int nv; Vector planted; string dag, specs; bool has_goal; string goal; Sys() : sys(0), nv(0), planted(1), has_goal(false) {} };
// a random system (goal + 0..3 scalar constraints, or one vector constraint) and a planted point where everything is defined
static bool make_sys(Rng& r, Sys& S, bool with_goal, bool ineq_only, int min_ctr, bool border = false) {
  int nv = r.range(1, 3); S.nv = nv;
  SystemFactory fac;
  Array<const ExprSymbol> x(nv); for (int i = 0; i < nv; i++) x.set_ref(i, ExprSymbol::new_(("z" + to_string(i)).c_str(), Dim::scalar()));
  fac.add_var(x);
  Vector planted(nv); for (int i = 0; i < nv; i++) planted[i] = dyadic(r);
  S.planted.resize(nv); S.planted = planted;
  auto value_at = [&](const ExprNode& e) -> Interval {
    Array<const ExprSymbol> cp(nv); for (int i = 0; i < nv; i++) cp.set_ref(i, ExprSymbol::new_(x[i].name, Dim::scalar()));
    Function tmp(cp, ExprCopy().copy(x, cp, e), "t"); return tmp.eval(IntervalVector(planted)); };
  auto gen_expr = [&](bool smooth) -> const ExprNode& {
    GenCfg cfg; cfg.allow_vec = false; cfg.allow_apply = false; cfg.max_depth = r.range(1, 3); cfg.differentiable = smooth; cfg.allow_sqrt = r.coin(25); cfg.allow_div = r.coin(60);
    ExprGen g(r, cfg); for (int i = 0; i < nv; i++) g.syms.push_back(&x[i]);
    return g.gen(1, 1, cfg.max_depth); };
  if (with_goal) {
    const ExprNode& e = gen_expr(true);
    Interval v = value_at(e); if (v.is_empty() || v.is_unbounded()) return false;
    fac.add_goal(e);
  }
  int m = r.range(min_ctr, 3);
  for (int j = 0; j < m; j++) {
    const ExprNode& e = gen_expr(r.coin(50));
    Interval v = value_at(e); if (v.is_empty() || v.is_unbounded()) return false;
    CmpOp op; double cst;
    int k = r.below(ineq_only ? 8 : 9);
    // the planted point satisfies the constraint, with a margin or exactly on the border
    double margin = r.coin(25) ? 0 : (r.coin(50) ? r.range(1, 16) / 8.0 : r.range(1, 400) / 8.0);
    // (border: a strict inequality may hold with equality at the planted point, which is then infeasible)
    if (k < 4) { op = (k % 2) ? LEQ : LT; cst = v.ub() + margin + (op == LT && margin == 0 && !border ? 0.125 : 0); }
    else if (k < 8) { op = (k % 2) ? GEQ : GT; cst = v.lb() - margin - (op == GT && margin == 0 && !border ? 0.125 : 0); }
    else { if (!v.is_degenerated()) return false; op = EQ; cst = v.lb(); }
    const ExprNode& full = (r.coin(80) || cst != cst) ? (const ExprNode&)(e - ExprConstant::new_scalar(cst)) : (const ExprNode&)(-ExprConstant::new_scalar(cst) + e);
    fac.add_ctr(ExprCtr(full, op));
  }
  S.sys = new System(fac);
  return true;
}
static void dump_sys(const System& sys, Sys& S) {
  // one DAG per constraint (the constraint functions of the system), joined by '|'
  if (sys.nb_ctr > 0) {
    S.dag = ""; S.specs = "";
    for (int c = 0; c < sys.nb_ctr; c++) { if (c) { S.dag += "|"; S.specs += "|"; } S.dag += dump_fun(sys.ctrs[c].f); S.specs += opname(sys.ctrs[c].op); }
  } else { S.dag = "-"; S.specs = "-"; }
  S.has_goal = sys.goal != NULL; S.goal = sys.goal ? dump_fun(*sys.goal) : "-";
}
static bool has_chi(const System& sys) {   // chi is lazy in ibex (an undefined unused branch is ignored) and strict in the real semantics of the model
  for (int c = 0; c < sys.nb_ctr; c++) { string d = dump_fun(sys.ctrs[c].f); if (d.find("c:") == 0 || d.find(",c:") != string::npos) return true; }
  if (sys.goal) { string d = dump_fun(*sys.goal); if (d.find("c:") == 0 || d.find(",c:") != string::npos) return true; }
  return false;
}

static void part_sys(Rng& r, long n) {
  for (long it = 0; it < n; it++) {
    try {
      Sys S; if (!make_sys(r, S, r.coin(30), false, 1, true)) continue;
      System& sys = *S.sys; if (has_chi(sys)) continue; dump_sys(sys, S);
      if (sys.f_ctrs.image_dim() != sys.nb_ctr) continue;
      for (int k = 0; k < 6; k++) {
        IntervalVector box(S.nv);
        switch (r.below(5)) {
          case 0: box = IntervalVector(S.planted); break;                                      // a point (the feasibility test of LoupFinder::check)
          case 1: { for (int i = 0; i < S.nv; i++) { double w = r.range(0, 8) / 64.0; box[i] = Interval(S.planted[i] - w, S.planted[i] + w); } } break;
          case 2: { Vector q(S.nv); for (int i = 0; i < S.nv; i++) q[i] = dyadic(r); box = IntervalVector(q); } break;
          default: box = box_around(r, S.planted, 4);
        }
        bool inner = sys.is_inner(box);
        BitSet act = sys.active_ctrs(box);
        rm("is_inner");
        string bits; for (int c = 0; c < sys.f_ctrs.image_dim(); c++) bits += act[c] ? "1" : "0";
        EMIT("isinner %s %s %s %s => %d %s\n", S.dag.c_str(), S.specs.c_str(), tok(box).c_str(), pts_token(r, box, 5).c_str(), inner ? 1 : 0, bits.c_str());
      }
    } catch (ibex::VerifAbort& e) { EMIT("skipsys abort => 0\n"); }
    catch (std::exception& e) { EMIT("harnesserror %s => 0\n", e.what()); }
  }
}

static void part_loup(Rng& r, long n) {
  for (long it = 0; it < n; it++) {
    try {
      Sys S; bool uncon = r.coin(15);
      if (!make_sys(r, S, true, r.coin(85), uncon ? 0 : 1, r.coin(30))) continue;
      System* sysp = S.sys;
      bool normalized = sysp->nb_ctr > 0 && r.coin(40);
      if (normalized) sysp = new NormalizedSystem(*S.sys, r.coin() ? 0 : NormalizedSystem::default_eps_h);
      System& sys = *sysp; if (has_chi(sys)) continue; dump_sys(sys, S);
      int which = r.below(3);
      LoupFinder* lf; const char* nm;
      bool inhc4_ok = true;
      if (which == 1) { for (int c = 0; c < sys.nb_ctr && inhc4_ok; c++) if (!sys.f_ctrs[c].inhc4revise().implemented()) inhc4_ok = false; if (!inhc4_ok) which = r.coin() ? 0 : 2; }
      switch (which) { case 0: lf = new LoupFinderProbing(sys, r.range(1, 12)); nm = "probing"; break; case 1: lf = new LoupFinderInHC4(sys); nm = "inhc4"; break; default: lf = new LoupFinderFwdBwd(sys); nm = "fwdbwd"; }
      for (int k = 0; k < 5; k++) {
        IntervalVector box = box_around(r, S.planted, 0);
        if (r.coin(30)) for (int i = 0; i < S.nv; i++) { double w = r.range(0, 8) / 32.0; box[i] = Interval(S.planted[i] - w, S.planted[i] + w); }
        double old = INF; IntervalVector oldpt = IntervalVector::empty(S.nv);
        if (r.coin(40)) { Interval gv = sys.goal->eval(IntervalVector(S.planted)); if (!gv.is_empty() && !gv.is_unbounded()) { old = gv.ub() + r.range(0, 8) / 8.0; if (r.coin()) oldpt = IntervalVector(S.planted); } }
        string res;
        try {
          BoxProperties prop(box);
          std::pair<IntervalVector, double> p = (which == 1) ? lf->find(box, oldpt, old, prop) : lf->find(box, oldpt, old);
          res = tok(p.first) + " " + hex(p.second);
        } catch (LoupFinder::NotFound&) { res = "notfound"; }
        rm(nm);
        EMIT("loup %s%s %s %s %s %s %s => %s\n", nm, normalized ? "-norm" : "", S.goal.c_str(), S.dag.c_str(), S.specs.c_str(), tok(box).c_str(), hex(old).c_str(), res.c_str());
      }
      delete lf;
    } catch (ibex::VerifAbort& e) { EMIT("skiploup abort => 0\n"); }
    catch (std::exception& e) { EMIT("harnesserror %s => 0\n", e.what()); }
  }
}

int main(int argc, char** argv) {
  string wl = argc > 1 ? argv[1] : "c14fwd";
  uint64_t seed = argc > 2 ? strtoull(argv[2], 0, 10) : 1;
  long n = argc > 3 ? atol(argv[3]) : 300;
  bool full = argc > 4 && string(argv[4]) == "full";
  Rng r(seed * 15485863 + 11);
  RNG::srand((int)(seed * 7919 + 13));
  if (wl == "c14fwd") {
    auto LI = lattice_itvs();
    for (auto& x : LI) { if (full || r.coin(30)) { fwd1(x); for (auto nm : FWDO) fwdo(nm, x); } }
    for (auto& x : LI) for (auto& y : LI) if (full ? r.below(LI.size()) < 60 : r.below(LI.size()) < 3) fwd2(x, y);
    for (long i = 0; i < n; i++) {
      Interval x = r.coin() ? rand_itv(r) : mod_itv(r), y = r.coin() ? rand_itv(r) : mod_itv(r);
      fwd2(x, y); fwd1(x); for (auto nm : FWDO) fwdo(nm, x);
      // arguments of the inverse trigonometric functions near [-1,1]
      Interval t(r.range(-80, 80) / 64.0); t |= Interval(t.lb() + std::ldexp(1.0, r.range(-50, 0)));
      fwdo("iacos", t); fwdo("iasin", t); fwdo("iatan", t); fwdo("ilog", abs(t)); fwdo("iexp", t);
    }
  } else if (wl == "c14bwd") {
    // degenerate quadrants: a bound replaced by 0 or by a tiny number of either sign
    auto zero_touch = [&](Interval& v) {
      if (v.is_empty() || !r.coin(12)) return;
      static const double tiny[] = {0.0, 4.9406564584124654e-324, DBL_MIN, 1e-300, 1e-200};
      double t = tiny[r.below(5)]; if (r.coin()) t = -t;
      if (r.coin()) { if (t <= v.ub()) v = Interval(t, v.ub()); } else { if (v.lb() <= t) v = Interval(v.lb(), t); } };
    for (long i = 0; i < n; i++) {
      Interval x = r.coin(75) ? mod_itv(r) : rand_itv(r, 1), y = r.coin(75) ? mod_itv(r) : rand_itv(r, 1);
      zero_touch(x); zero_touch(y);
      for (auto& o : BWD2) bwd2(r, o, x, y);
      bwd1(r, x); bwd1(r, y); bwdo(r, x); bwdo(r, y);
    }
  } else if (wl == "c14fun") { part_fun(r, n);
  } else if (wl == "c14funt") { part_funt(r, n);
  } else if (wl == "c14sys") { part_sys(r, n);
  } else if (wl == "c14loup") { part_loup(r, n);
  } else { fprintf(stderr, "unknown workload\n"); return 2; }
  fprintf(stderr, "emitted %ld\n", emitted);
  return 0;
}
