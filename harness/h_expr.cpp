// C02: function evaluation.  Lines:
//   evalpt <dag> <point> => <impl enclosure (matrix token)>     exact value of the DAG at the point must be inside
//   evalcert <dag> <box> => <node domains, comma separated>       every node domain encloses its operator applied to its arguments' domains
#include "common.h"
#include "expr_io.h"
#include "mp_dag.h"
#include "elem_gen.h"
#include <sys/wait.h>
#include <unistd.h>
using namespace ibex; using namespace vh; using namespace std;

static long emitted = 0;
#define EMIT(...) do { printf(__VA_ARGS__); emitted++; } while (0)

struct Built { Function* f; Array<const ExprSymbol>* args; string dag; int nvar; vector<Function*> aux; };

static Function* make_aux(Rng& r, int k) {
  // small scalar helper function of 1..2 scalar arguments
  GenCfg c; c.allow_vec = false; c.allow_apply = false; c.max_depth = 2;
  ExprGen g(r, c);
  int na = r.range(1, 2);
  Array<const ExprSymbol>* a = new Array<const ExprSymbol>(na);
  for (int i = 0; i < na; i++) { const ExprSymbol& s = ExprSymbol::new_(("a" + to_string(k) + "_" + to_string(i)).c_str(), Dim::scalar()); a->set_ref(i, s); g.syms.push_back(&s); }
  const ExprNode& e = g.gen(1, 1, 2);
  return new Function(*a, e, ("aux" + to_string(k)).c_str());
}

static Built build(Rng& r, const GenCfg& cfg, int rows, int cols) {
  Built b; ExprGen g(r, cfg);
  int ns = r.range(1, 4);
  b.args = new Array<const ExprSymbol>(ns); b.nvar = 0;
  for (int i = 0; i < ns; i++) {
    Dim d = Dim::scalar();
    if (cfg.allow_vec) switch (r.below(7)) { case 0: d = Dim::col_vec(r.range(2, 3)); break; case 1: d = Dim::row_vec(r.range(2, 3)); break; case 2: d = Dim::matrix(r.range(2, 3), r.range(2, 3)); break; case 3: d = Dim::matrix(2, r.range(3, 4)); break; default: break; }
    const ExprSymbol& s = ExprSymbol::new_(("x" + to_string(i)).c_str(), d);
    b.args->set_ref(i, s); g.syms.push_back(&s); b.nvar += d.size();
  }
  if (cfg.allow_apply) { int nf = r.below(3); for (int k = 0; k < nf; k++) { Function* f = make_aux(r, k); g.funs.push_back(f); b.aux.push_back(f); } }
  const ExprNode* ep = 0;
  if ((rows == 1) != (cols == 1) && rows * cols >= 3 && r.coin(25)) {
    // a vector whose blocks are sub-vectors and scalars, one of them with a partial domain (sqrt): exception paths + block offsets
    int n = rows * cols; int k = r.range(2, n - 1); bool row = rows == 1;
    const ExprNode& blk = g.gen(row ? 1 : k, row ? k : 1, 2);
    const ExprNode& leaf = g.leaf(1, 1);
    Array<const ExprNode> a(n - k + 1); int pos = 0; bool first = r.coin(70);
    if (first) a.set_ref(pos++, blk);
    for (int i = 0; i < n - k; i++) a.set_ref(pos++, i == 0 ? (const ExprNode&)sqrt(leaf) : g.gen(1, 1, 2));
    if (!first) a.set_ref(pos++, blk);
    ep = &ExprVector::new_(a, row ? ExprVector::ROW : ExprVector::COL);
  } else if (rows > 1 && cols > 1 && r.coin(35)) {
    // a matrix written entry by entry (a column of rows of scalar expressions with nested operators): one agenda per entry
    Array<const ExprNode> rws(rows);
    for (int i = 0; i < rows; i++) { Array<const ExprNode> en(cols); for (int j = 0; j < cols; j++) en.set_ref(j, g.gen(1, 1, std::max(2, cfg.max_depth - 1))); rws.set_ref(i, ExprVector::new_row(en)); }
    ep = &ExprVector::new_col(rws);
  } else ep = &g.gen(rows, cols, cfg.max_depth);
  const ExprNode& e = *ep;
  b.dag = dump_expr(e, *b.args);
  b.f = new Function(*b.args, e, "f");
  return b;
}

static IntervalVector gen_box(Rng& r, int n) {
  IntervalVector box(n);
  for (int i = 0; i < n; i++) {
    double c = r.range(-16, 16) / 4.0;
    switch (r.below(6)) { case 0: box[i] = Interval(c); break; case 1: box[i] = Interval(c, c + std::ldexp(1.0, r.range(-30, -2))); break;
      case 2: box[i] = Interval(c - r.range(0, 12) / 4.0, c + r.range(0, 12) / 4.0); break; case 3: box[i] = r.coin() ? Interval(c, POS_INFINITY) : Interval(NEG_INFINITY, c); break;
      default: box[i] = Interval(c, c + r.range(0, 8) / 4.0); }
  }
  return box;
}
static Vector pick_point(Rng& r, const IntervalVector& box) {
  Vector p(box.size());
  for (int i = 0; i < box.size(); i++) {
    double a = box[i].lb(), b = box[i].ub(); if (a == NEG_INFINITY) a = b - 8; if (b == POS_INFINITY) b = a + 8;
    switch (r.below(5)) { case 0: p[i] = a; break; case 1: p[i] = b; break; case 2: p[i] = box[i].is_unbounded() ? a : box[i].mid(); break;
      default: { double t = r.range(0, 16) / 16.0; double v = a + t * (b - a); if (v < a) v = a; if (v > b) v = b; p[i] = v; } }
    if (r.coin(45)) { static const double sq[] = {0, 0.25, 1, 2.25, 4, 6.25, 0.0625, 0.5625}; double v = sq[r.below(8)]; if (box[i].contains(v)) p[i] = v; }
    if (!box[i].contains(p[i])) p[i] = a;
  }
  return p;
}

static string domains_token(Function& f, const ExprNode& root, const Array<const ExprSymbol>& args) {
  // same traversal order as DagDumper::dump (post-order, arguments first)
  Eval& ev = f.basic_evaluator();
  map<const ExprNode*, int> id; vector<string> out;
  function<void(const ExprNode&)> go = [&](const ExprNode& e) {
    if (id.count(&e)) return;
    if (const ExprIndex* ix = dynamic_cast<const ExprIndex*>(&e)) go(ix->expr);
    else if (const ExprNAryOp* n = dynamic_cast<const ExprNAryOp*>(&e)) { for (int i = 0; i < n->nb_args; i++) go(n->arg(i)); }
    else if (const ExprUnaryOp* u = dynamic_cast<const ExprUnaryOp*>(&e)) go(u->expr);
    else if (const ExprBinaryOp* b = dynamic_cast<const ExprBinaryOp*>(&e)) { go(b->left); go(b->right); }
    id[&e] = (int)out.size();
    out.push_back(mtok(ev.d[f.nodes.rank(e)]));
  };
  go(root);
  string r; for (size_t i = 0; i < out.size(); i++) { if (i) r += ","; r += out[i]; } return r;
}


// ---- expressions with elementary functions (workload c02t): judged at points by the MPFR interval oracle of mp_dag.h
// ---- fixed-arity overloads of Function::Function(x1..xN, y) and Function::operator()(e1..eN), N = 1..20: each is its own code.
// The model is the expression written WITHOUT these overloads (sum of weighted arguments); the implementation is evaluated on boxes.
static void arity_tests(Rng& r) {
  for (int N = 1; N <= 20; N++) {
    Array<const ExprSymbol> a(N); for (int i = 0; i < N; i++) a.set_ref(i, ExprSymbol::new_(("a" + to_string(i)).c_str(), Dim::scalar()));
    const ExprNode* y = 0; for (int i = 0; i < N; i++) { const ExprNode& t = (double)(i + 1) * a[i]; y = y ? &(*y + t) : &t; } y = &(*y + a[0] * a[N - 1]);
    Function* g = 0;
    switch (N) {
      case 1: g = new Function(a[0], *y); break;
      case 2: g = new Function(a[0], a[1], *y); break;
      case 3: g = new Function(a[0], a[1], a[2], *y); break;
      case 4: g = new Function(a[0], a[1], a[2], a[3], *y); break;
      case 5: g = new Function(a[0], a[1], a[2], a[3], a[4], *y); break;
      case 6: g = new Function(a[0], a[1], a[2], a[3], a[4], a[5], *y); break;
      case 7: g = new Function(a[0], a[1], a[2], a[3], a[4], a[5], a[6], *y); break;
      case 8: g = new Function(a[0], a[1], a[2], a[3], a[4], a[5], a[6], a[7], *y); break;
      case 9: g = new Function(a[0], a[1], a[2], a[3], a[4], a[5], a[6], a[7], a[8], *y); break;
      case 10: g = new Function(a[0], a[1], a[2], a[3], a[4], a[5], a[6], a[7], a[8], a[9], *y); break;
      case 11: g = new Function(a[0], a[1], a[2], a[3], a[4], a[5], a[6], a[7], a[8], a[9], a[10], *y); break;
      case 12: g = new Function(a[0], a[1], a[2], a[3], a[4], a[5], a[6], a[7], a[8], a[9], a[10], a[11], *y); break;
      case 13: g = new Function(a[0], a[1], a[2], a[3], a[4], a[5], a[6], a[7], a[8], a[9], a[10], a[11], a[12], *y); break;
      case 14: g = new Function(a[0], a[1], a[2], a[3], a[4], a[5], a[6], a[7], a[8], a[9], a[10], a[11], a[12], a[13], *y); break;
      case 15: g = new Function(a[0], a[1], a[2], a[3], a[4], a[5], a[6], a[7], a[8], a[9], a[10], a[11], a[12], a[13], a[14], *y); break;
      case 16: g = new Function(a[0], a[1], a[2], a[3], a[4], a[5], a[6], a[7], a[8], a[9], a[10], a[11], a[12], a[13], a[14], a[15], *y); break;
      case 17: g = new Function(a[0], a[1], a[2], a[3], a[4], a[5], a[6], a[7], a[8], a[9], a[10], a[11], a[12], a[13], a[14], a[15], a[16], *y); break;
      case 18: g = new Function(a[0], a[1], a[2], a[3], a[4], a[5], a[6], a[7], a[8], a[9], a[10], a[11], a[12], a[13], a[14], a[15], a[16], a[17], *y); break;
      case 19: g = new Function(a[0], a[1], a[2], a[3], a[4], a[5], a[6], a[7], a[8], a[9], a[10], a[11], a[12], a[13], a[14], a[15], a[16], a[17], a[18], *y); break;
      case 20: g = new Function(a[0], a[1], a[2], a[3], a[4], a[5], a[6], a[7], a[8], a[9], a[10], a[11], a[12], a[13], a[14], a[15], a[16], a[17], a[18], a[19], *y); break;
    }
    // (1) the constructor: g evaluated on boxes against its own expression over the symbols in MY order
    string gd = dump_expr(*y, a);
    for (int k = 0; k < 3; k++) { IntervalVector box = gen_box(r, N); for (int i = 0; i < N; i++) if (box[i].is_unbounded()) box[i] = Interval(-2, 3); Interval res = g->eval(box); Vector p = pick_point(r, box);
      EMIT("evalpt %s %s => %s\n", gd.c_str(), ptok(p).c_str(), res.is_empty() ? "E" : mtok(res).c_str()); }
    // (2) the application: h(x0,x1) = g(e_1,..,e_N) with e_i = x0 + i*x1 (i odd) or x0*x1 - i (i even)
    Array<const ExprSymbol> x(2); x.set_ref(0, ExprSymbol::new_("x0", Dim::scalar())); x.set_ref(1, ExprSymbol::new_("x1", Dim::scalar()));
    vector<const ExprNode*> e, e2; for (int i = 0; i < N; i++) { for (int c = 0; c < 2; c++) { const ExprNode& t = (i % 2) ? (const ExprNode&)(x[0] + (double)(i + 1) * x[1]) : (const ExprNode&)(x[0] * x[1] - (double)(i + 1)); (c ? e2 : e).push_back(&t); } }
    const ExprNode* app = 0;
    switch (N) {
      case 1: app = &(*g)(*e[0]); break;
      case 2: app = &(*g)(*e[0], *e[1]); break;
      case 3: app = &(*g)(*e[0], *e[1], *e[2]); break;
      case 4: app = &(*g)(*e[0], *e[1], *e[2], *e[3]); break;
      case 5: app = &(*g)(*e[0], *e[1], *e[2], *e[3], *e[4]); break;
      case 6: app = &(*g)(*e[0], *e[1], *e[2], *e[3], *e[4], *e[5]); break;
      case 7: app = &(*g)(*e[0], *e[1], *e[2], *e[3], *e[4], *e[5], *e[6]); break;
      case 8: app = &(*g)(*e[0], *e[1], *e[2], *e[3], *e[4], *e[5], *e[6], *e[7]); break;
      case 9: app = &(*g)(*e[0], *e[1], *e[2], *e[3], *e[4], *e[5], *e[6], *e[7], *e[8]); break;
      case 10: app = &(*g)(*e[0], *e[1], *e[2], *e[3], *e[4], *e[5], *e[6], *e[7], *e[8], *e[9]); break;
      case 11: app = &(*g)(*e[0], *e[1], *e[2], *e[3], *e[4], *e[5], *e[6], *e[7], *e[8], *e[9], *e[10]); break;
      case 12: app = &(*g)(*e[0], *e[1], *e[2], *e[3], *e[4], *e[5], *e[6], *e[7], *e[8], *e[9], *e[10], *e[11]); break;
      case 13: app = &(*g)(*e[0], *e[1], *e[2], *e[3], *e[4], *e[5], *e[6], *e[7], *e[8], *e[9], *e[10], *e[11], *e[12]); break;
      case 14: app = &(*g)(*e[0], *e[1], *e[2], *e[3], *e[4], *e[5], *e[6], *e[7], *e[8], *e[9], *e[10], *e[11], *e[12], *e[13]); break;
      case 15: app = &(*g)(*e[0], *e[1], *e[2], *e[3], *e[4], *e[5], *e[6], *e[7], *e[8], *e[9], *e[10], *e[11], *e[12], *e[13], *e[14]); break;
      case 16: app = &(*g)(*e[0], *e[1], *e[2], *e[3], *e[4], *e[5], *e[6], *e[7], *e[8], *e[9], *e[10], *e[11], *e[12], *e[13], *e[14], *e[15]); break;
      case 17: app = &(*g)(*e[0], *e[1], *e[2], *e[3], *e[4], *e[5], *e[6], *e[7], *e[8], *e[9], *e[10], *e[11], *e[12], *e[13], *e[14], *e[15], *e[16]); break;
      case 18: app = &(*g)(*e[0], *e[1], *e[2], *e[3], *e[4], *e[5], *e[6], *e[7], *e[8], *e[9], *e[10], *e[11], *e[12], *e[13], *e[14], *e[15], *e[16], *e[17]); break;
      case 19: app = &(*g)(*e[0], *e[1], *e[2], *e[3], *e[4], *e[5], *e[6], *e[7], *e[8], *e[9], *e[10], *e[11], *e[12], *e[13], *e[14], *e[15], *e[16], *e[17], *e[18]); break;
      case 20: app = &(*g)(*e[0], *e[1], *e[2], *e[3], *e[4], *e[5], *e[6], *e[7], *e[8], *e[9], *e[10], *e[11], *e[12], *e[13], *e[14], *e[15], *e[16], *e[17], *e[18], *e[19]); break;
    }
    const ExprNode* exp = 0; for (int i = 0; i < N; i++) { const ExprNode& t = (double)(i + 1) * *e2[i]; exp = exp ? &(*exp + t) : &t; } exp = &(*exp + *e2[0] * *e2[N - 1]);
    string hd = dump_expr(*exp, x);
    Function h(x, *app, "h");
    for (int k = 0; k < 3; k++) { IntervalVector box = gen_box(r, 2); for (int i = 0; i < 2; i++) if (box[i].is_unbounded()) box[i] = Interval(-2, 3); Interval res = h.eval(box); Vector p = pick_point(r, box);
      EMIT("evalpt %s %s => %s\n", hd.c_str(), ptok(p).c_str(), res.is_empty() ? "E" : mtok(res).c_str()); }
  }
}

static void wl_c02t(Rng& r, long n) {
  for (long it = 0; it < n; it++) {
    try {
      int nv = r.range(1, 3);
      GenCfg cfg; cfg.allow_vec = false; cfg.allow_apply = false; cfg.allow_div = r.coin(40); cfg.max_depth = 2; cfg.thick_consts = false;
      ExprGen g(r, cfg);
      Array<const ExprSymbol> args(nv);
      for (int i = 0; i < nv; i++) { const ExprSymbol& s = ExprSymbol::new_(("x" + to_string(i)).c_str(), Dim::scalar()); args.set_ref(i, s); g.syms.push_back(&s); }
      const ExprNode& e0 = gen_elem(r, g, r.range(1, 3));
      // the generic operators of src/operators (atanhc, sinc), on arguments that reach the ends of their domains
      const ExprNode* ep = &e0;
      if (r.coin(18)) { const ExprNode& arg = r.coin(60) ? (const ExprNode&)args[r.below(nv)] : (const ExprNode&)(0.5 * args[r.below(nv)]);
                        const ExprNode& gop = ExprGenericUnaryOp::new_(r.coin(65) ? "atanhc" : "sinc", arg);
                        ep = r.coin() ? &(args[nv - 1] + gop) : &(e0 * 0.0 + gop * (double)r.range(1, 3)); }
      const ExprNode& e = *ep;
      string dag = dump_expr(e, args);
      Function f(args, e, "f");
      for (int k = 0; k < 3; k++) {
        IntervalVector box(nv);
        for (int i = 0; i < nv; i++) { double c = r.coin(70) ? r.range(-16, 16) / 8.0 : r.range(-400, 400) / 8.0; double w = r.coin(30) ? 0 : (r.coin() ? std::ldexp(1.0, -(int)r.range(1, 30)) : r.range(1, 16) / 8.0); box[i] = Interval(c - w, c + (r.coin(20) ? 0 : w)); }
        if (r.coin(50)) { IntervalVector other(nv); for (int i = 0; i < nv; i++) other[i] = Interval(r.range(-64, 0) / 4.0, r.range(0, 64) / 4.0); try { f.eval(other); } catch (...) {} }   // history
        Interval res = f.eval(box);
        check_round_up("eval-elementary");
        vector<Vector> pts; for (int j = 0; j < 4; j++) pts.push_back(pick_point(r, box));
        { Vector lo(nv), hi(nv); for (int i = 0; i < nv; i++) { lo[i] = box[i].lb(); hi[i] = box[i].ub(); } pts.push_back(lo); pts.push_back(hi); pts.push_back(box.mid()); }
        for (auto& p : pts) {
          bool fin = true; for (int i = 0; i < nv; i++) if (!(std::fabs(p[i]) <= DBL_MAX) || !box[i].contains(p[i])) fin = false; if (!fin) continue;
          double lo, hi; bool okv = mp_eval(e, args, p, lo, hi);
          EMIT("evalt %s %s %s %s => %s\n", dag.c_str(), tok(box).c_str(), ptok(p).c_str(), okv ? (hex(lo) + ":" + hex(hi)).c_str() : "U", res.is_empty() ? "E" : tok(res).c_str());
        }
      }
    } catch (VerifAbort& a) { EMIT("evalerror c02t abort => 0\n"); }
      catch (std::exception& e) { EMIT("evalerror c02t %s => 0\n", typeid(e).name()); }
  }
}

// A vector-valued function whose components have DIFFERENT domains of definition: f = (sqrt(x0-a) | 1/(x0-a) | log(x0-a); e1; e2).
// On a box where component 0 is undefined the evaluation of component 0 alone is (legitimately) empty; the components selected
// afterwards on the same object (eval(i,box), eval_vector(box,comps)) must still enclose their exact values.  The lines carry the
// DAG of the selected components alone, so that the exact evaluator is not stopped by the undefined one.
static void partial_family(Rng& r) {
  int n = r.range(1, 3);
  Array<const ExprSymbol> x(n); for (int i = 0; i < n; i++) x.set_ref(i, ExprSymbol::new_(("x" + to_string(i)).c_str(), Dim::scalar()));
  double a = r.range(-8, 8) / 4.0;
  GenCfg cfg; cfg.allow_vec = false; cfg.allow_apply = false; cfg.allow_div = false; cfg.max_depth = r.range(1, 3);
  ExprGen g(r, cfg); for (int i = 0; i < n; i++) g.syms.push_back(&x[i]);
  const ExprNode* e0; switch (r.below(3)) { case 0: e0 = &sqrt(x[0] - a); break; case 1: e0 = &(1.0 / (sqr(x[0] - a) - sqr(x[0] - a))); break; default: e0 = &log(x[0] - a); }
  int pos = r.below(3);   // position of the partially defined component
  const ExprNode& e1 = g.gen(1, 1, cfg.max_depth); const ExprNode& e2 = g.gen(1, 1, cfg.max_depth);
  Array<const ExprNode> comps(3); int oth[2]; { int k = 0; for (int i = 0; i < 3; i++) if (i == pos) comps.set_ref(i, *e0); else { comps.set_ref(i, k == 0 ? e1 : e2); oth[k++] = i; } }
  Array<const ExprNode> two(2); two.set_ref(0, e1); two.set_ref(1, e2);
  string dag2 = dump_expr(ExprVector::new_col(two), x);
  Function f(x, ExprVector::new_col(comps));
  for (int k = 0; k < 3; k++) {
    IntervalVector box(n); for (int i = 0; i < n; i++) { double c = r.range(-16, 16) / 4.0; box[i] = Interval(c - r.range(0, 8) / 4.0, c + r.range(0, 8) / 4.0); }
    box[0] = Interval(a - r.range(4, 16) / 4.0, a - r.range(0, 3) / 4.0);      // component `pos` is undefined (or has a pole) there
    BitSet only = BitSet::empty(3); only.add(pos);
    try { IntervalVector y0 = f.eval_vector(box, only); (void)y0; } catch (...) {}
    if (r.coin()) { try { Interval y0 = f.eval(pos, box); (void)y0; } catch (...) {} }
    Vector p = pick_point(r, box);
    BitSet sel = BitSet::empty(3); sel.add(oth[0]); sel.add(oth[1]);
    IntervalVector ys = f.eval_vector(box, sel); check_round_up("eval_vector(comps)");
    EMIT("evalpt_comps %s %s 0.1 => %s\n", dag2.c_str(), ptok(p).c_str(), mtok(ys, false).c_str());
    int w = r.below(2); Interval yi = f.eval(oth[w], box);
    EMIT("evalpt_comp %s %s %d => %s\n", dag2.c_str(), ptok(p).c_str(), w, mtok(yi).c_str());
  }
}

// An index applied to an already indexed symbol (sub-block with a row / column offset, then an entry, a row or a column of it),
// evaluated after a BACKWARD sweep on the same object (the evaluator loads only the entries of the arguments that the expression
// uses: a wrong "used entries" mask shows when a backward sweep has left a narrowed domain in an entry that is never reloaded)
static void nested_index_family(Rng& r) {
  int R = r.range(2, 4), C = r.range(2, 4);
  const ExprSymbol& A = ExprSymbol::new_("A", Dim::matrix(R, C)); const ExprSymbol& z = ExprSymbol::new_("z", Dim::scalar());
  Array<const ExprSymbol> x(2); x.set_ref(0, A); x.set_ref(1, z);
  int r1 = r.below(R), r2 = r.range(r1, R - 1), c1 = r.below(C), c2 = r.range(c1, C - 1);
  if (r1 == r2 && c1 == c2) { if (c1 > 0) c1--; else if (c2 < C - 1) c2++; else if (r1 > 0) r1--; else r2++; }
  const ExprNode& sub = A[DoubleIndex::submatrix(A.dim, r1, r2, c1, c2)];
  int i = r.below(r2 - r1 + 1), j = r.below(c2 - c1 + 1);
  const ExprNode* e;
  if (sub.dim.is_vector()) e = &sub[DoubleIndex::one_index(sub.dim, sub.dim.type() == Dim::ROW_VECTOR ? j : i)];
  else switch (r.below(3)) { case 0: e = &sub[DoubleIndex::one_elt(sub.dim, i, j)]; break;
                             case 1: e = &(sub[DoubleIndex::one_row(sub.dim, i)][DoubleIndex::one_index(Dim::row_vec(c2 - c1 + 1), j)]); break;
                             default: e = &(sub[DoubleIndex::one_col(sub.dim, j)][DoubleIndex::one_index(Dim::col_vec(r2 - r1 + 1), i)]); }
  const ExprNode& full = r.coin() ? *e : (*e + 2.0 * z);
  string dag = dump_expr(full, x);
  Function f(x, full);
  int nvar = R * C + 1;
  for (int k = 0; k < 3; k++) {
    IntervalVector b1 = gen_box(r, nvar), b2 = gen_box(r, nvar);
    try { Interval y = f.eval(b1); if (!y.is_empty()) { IntervalVector hb = b1; f.backward(y.is_unbounded() ? Interval(0, 1) : Interval(y.lb(), y.mid()), hb); } } catch (...) {}
    Interval res = f.eval(b2); check_round_up("eval-nested-index");
    string rt = res.is_empty() ? string("E") : mtok(res);
    for (int q = 0; q < 3; q++) { Vector p = pick_point(r, b2); EMIT("evalpt %s %s => %s\n", dag.c_str(), ptok(p).c_str(), rt.c_str()); }
    IntervalVector rv = f.eval_vector(b2);
    { Vector p = pick_point(r, b2); EMIT("evalpt %s %s => %s\n", dag.c_str(), ptok(p).c_str(), rv.is_empty() ? "E" : mtok(rv[0]).c_str()); }
  }
}

int main(int argc, char** argv) {
  string wl = argc > 1 ? argv[1] : "c02";
  uint64_t seed = argc > 2 ? strtoull(argv[2], 0, 10) : 1;
  long n = argc > 3 ? atol(argv[3]) : 300;
  Rng r(seed * 32452843 + 3);
  if (wl == "c02") {
    // expression forms that the numeric layer must at least survive: evaluated in a forked child (a crash is a result)
    {
      fflush(stdout);
      pid_t pid = fork();
      if (pid == 0) {
        const ExprSymbol& x = ExprSymbol::new_("x", Dim::col_vec(2)); const ExprSymbol& w = ExprSymbol::new_("w", Dim::row_vec(2));
        Function f(x, w, x * w);                       // outer product: a 2x2 matrix
        IntervalVector box(4, Interval(1, 2));
        IntervalMatrix m = f.eval_matrix(box);
        _exit((m.nb_rows() == 2 && m.nb_cols() == 2 && m[1][1] == Interval(1, 4)) ? 0 : 3);
      }
      int st = 0; waitpid(pid, &st, 0);
      if (WIFSIGNALED(st)) EMIT("evalfork outerproduct => SIGNAL%d\n", WTERMSIG(st));
      else EMIT("evalfork outerproduct => EXIT%d\n", WEXITSTATUS(st));
    }
    arity_tests(r);
    Rng r0(r.next());
    for (long it = 0; it < n; it++) {
      // one forked child per iteration: a crash of the library is one line (with the iteration number), the other iterations go on
      Rng r(r0.next() ^ (uint64_t)it * 0x9E3779B97F4A7C15ull);
      bool forked = !getenv("H_EXPR_NOFORK");
      if (forked) {
        fflush(stdout);
        pid_t pid = fork();
        if (pid > 0) { int st = 0; waitpid(pid, &st, 0); if (WIFSIGNALED(st)) EMIT("evalerror c02 crash-signal-%d-it=%ld => 0\n", WTERMSIG(st), it); continue; }
        if (pid == 0) { static char* big = 0; if (!big) big = (char*)malloc(1 << 22); setvbuf(stdout, big, _IOFBF, 1 << 22); }
        if (pid < 0) forked = false;
      }
      do {
      if (r.coin(12)) { try { partial_family(r); } catch (std::exception& e) { EMIT("evalerror partial %s => 0\n", e.what()); } }
      if (r.coin(12)) { try { nested_index_family(r); } catch (std::exception& e) { EMIT("evalerror nested-index %s => 0\n", e.what()); } }
      GenCfg cfg; cfg.max_depth = r.range(1, 4); cfg.thick_consts = false; cfg.allow_vec = r.coin(70); cfg.allow_apply = r.coin(50); cfg.allow_sqrt = r.coin(40);
      int rows = 1, cols = 1;
      if (cfg.allow_vec) switch (r.below(6)) { case 0: rows = r.range(2, 4); break; case 1: cols = r.range(2, 4); break; case 2: rows = r.range(2, 3); cols = r.range(2, 3); break; case 3: rows = r.range(2, 3); cols = r.range(3, 5); break; default: break; }
      Built b;
      try { b = build(r, cfg, rows, cols); } catch (std::exception& e) { EMIT("builderror %s => 0\n", e.what()); continue; }
      Function& f = *b.f;
      try {
      for (int k = 0; k < 3; k++) {
        IntervalVector box = gen_box(r, b.nvar);
        if (r.coin(50)) { IntervalVector other = gen_box(r, b.nvar); try { f.eval_domain(other); } catch (...) {} }   // history: an unrelated evaluation first
        if (r.coin(40)) { // history: an evaluation that is likely to leave the definition domain (empty result, exception path)
          IntervalVector bad(b.nvar); double c = r.coin() ? -64.0 : (r.coin() ? 64.0 : 0.0); for (int i = 0; i < b.nvar; i++) bad[i] = Interval(c - r.range(0, 4), c + (r.coin() ? 0 : r.range(0, 4)));
          try { Domain e = f.eval_domain(bad); (void)e; } catch (...) {} }
        if (r.coin(35)) { // history: a BACKWARD sweep (HC4Revise shares the node domains with the evaluator) on another box, with half of the image
          IntervalVector hb = gen_box(r, b.nvar);
          try { Domain yy = f.eval_domain(hb);
                if (!yy.is_empty()) { Domain half(yy.dim);
                  switch (yy.dim.type()) { case Dim::SCALAR: half.i() = Interval(yy.i().lb(), yy.i().mid()); break;
                    case Dim::ROW_VECTOR: case Dim::COL_VECTOR: half.v() = yy.v(); for (int q = 0; q < half.v().size(); q++) half.v()[q] = Interval(yy.v()[q].lb(), yy.v()[q].mid()); break;
                    default: half.m() = yy.m(); for (int q = 0; q < half.m().nb_rows(); q++) for (int s = 0; s < half.m().nb_cols(); s++) half.m()[q][s] = Interval(yy.m()[q][s].lb(), yy.m()[q][s].mid()); }
                  f.backward(half, hb); } } catch (...) {} }
        Domain res = f.eval_domain(box);
        check_round_up("eval");
        { // a node domain with an empty entry (e.g. 0^-1: no exception is raised) means the function is undefined on the whole box:
          // nothing to certify (the point checks below still reject a defined value against an empty entry)
          string dt = res.is_empty() ? string("EMPTY") : domains_token(f, f.expr(), f.args());
          if (dt.find(".E") != string::npos || dt.find("/E") != string::npos) dt = "EMPTY";
          EMIT("evalcert %s %s => %s\n", b.dag.c_str(), tok(box).c_str(), dt.c_str()); }
        string rt = res.is_empty() ? string("E") : mtok(res);
        for (int j = 0; j < 4; j++) { Vector p = pick_point(r, box); EMIT("evalpt %s %s => %s\n", b.dag.c_str(), ptok(p).c_str(), rt.c_str()); }
        // the typed entry points must agree with eval_domain
        if (!res.is_empty()) {
          if (rows == 1 && cols == 1) { Interval y = f.eval(box); EMIT("sameas eval %s => %s\n", rt.c_str(), mtok(y).c_str()); }
          else if (rows == 1 || cols == 1) {
            IntervalVector y = f.eval_vector(box); EMIT("sameas eval_vector %s => %s\n", rt.c_str(), mtok(y, rows == 1).c_str());
            int nn = rows * cols; int i = r.below(nn);
            Interval yi = f.eval(i, box); Vector p = pick_point(r, box);
            // a component alone: checked against the exact value of that component at a point
            EMIT("evalpt_comp %s %s %d => %s\n", b.dag.c_str(), ptok(p).c_str(), i, mtok(yi).c_str());
            BitSet comps = BitSet::empty(nn); vector<int> sel; for (int q = 0; q < nn; q++) if (r.coin()) { comps.add(q); sel.push_back(q); }
            if (!sel.empty()) { IntervalVector ys = f.eval_vector(box, comps); string st; for (size_t q = 0; q < sel.size(); q++) { if (q) st += "."; st += to_string(sel[q]); }
              EMIT("evalpt_comps %s %s %s => %s\n", b.dag.c_str(), ptok(p).c_str(), st.c_str(), mtok(ys, false).c_str()); }
          } else { IntervalMatrix y = f.eval_matrix(box); EMIT("sameas eval_matrix %s => %s\n", rt.c_str(), mtok(y).c_str()); }
          // the overloads that evaluate SELECTED rows / columns only (own agendas in Eval), after an unrelated call of the same overload:
          // the entries returned are checked against the exact value of the selected entries at a point
          if (rows > 1 || cols > 1) {
            auto pick = [&](int n) { BitSet b = BitSet::empty(n); while (b.empty()) for (int q = 0; q < n; q++) if (r.coin()) b.add(q); return b; };
            auto flat = [&](const BitSet& rs, const BitSet& cs) { string st; for (int i = 0; i < rows; i++) if (rs[i]) for (int j = 0; j < cols; j++) if (cs[j]) { if (!st.empty()) st += "."; st += to_string(i * cols + j); } return st; };
            BitSet rs = pick(rows), cs = pick(cols); IntervalVector other = gen_box(r, b.nvar); Vector p = pick_point(r, box);
            bool hist = r.coin(60);
            if (r.coin()) {
              if (hist) { try { f.eval_matrix(other, rs); } catch (...) {} }
              IntervalMatrix M = f.eval_matrix(box, rs); check_round_up("eval_matrix(rows)");
              EMIT("evalpt_comps %s %s %s => %s\n", b.dag.c_str(), ptok(p).c_str(), flat(rs, BitSet::all(cols)).c_str(), mtok(M).c_str());
            } else {
              if (hist) { try { f.eval_matrix(other, pick(rows), pick(cols)); } catch (...) {} }
              IntervalMatrix M = f.eval_matrix(box, rs, cs); check_round_up("eval_matrix(rows,cols)");
              EMIT("evalpt_comps %s %s %s => %s\n", b.dag.c_str(), ptok(p).c_str(), flat(rs, cs).c_str(), mtok(M).c_str());
            }
          }
        }
      }
      } catch (std::exception& e) { EMIT("evalerror %s %s => 0\n", b.dag.c_str(), e.what()); }
      } while (0);
      if (forked) { fflush(stdout); VH_EXIT(0); }
    }
  } else if (wl == "c02t") { wl_c02t(r, n);
  } else { fprintf(stderr, "unknown workload\n"); return 2; }
  fprintf(stderr, "emitted %ld\n", emitted);
  return 0;
}
