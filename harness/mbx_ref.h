// Independent reference reader for the Minibex language (property C10).
//
// Written from the documentation (doc/minibex.rst) and from the grammar file (parser.yc: rules,
// precedence table) WITHOUT using any code of the library: own lexer (maximal munch over the lexer.l
// patterns), own recursive-descent / precedence-climbing parser, own denotation (scopes, constant
// expressions, loops, sums, auxiliary functions inlined, typing rules of ibex_Dim.cpp).
// It answers, for a text:   REJECT (not valid Minibex) | UNSUPPORTED (construct outside the fragment
// modelled here) | ACCEPT with the model the text denotes:
//     variables (name, rows, cols), domains, goal DAG, list of (constraint DAG, comparison).
// DAGs are produced in the token format of expr_io.h so that the Lean driver compares them with
// the dump of the object built by the real parser (verified checkers: sameTree / normal forms /
// exact points).  Constant sub-expressions are folded with directed rounding done here with the
// FPU (no interval library): exact results give point constants, inexact ones the tightest
// enclosure.
#ifndef VERIF_MBX_REF_H
#define VERIF_MBX_REF_H
#include <string>
#include <vector>
#include <map>
#include <memory>
#include <sstream>
#include <cmath>
#include <cstdint>
#include <cstring>
#include <cstdlib>
#include <cfenv>
#include <climits>

namespace mbx {

// ------------------------------------------------------------------------------------------------
// numbers with directed rounding (independent of the interval library)
struct RoundGuard { int old; explicit RoundGuard(int m) : old(fegetround()) { fesetround(m); } ~RoundGuard() { fesetround(old); } };
inline double opdir(char op, double a, double b, int mode) {
  RoundGuard g(mode); volatile double x = a, y = b, z;
  switch (op) { case '+': z = x + y; break; case '-': z = x - y; break; case '*': z = x * y; break; default: z = x / y; }
  return z;
}
inline std::string hexd(double d) {
  if (d == 0) d = 0.0; if (d != d) return "7ff8000000000000";
  uint64_t b; std::memcpy(&b, &d, 8); char buf[20]; snprintf(buf, sizeof buf, "%016llx", (unsigned long long)b); return buf;
}

struct CI { // constant interval; `inf` = +1 / -1 : the special constants +oo / -oo (only valid as interval bounds)
  double lo, hi; bool empty; int inf;
  CI() : lo(0), hi(0), empty(false), inf(0) {}
  CI(double a, double b) : lo(a), hi(b), empty(false), inf(0) { if (!(a <= b) || a == INFINITY || b == -INFINITY) { empty = true; } }
  explicit CI(double a) : lo(a), hi(a), empty(false), inf(0) { if (a != a || std::isinf(a)) empty = true; }
  bool point() const { return !empty && lo == hi; }
  std::string tok() const { return empty ? std::string("E") : hexd(lo) + "~" + hexd(hi); }
};
struct Unsupported { std::string why; };
struct Reject { std::string why; };

inline CI ci_neg(const CI& a) { if (a.empty) return a; CI r; r.lo = -a.hi; r.hi = -a.lo; return r; }
inline CI ci_add(const CI& a, const CI& b) { if (a.empty || b.empty) { CI r; r.empty = true; return r; } return CI(opdir('+', a.lo, b.lo, FE_DOWNWARD), opdir('+', a.hi, b.hi, FE_UPWARD)); }
inline CI ci_sub(const CI& a, const CI& b) { return ci_add(a, ci_neg(b)); }
inline double mul0(double a, double b, int mode) { if (a == 0 || b == 0) return 0.0; return opdir('*', a, b, mode); }
inline CI ci_mul(const CI& a, const CI& b) {
  if (a.empty || b.empty) { CI r; r.empty = true; return r; }
  double c[4][2] = {{a.lo, b.lo}, {a.lo, b.hi}, {a.hi, b.lo}, {a.hi, b.hi}};
  double lo = INFINITY, hi = -INFINITY;
  for (auto& p : c) { double l = mul0(p[0], p[1], FE_DOWNWARD), h = mul0(p[0], p[1], FE_UPWARD); if (l < lo) lo = l; if (h > hi) hi = h; }
  return CI(lo, hi);
}
inline CI ci_div(const CI& a, const CI& b) {
  if (a.empty || b.empty) { CI r; r.empty = true; return r; }
  if (b.lo <= 0 && b.hi >= 0) throw Unsupported{"constant division by an interval containing 0"};
  if (std::isinf(a.lo) || std::isinf(a.hi) || std::isinf(b.lo) || std::isinf(b.hi)) throw Unsupported{"constant division with infinite bounds"};
  double c[4][2] = {{a.lo, b.lo}, {a.lo, b.hi}, {a.hi, b.lo}, {a.hi, b.hi}};
  double lo = INFINITY, hi = -INFINITY;
  for (auto& p : c) { double l = opdir('/', p[0], p[1], FE_DOWNWARD), h = opdir('/', p[0], p[1], FE_UPWARD); if (l < lo) lo = l; if (h > hi) hi = h; }
  return CI(lo, hi);
}

// ------------------------------------------------------------------------------------------------
// abstract syntax
enum Kind { K_NUM, K_ITV, K_BALL, K_PI, K_INF, K_SYM, K_NEG, K_ADD, K_SUB, K_MUL, K_DIV, K_POW, K_TRANS, K_CALL, K_IDX, K_ROW, K_COL, K_SUM,
            K_IDXALL, K_IDXONE, K_IDXRANGE };
struct E; typedef std::shared_ptr<E> EP;
struct E {
  Kind k; CI num; std::string name, spell; std::vector<EP> a; bool matlab = true;
  E(Kind kk) : k(kk) {}
};
// set when the denoted model contains an outer product (column * row): valid for the symbolic layer, but the numeric layer
// of the library has no operator for it (recorded finding C02-outer-product-crash)
inline bool& outer_seen() { static bool b = false; return b; }
inline EP mk(Kind k, std::vector<EP> a = {}) { EP e = std::make_shared<E>(k); e->a = a; return e; }
inline EP mkcall(const std::string& f, std::vector<EP> a) { EP e = mk(K_CALL, a); e->name = f; return e; }
inline EP mksym(const std::string& s) { EP e = mk(K_SYM); e->name = s; return e; }
inline EP mknum(double v, const std::string& spell) { EP e = mk(K_NUM); e->num = CI(v); e->spell = spell; return e; }

enum Cmp { C_EQ, C_LEQ, C_LT, C_GEQ, C_GT };
inline const char* cmpname(Cmp c) { switch (c) { case C_EQ: return "eq"; case C_LEQ: return "leq"; case C_LT: return "lt"; case C_GEQ: return "geq"; default: return "gt"; } }
inline const char* cmptext(Cmp c) { switch (c) { case C_EQ: return "="; case C_LEQ: return "<="; case C_LT: return "<"; case C_GEQ: return ">="; default: return ">"; } }

struct Item; typedef std::shared_ptr<Item> IP;
struct Item { // constraint-block item
  enum T { CTR, IN, INTEGER, TMP, LOOP } t; Cmp op = C_EQ; EP l, r; std::string name; std::vector<IP> body; bool paren = false;
};
struct Decl { std::string name; EP d1, d2; EP init; bool use_in = false; }; // constant / variable / function argument
struct Func { std::string name; std::vector<Decl> args; std::vector<std::pair<std::string, EP>> code; EP ret; };
struct Program { bool has_consts = false, has_vars = false, has_ctrs = false; std::vector<Decl> consts, vars; std::vector<Func> funcs1, funcs2; EP goal; std::vector<IP> ctrs; };

// ------------------------------------------------------------------------------------------------
// lexer
struct Tok { enum T { ID, KW, INT, FLT, CH, END, BAD } t; std::string s; double v = 0; bool exact = true; double vlo = 0, vhi = 0; };

inline const std::map<std::string, std::string>& keywords() {
  static std::map<std::string, std::string> K;
  if (K.empty()) {
    const char* multi[][2] = {{"constants", "CONST"}, {"variables", "VARS"}, {"parameters", "PARAM"}, {"function", "FUNCTION"}, {"minimize", "MINIMIZE"},
                              {"return", "RETURN"}, {"begin", "BEGIN"}, {"end", "END"}, {"for", "FOR"}, {"constraints", "CTRS"}};
    for (auto& m : multi) { std::string a = m[0], b = a, c = a; b[0] = toupper(b[0]); for (auto& ch : c) ch = toupper(ch); K[a] = K[b] = K[c] = m[1]; }
    const char* single[] = {"diff", "max", "min", "atan2", "sign", "abs", "exp", "ln", "sqr", "pow", "sqrt", "cos", "sin", "tan", "acos", "asin", "atan", "cosh", "sinh",
                            "tanh", "acosh", "asinh", "atanh", "floor", "ceil", "saw", "integer", "chi", "in", "inf", "mid", "sup", "sum", "pi", "oo"};
    for (auto s : single) K[s] = s;
  }
  return K;
}

// value of a decimal literal: nearest double and the two directed roundings (the real number may not be representable)
inline void decimal_value(const std::string& s, double& nearest, double& lo, double& hi) {
  { RoundGuard g(FE_TONEAREST); nearest = strtod(s.c_str(), 0); }
  { RoundGuard g(FE_DOWNWARD); lo = strtod(s.c_str(), 0); }
  { RoundGuard g(FE_UPWARD); hi = strtod(s.c_str(), 0); }
}

inline std::vector<Tok> lex(const std::string& t) {
  std::vector<Tok> out; size_t i = 0, n = t.size();
  auto isid0 = [](char c) { return c == '_' || isalpha((unsigned char)c); };
  auto isid = [](char c) { return c == '_' || isalnum((unsigned char)c); };
  auto isdig = [](char c) { return c >= '0' && c <= '9'; };
  while (i < n) {
    char c = t[i];
    if (c == ' ' || c == '\t' || c == '\n' || c == '\r') { i++; continue; }
    if (c == '/' && i + 1 < n && t[i + 1] == '/') { while (i < n && t[i] != '\n' && t[i] != '\r') i++; continue; }
    if (c == '/' && i + 1 < n && t[i + 1] == '*') { // "/*"([^*]|("*"[^/]))*"*/"
      size_t j = i + 2; bool closed = false;
      while (j < n) {
        if (t[j] != '*') { j++; continue; }
        if (j + 1 < n && t[j + 1] == '/') { closed = true; j += 2; break; }
        if (j + 1 < n) { j += 2; continue; }   // "*" followed by a character other than "/": both consumed
        break;
      }
      if (closed) { i = j; continue; }
      Tok k; k.t = Tok::CH; k.s = "/"; out.push_back(k); i++; continue;  // unterminated: '/' is an operator, the rest is lexed normally
    }
    if (c == '"') { size_t j = t.find_last_of('"', std::min(n - 1, t.find_first_of("\n\r", i + 1) == std::string::npos ? n - 1 : t.find_first_of("\n\r", i + 1) - 1));
      if (j != std::string::npos && j > i) { Tok k; k.t = Tok::BAD; k.s = "string"; out.push_back(k); i = j + 1; continue; } }
    if (isid0(c)) { size_t j = i; while (j < n && isid(t[j])) j++; Tok k; k.s = t.substr(i, j - i); k.t = keywords().count(k.s) ? Tok::KW : Tok::ID; if (k.t == Tok::KW) k.s = keywords().at(k.s); out.push_back(k); i = j; continue; }
    if (c == '{') { size_t j = i + 1; while (j < n && isdig(t[j])) j++; if (j > i + 1 && j < n && t[j] == '}') { Tok k; k.t = Tok::BAD; k.s = "choco-entity"; out.push_back(k); i = j + 1; continue; } }
    if (c == '#') { size_t j = i + 1; while (j < n && isxdigit((unsigned char)t[j])) j++;
      if (j > i + 1) { Tok k; k.t = Tok::FLT; k.s = t.substr(i, j - i);
        // 64-bit pattern; more than 16 significant digits do not fit: the reading is then implementation specific
        std::string h = t.substr(i + 1, j - i - 1); size_t nz = h.find_first_not_of('0'); std::string sig = nz == std::string::npos ? "0" : h.substr(nz);
        if (sig.size() > 16) { k.t = Tok::CH; k.s = "#hex-overflow"; }   // not a 64-bit pattern: not a number
        else { uint64_t u = strtoull(sig.c_str(), 0, 16); double d; std::memcpy(&d, &u, 8); k.v = k.vlo = k.vhi = d; if (d != d) { k.t = Tok::CH; k.s = "#hex-nan"; } }                // a NaN is not a number
        out.push_back(k); i = j; continue; } }
    if (isdig(c) || (c == '.' && i + 1 < n && isdig(t[i + 1]))) {
      // INT: [0-9]+ ; FLOAT: ([0-9]{6,}|[0-9]+\.[0-9]*|\.[0-9]+)(e[+-]?[0-9]+)? | [0-9]{1,5}e[+-]?[0-9]+
      size_t j = i; while (j < n && isdig(t[j])) j++; size_t nd = j - i; size_t intend = j; bool isfloat = false; size_t mant = j;
      if (nd > 0 && j < n && t[j] == '.') { j++; while (j < n && isdig(t[j])) j++; isfloat = true; mant = j; }
      else if (nd == 0) { j++; while (j < n && isdig(t[j])) j++; isfloat = true; mant = j; }
      else if (nd >= 6) { isfloat = true; mant = j; }
      // exponent
      size_t e = mant; if (e < n && t[e] == 'e') { size_t q = e + 1; if (q < n && (t[q] == '-' || t[q] == '+')) q++; size_t q0 = q; while (q < n && isdig(t[q])) q++; if (q > q0) { isfloat = true; mant = q; } }
      Tok k;
      if (isfloat) { k.t = Tok::FLT; k.s = t.substr(i, mant - i); double nr; decimal_value(k.s, nr, k.vlo, k.vhi); k.v = nr; k.exact = (k.vlo == k.vhi); i = mant; }
      else { k.t = Tok::INT; k.s = t.substr(i, intend - i); k.v = k.vlo = k.vhi = (double)atol(k.s.c_str()); i = intend; }
      out.push_back(k); continue;
    }
    if ((c == '<' || c == '>' || c == ':') && i + 1 < n && t[i + 1] == '=') { Tok k; k.t = Tok::CH; k.s = std::string(1, c) + "="; out.push_back(k); i += 2; continue; }
    Tok k; k.t = Tok::CH; k.s = std::string(1, c); out.push_back(k); i++;
  }
  Tok e; e.t = Tok::END; out.push_back(e); return out;
}

// ------------------------------------------------------------------------------------------------
// parser (syntax only; symbol kinds are resolved on the fly because `f(` / `x(` differ)
struct Parser {
  std::vector<Tok> tk; size_t p = 0;
  enum SK { S_NONE, S_CONST, S_VAR, S_FUNC, S_TMP, S_ITER };
  std::vector<std::map<std::string, SK>> scopes; // innermost last
  explicit Parser(const std::string& text) : tk(lex(text)) { scopes.push_back({}); }

  SK kind(const std::string& id) const { for (size_t i = scopes.size(); i-- > 0;) { auto f = scopes[i].find(id); if (f != scopes[i].end()) return f->second; } return S_NONE; }
  void declare(const std::string& id, SK k) { if (scopes.back().count(id)) throw Reject{"symbol re-declared in the same scope: " + id}; scopes.back()[id] = k; }
  const Tok& cur() const { return tk[p]; }
  bool isch(const char* s) const { return cur().t == Tok::CH && cur().s == s; }
  bool iskw(const char* s) const { return cur().t == Tok::KW && cur().s == s; }
  void bad() const { if (cur().t == Tok::BAD) throw Unsupported{cur().s}; }
  [[noreturn]] void err(const std::string& w) const { bad(); throw Reject{"syntax error: " + w + " near token " + std::to_string(p) + " '" + cur().s + "'"}; }
  void expectch(const char* s) { if (!isch(s)) err(std::string("expected ") + s); p++; }
  void expectkw(const char* s) { if (!iskw(s)) err(std::string("expected ") + s); p++; }
  bool newsym() const { return cur().t == Tok::ID && kind(cur().s) == S_NONE; }

  static int binprec(const Tok& t) { if (t.t != Tok::CH) return 0; if (t.s == "+" || t.s == "-") return 1; if (t.s == "*" || t.s == "/") return 2; if (t.s == "^") return 3; return 0; }

  EP expr(int minp = 1) {
    EP lhs;
    if (isch("-")) { p++; lhs = mk(K_NEG, {expr(2)}); }
    else if (isch("+")) { p++; lhs = expr(2); }
    else lhs = primary();
    for (;;) {
      bad();
      if (isch("'") && 3 >= minp) { p++; lhs = mk(K_TRANS, {lhs}); continue; }
      if ((isch("(") || isch("[")) && 4 >= minp) { lhs = index(lhs); continue; }
      int pr = binprec(cur());
      if (pr == 0 || pr < minp) break;
      char op = cur().s[0]; p++;
      EP rhs = expr(pr + 1);
      lhs = mk(op == '+' ? K_ADD : op == '-' ? K_SUB : op == '*' ? K_MUL : op == '/' ? K_DIV : K_POW, {lhs, rhs});
    }
    return lhs;
  }
  EP idxpart() {
    if (isch(":")) { p++; return mk(K_IDXALL); }
    EP a = expr();
    if (isch(":")) { p++; EP b = expr(); return mk(K_IDXRANGE, {a, b}); }
    return mk(K_IDXONE, {a});
  }
  EP index(EP base) {
    bool matlab = isch("("); p++;
    EP i1 = idxpart(); EP r;
    if (matlab && isch(",")) { p++; EP i2 = idxpart(); r = mk(K_IDX, {base, i1, i2}); }
    else r = mk(K_IDX, {base, i1});
    r->matlab = matlab;
    expectch(matlab ? ")" : "]");
    return r;
  }
  std::vector<EP> arglist(size_t minargs) { // '(' expr (',' expr)* ')'
    expectch("("); std::vector<EP> a; a.push_back(expr()); while (isch(",")) { p++; a.push_back(expr()); } expectch(")");
    if (a.size() < minargs) err("too few arguments"); return a;
  }
  EP primary() {
    bad();
    const Tok& t = cur();
    if (t.t == Tok::INT || t.t == Tok::FLT) { EP e = mk(K_NUM); e->num = t.exact ? CI(t.v) : CI(t.vlo, t.vhi); e->spell = t.s; p++; return e; }
    if (t.t == Tok::KW) {
      std::string k = t.s;
      if (k == "pi") { p++; return mk(K_PI); }
      if (k == "oo") { p++; return mk(K_INF); }
      static const char* un[] = {"sign", "abs", "exp", "ln", "sqr", "sqrt", "cos", "sin", "tan", "acos", "asin", "atan", "cosh", "sinh", "tanh", "acosh", "asinh", "atanh", "floor", "ceil", "saw", "inf", "mid", "sup"};
      for (auto u : un) if (k == u) { p++; std::vector<EP> a = arglist(1); if (a.size() != 1) err("one argument expected"); return mkcall(k, a); }
      if (k == "max" || k == "min") { p++; std::vector<EP> a = arglist(2); return mkcall(k, a); }
      if (k == "atan2" || k == "pow") { p++; std::vector<EP> a = arglist(2); if (a.size() != 2) err("two arguments expected"); return mkcall(k, a); }
      if (k == "chi") { p++; std::vector<EP> a = arglist(3); if (a.size() != 3) err("three arguments expected"); return mkcall(k, a); }
      if (k == "diff") throw Unsupported{"diff"};
      if (k == "sum") {
        p++; expectch("("); if (!newsym()) err("new symbol expected as iterator"); std::string it = cur().s; p++; expectch("=");
        EP a = expr(); expectch(":"); EP b = expr(); expectch(",");
        scopes.push_back({}); declare(it, S_ITER); EP body = expr(); scopes.pop_back(); expectch(")");
        EP e = mk(K_SUM, {a, b, body}); e->name = it; return e;
      }
      err("unexpected keyword " + k);
    }
    if (t.t == Tok::ID) {
      SK k = kind(t.s);
      if (k == S_NONE) err("unknown symbol " + t.s);
      if (k == S_FUNC) { std::string f = t.s; p++; std::vector<EP> a = arglist(1); EP e = mkcall(f, a); e->spell = "user"; return e; }
      p++; return mksym(t.s);
    }
    if (isch("(")) {
      p++; EP first = expr();
      if (isch(")")) { p++; return first; }
      if (isch(",")) { std::vector<EP> a{first}; while (isch(",")) { p++; a.push_back(expr()); } expectch(")"); return mk(K_ROW, a); }
      if (isch(";")) { std::vector<EP> a{first}; while (isch(";")) { p++; a.push_back(expr()); } expectch(")"); return mk(K_COL, a); }
      err("expected ) , or ;");
    }
    if (isch("[")) { p++; EP a = expr(); expectch(","); EP b = expr(); expectch("]"); return mk(K_ITV, {a, b}); }
    if (isch("<")) { p++; EP c = expr(); expectch(","); EP rr = expr(); expectch(">"); return mk(K_BALL, {c, rr}); }     // ball constant <centre,radius>
    err("expression expected");
  }

  // dimension: ε | '[' expr ']' | '[' expr ']' '[' expr ']'
  void dimension(Decl& d) { if (isch("[")) { p++; d.d1 = expr(); expectch("]"); if (isch("[")) { p++; d.d2 = expr(); expectch("]"); } } }

  Cmp cmpop() {
    Cmp c;
    if (isch("=")) c = C_EQ; else if (isch("<=")) c = C_LEQ; else if (isch(">=")) c = C_GEQ; else if (isch("<")) c = C_LT; else if (isch(">")) c = C_GT; else err("comparison expected");
    p++; return c;
  }
  IP ctr() {
    bad();
    IP it = std::make_shared<Item>();
    if (iskw("integer")) { p++; expectch("("); it->t = Item::INTEGER; it->l = expr(); expectch(")"); return it; }
    if (newsym()) { it->t = Item::TMP; it->name = cur().s; p++; expectch("="); it->l = expr(); declare(it->name, S_TMP); return it; }
    if (isch("(")) { // '(' ctr ')'  or an expression starting with a parenthesis
      size_t save = p; auto sc = scopes;
      try { return ctr_plain(); }
      catch (Reject&) { p = save; scopes = sc; }
      p++; IP in = ctr(); expectch(")"); in->paren = true; return in;
    }
    return ctr_plain();
  }
  IP ctr_plain() {
    IP it = std::make_shared<Item>();
    it->l = expr();
    if (iskw("in")) { p++; it->t = Item::IN; it->r = expr(); return it; }
    it->t = Item::CTR; it->op = cmpop(); it->r = expr(); return it;
  }
  IP loop() {
    expectkw("FOR"); IP it = std::make_shared<Item>(); it->t = Item::LOOP;
    if (!newsym()) err("new symbol expected as iterator"); it->name = cur().s; p++; expectch("=");
    it->l = expr(); expectch(":"); it->r = expr(); expectch(";");
    scopes.push_back({}); declare(it->name, S_ITER); it->body = ctrlist(); scopes.pop_back();
    expectkw("END"); return it;
  }
  // non-empty list; ';' mandatory between a constraint and what follows, optional after a loop and at the end
  std::vector<IP> ctrlist() {
    std::vector<IP> l;
    for (;;) {
      bool isloop = iskw("FOR");
      l.push_back(isloop ? loop() : ctr());
      bool semi = false; if (isch(";")) { p++; semi = true; }
      if (iskw("END") || cur().t == Tok::END || isch(")")) break;
      if (!semi && !isloop) err("; expected between constraints");
    }
    return l;
  }
  Func function() {
    expectkw("FUNCTION"); Func f; scopes.push_back({});
    // function scope: constants and functions of the global scope stay visible, variables do not
    auto saved = scopes; std::map<std::string, SK> vis; for (auto& s : scopes) for (auto& kv : s) if (kv.second == S_CONST || kv.second == S_FUNC) vis[kv.first] = kv.second;
    scopes.clear(); scopes.push_back(vis); scopes.push_back({});
    try {
      if (!newsym()) err("function name expected"); f.name = cur().s; p++; expectch("(");
      for (;;) { if (!newsym()) err("argument name expected"); Decl d; d.name = cur().s; p++; dimension(d); declare(d.name, S_VAR); f.args.push_back(d); if (isch(",")) { p++; continue; } break; }
      expectch(")");
      while (!iskw("RETURN")) {
        if (cur().t != Tok::ID || !(kind(cur().s) == S_NONE || kind(cur().s) == S_CONST)) err("assignment or return expected");
        std::string n = cur().s; p++; expectch("="); EP e = expr(); expectch(";");
        if (scopes.back().count(n)) throw Reject{"temporary symbol re-assigned"};
        scopes.back()[n] = S_TMP; f.code.push_back({n, e});
      }
      expectkw("RETURN"); f.ret = expr(); if (isch(";")) p++; expectkw("END");
    } catch (...) { scopes = saved; scopes.pop_back(); throw; }
    scopes = saved; scopes.pop_back();
    declare(f.name, S_FUNC);
    return f;
  }
  Program program() {
    Program P;
    if (iskw("CONST")) {
      p++; P.has_consts = true;
      if (isch("*")) throw Unsupported{"mutable constant"};
      if (newsym()) {
        for (;;) {
          if (isch("*")) throw Unsupported{"mutable constant"};
          if (!newsym()) err("constant name expected"); Decl d; d.name = cur().s; p++; dimension(d);
          if (isch("=")) p++; else if (iskw("in")) { p++; d.use_in = true; } else err("= or in expected");
          d.init = expr(); declare(d.name, S_CONST); P.consts.push_back(d);
          expectch(";");
          if (newsym() || isch("*")) continue;
          break;
        }
      }
    }
    while (iskw("FUNCTION")) P.funcs1.push_back(function());
    if (iskw("VARS")) {
      p++; P.has_vars = true;
      for (;;) {
        if (!newsym()) err("variable name expected"); Decl d; d.name = cur().s; p++; dimension(d);
        if (iskw("in")) { p++; d.init = expr(); }
        declare(d.name, S_VAR); P.vars.push_back(d);
        if (isch(",")) { p++; continue; }
        expectch(";");
        if (newsym()) continue;
        break;
      }
      while (iskw("FUNCTION")) P.funcs2.push_back(function());
      if (iskw("MINIMIZE")) { p++; P.goal = expr(); if (isch(";")) p++; }
      if (iskw("CTRS")) {
        p++; P.has_ctrs = true; scopes.push_back({});
        if (isch(";")) { p++; expectkw("END"); }
        else if (iskw("END")) p++;
        else { P.ctrs = ctrlist(); expectkw("END"); }
        scopes.pop_back();
      }
    }
    if (cur().t != Tok::END) err("end of text expected");
    return P;
  }
};

// ------------------------------------------------------------------------------------------------
// denotation
struct Val {
  int r = 1, c = 1; bool isconst = false; std::vector<CI> cst; int node = -1;
  bool scalar() const { return r == 1 && c == 1; }
};
struct Model {
  struct Var { std::string name; int r, c; std::vector<CI> dom; };
  std::vector<Var> vars; bool inexact_box = false; bool has_goal = false; std::string goal; std::vector<std::pair<std::string, std::string>> ctrs; // (op, dag)
  std::string vars_tok() const { std::string s; for (auto& v : vars) { if (!s.empty()) s += ","; s += v.name + "@" + std::to_string(v.r) + "." + std::to_string(v.c); } return s.empty() ? "-" : s; }
  // `~` marks a box some bound of which is written with a decimal literal that is not a binary64 number: the
  // token then gives the outward rounding, and the implementation may use either neighbour
  std::string box_tok() const { std::string s; for (auto& v : vars) for (auto& d : v.dom) { if (d.empty) return "E"; if (!s.empty()) s += ";"; s += hexd(d.lo) + ":" + hexd(d.hi); } return s.empty() ? "-" : (inexact_box ? "~" + s : s); }
  std::string goal_tok() const { return has_goal ? goal : "-"; }
  std::string ctrs_tok() const { std::string s; for (auto& c : ctrs) { if (!s.empty()) s += "|"; s += c.first + "^" + c.second; } return s.empty() ? "-" : s; }
  int nvar() const { int n = 0; for (auto& v : vars) n += v.r * v.c; return n; }
};

struct Denoter {
  struct Sym { Parser::SK k = Parser::S_NONE; Val v; int iter = 0; const Func* f = nullptr; EP def; size_t depth = 0; int gen = -1; int r = 1, c = 1, off = 0; };
  std::vector<std::map<std::string, Sym>> scopes;
  struct N { std::string head, tail; std::vector<int> ch; char sep; int r, c; };
  std::vector<N> nodes;     // DAG under construction
  int curgen = 0;
  long budget = 200000;

  Sym* find(const std::string& n) { for (size_t i = scopes.size(); i-- > 0;) { auto f = scopes[i].find(n); if (f != scopes[i].end()) return &f->second; } return nullptr; }
  int emit(const std::string& head, std::vector<int> ch, const std::string& tail, int r, int c, char sep = ':') {
    if ((long)nodes.size() > budget) throw Unsupported{"expression too large"};
    nodes.push_back(N{head, tail, ch, sep, r, c}); return (int)nodes.size() - 1;
  }
  void start_dag() { nodes.clear(); curgen++; }
  // the sub-DAG reachable from `root`, in post-order (root last), as a token
  std::string dag(int root) const {
    std::vector<int> id(nodes.size(), -1); std::vector<std::string> out;
    std::vector<std::pair<int, size_t>> st; st.push_back({root, 0});
    while (!st.empty()) {
      int n = st.back().first; size_t& k = st.back().second;
      if (id[n] >= 0) { st.pop_back(); continue; }
      if (k < nodes[n].ch.size()) { int c = nodes[n].ch[k++]; if (id[c] < 0) st.push_back({c, 0}); continue; }
      const N& x = nodes[n]; std::string s = x.head;
      for (size_t i = 0; i < x.ch.size(); i++) { if (i) s += x.sep; s += std::to_string(id[x.ch[i]]); }
      s += x.tail + "@" + std::to_string(x.r) + "." + std::to_string(x.c);
      id[n] = (int)out.size(); out.push_back(s); st.pop_back();
    }
    std::string r; for (size_t i = 0; i < out.size(); i++) { if (i) r += ","; r += out[i]; } return r;
  }

  static Val cval(int r, int c, std::vector<CI> d) { Val v; v.r = r; v.c = c; v.isconst = true; v.cst = d; return v; }
  static Val cscalar(CI x) { return cval(1, 1, {x}); }
  // node of a value (constants become constant nodes)
  int nodeof(Val& v) {
    if (!v.isconst) return v.node;
    for (auto& x : v.cst) if (x.inf) throw Reject{"unexpected infinity symbol"};
    std::string s = "k:"; for (size_t i = 0; i < v.cst.size(); i++) { if (i) s += "/"; s += v.cst[i].tok(); }
    return emit(s, {}, "", v.r, v.c);
  }
  Val nval(int node, int r, int c) { Val v; v.r = r; v.c = c; v.node = node; return v; }
  Val un(const std::string& op, const Val& a, int r, int c) { return nval(emit("u:" + op + ":", {a.node}, "", r, c), r, c); }
  Val bin(const std::string& op, int x, int y, int r, int c) { return nval(emit("b:" + op + ":", {x, y}, "", r, c), r, c); }

  // ---- constant helpers
  static int to_int(const Val& v, const char* what) {
    if (!v.isconst) throw Reject{std::string("constant expected for ") + what};
    if (!v.scalar()) throw Reject{std::string("scalar expected for ") + what};
    const CI& x = v.cst[0];
    if (x.inf || x.empty || !x.point()) throw Unsupported{std::string("non-degenerate constant used as ") + what};
    if (std::floor(x.lo) != x.lo) throw Unsupported{std::string("non-integer constant used as ") + what};
    if (std::fabs(x.lo) > 1e6) throw Unsupported{"huge integer"};
    return (int)x.lo;
  }
  static void nofinf(const Val& v) { for (auto& x : v.cst) if (x.inf) throw Reject{"unexpected infinity symbol"}; }

  Val add(Val a, Val b, bool sub) {
    if (!(a.r == b.r && a.c == b.c)) throw Reject{"mismatched dimensions in addition"};
    if (a.isconst && b.isconst) { nofinf(a); nofinf(b); std::vector<CI> d; for (size_t i = 0; i < a.cst.size(); i++) d.push_back(sub ? ci_sub(a.cst[i], b.cst[i]) : ci_add(a.cst[i], b.cst[i])); return cval(a.r, a.c, d); }
    int x = nodeof(a), y = nodeof(b);
    return bin(sub ? "sub" : "add", x, y, a.r, a.c);
  }
  static void muldim(const Val& a, const Val& b, int& r, int& c) {
    if (a.scalar()) { r = b.r; c = b.c; return; }
    if (a.c != b.r) throw Reject{"mismatched dimensions in multiplication"};
    r = a.r; c = b.c;
  }
  Val mul(Val a, Val b) {
    int r, c; muldim(a, b, r, c);
    if (a.isconst && b.isconst) {
      nofinf(a); nofinf(b); std::vector<CI> d;
      if (a.scalar()) { for (auto& x : b.cst) d.push_back(ci_mul(a.cst[0], x)); }
      else for (int i = 0; i < r; i++) for (int j = 0; j < c; j++) { CI s; bool first = true; for (int k = 0; k < a.c; k++) { CI p = ci_mul(a.cst[i * a.c + k], b.cst[k * b.c + j]); s = first ? p : ci_add(s, p); first = false; } d.push_back(s); }
      return cval(r, c, d);
    }
    if (!a.scalar() && a.c == 1 && a.r > 1 && b.r == 1 && b.c > 1) outer_seen() = true;
    int x = nodeof(a), y = nodeof(b);
    return bin("mul", x, y, r, c);
  }
  // product of expressions: "e1*e2 matrix-vector multiplication or dot product" — a column vector on the left of an
  // operand with several rows is transposed (dot product of two column vectors, column vector times matrix)
  Val mulx(Val a, Val b) {
    if (!(a.isconst && b.isconst) && a.c == 1 && a.r > 1 && b.r > 1) { if (a.isconst) { int n = nodeof(a); a = nval(n, a.r, a.c); } a = trans(a); }
    return mul(a, b);
  }
  Val divv(Val a, Val b) {
    if (!a.scalar() || !b.scalar()) throw Reject{"cannot divide non-scalar expressions"};
    if (a.isconst && b.isconst) { nofinf(a); nofinf(b); return cscalar(ci_div(a.cst[0], b.cst[0])); }
    int x = nodeof(a), y = nodeof(b); return bin("div", x, y, 1, 1);
  }
  Val neg(Val a) {
    if (a.isconst) { std::vector<CI> d; for (auto& x : a.cst) { if (x.inf) { CI y = x; y.inf = -x.inf; d.push_back(y); } else d.push_back(ci_neg(x)); } return cval(a.r, a.c, d); }
    return un("minus", a, a.r, a.c);
  }
  Val trans(Val a) {
    if (a.isconst) { nofinf(a); std::vector<CI> d; for (int j = 0; j < a.c; j++) for (int i = 0; i < a.r; i++) d.push_back(a.cst[i * a.c + j]); return cval(a.c, a.r, d); }
    if (a.scalar()) return a;
    return un("trans", a, a.c, a.r);
  }
  static CI ci_powi(CI x, int n) { // exact or unsupported
    if (n == 0) return CI(1.0);
    bool inv = n < 0; unsigned m = inv ? -n : n; CI r(1.0);
    bool even = (m % 2 == 0);
    CI b = x; if (even && !x.empty && x.lo < 0 && x.hi > 0) { if (!x.point()) throw Unsupported{"even power of a constant interval containing 0"}; }
    if (even && !x.empty && x.hi <= 0) b = ci_neg(x);
    for (unsigned i = 0; i < m; i++) r = ci_mul(r, b);
    if (inv) r = ci_div(CI(1.0), r);
    if (!r.point()) throw Unsupported{"inexact constant power"};
    return r;
  }
  Val power(Val a, Val b) {
    if (b.isconst) {
      if (!b.scalar()) throw Reject{"exponent must be scalar"};
      nofinf(b); const CI& e = b.cst[0];
      bool isint = !e.empty && e.point() && std::floor(e.lo) == e.lo;
      if (a.isconst) {
        if (!a.scalar()) throw Unsupported{"power of a non-scalar constant"};
        nofinf(a);
        if (!isint) throw Unsupported{"constant raised to a non-integer power"};
        if (std::fabs(e.lo) > 64) throw Unsupported{"huge exponent"};
        return cscalar(ci_powi(a.cst[0], (int)e.lo));
      }
      if (isint) {
        if (std::fabs(e.lo) > 2e9) throw Unsupported{"huge exponent"};
        int n = (int)e.lo;
        if (n == 1) return a;
        if (!a.scalar()) throw Reject{"cannot raise a non-scalar value to some power"};
        if (n == 2) return un("sqr", a, 1, 1);
        return nval(emit("p:", {a.node}, ":" + std::to_string(n), 1, 1), 1, 1);
      }
      // exp(c * log(x))
      if (e.empty) throw Unsupported{"empty exponent"};
      if (!a.scalar()) throw Reject{"log expects a scalar argument"};
      int k = nodeof(b); Val l = un("log", a, 1, 1);
      Val m = bin("mul", k, l.node, 1, 1);
      return un("exp", m, 1, 1);
    }
    if (a.isconst) throw Unsupported{"constant raised to a variable power (logarithm of a constant)"};
    if (!a.scalar()) throw Reject{"log expects a scalar argument"};
    Val lv = un("log", a, 1, 1);
    Val m = mulx(b, lv);
    if (!m.scalar()) throw Reject{"exp expects a scalar argument"};
    return un("exp", m, 1, 1);
  }
  Val vec(std::vector<Val> parts, bool row) {
    int r = 0, c = 0;
    if (row) { r = parts[0].r; for (auto& p : parts) { if (p.r != r) throw Reject{"heterogeneous components"}; c += p.c; } }
    else { c = parts[0].c; for (auto& p : parts) { if (p.c != c) throw Reject{"heterogeneous components"}; r += p.r; } }
    bool allc = true; for (auto& p : parts) allc = allc && p.isconst;
    if (allc) {
      for (auto& p : parts) nofinf(p);
      std::vector<CI> d(r * c);
      if (row) { int off = 0; for (auto& p : parts) { for (int i = 0; i < p.r; i++) for (int j = 0; j < p.c; j++) d[i * c + off + j] = p.cst[i * p.c + j]; off += p.c; } }
      else { int off = 0; for (auto& p : parts) { for (int i = 0; i < p.r; i++) for (int j = 0; j < p.c; j++) d[(off + i) * c + j] = p.cst[i * p.c + j]; off += p.r; } }
      return cval(r, c, d);
    }
    std::vector<int> ch; for (auto& p : parts) ch.push_back(nodeof(p));
    return nval(emit(std::string("V:") + (row ? "row" : "col") + ":", ch, "", r, c, '.'), r, c);
  }
  // index bounds of one part: returns false for "all"
  bool idxrange(const EP& ix, bool matlab, int& i1, int& i2) {
    if (ix->k == K_IDXALL) return false;
    if (ix->k == K_IDXONE) { Val v = eval(ix->a[0]); i1 = i2 = to_int(v, "index"); }
    else { Val a = eval(ix->a[0]), b = eval(ix->a[1]); i1 = to_int(a, "index"); i2 = to_int(b, "index"); }
    if (matlab) { i1--; i2--; }
    if (i1 < 0 || i2 < 0) throw Reject{"negative index"};
    return true;
  }
  Val index(Val base, const EP& e) {
    int r1, r2, c1, c2; bool matlab = e->matlab;
    if (e->a.size() == 2) {
      int i1, i2; bool some = idxrange(e->a[1], matlab, i1, i2);
      if (!some) { r1 = 0; r2 = base.r - 1; c1 = 0; c2 = base.c - 1; }
      else if (base.r > 1) { r1 = i1; r2 = i2; c1 = 0; c2 = base.c - 1; }
      else { r1 = 0; r2 = base.r - 1; c1 = i1; c2 = i2; }
    } else {
      int i1, i2, j1, j2; bool sr = idxrange(e->a[1], matlab, i1, i2), sc = idxrange(e->a[2], matlab, j1, j2);
      if (sr) { r1 = i1; r2 = i2; } else { r1 = 0; r2 = base.r - 1; }
      if (sc) { c1 = j1; c2 = j2; } else { c1 = 0; c2 = base.c - 1; }
    }
    if (r2 >= base.r || c2 >= base.c) throw Reject{"index out of bounds"};
    if (r1 > r2 || c1 > c2) throw Reject{"malformed indices"};
    int r = r2 - r1 + 1, c = c2 - c1 + 1;
    if (base.isconst) { nofinf(base); std::vector<CI> d; for (int i = r1; i <= r2; i++) for (int j = c1; j <= c2; j++) d.push_back(base.cst[i * base.c + j]); return cval(r, c, d); }
    std::ostringstream s; s << ":" << r1 << ":" << r2 << ":" << c1 << ":" << c2;
    return nval(emit("i:", {base.node}, s.str(), r, c), r, c);
  }
  static std::string unname(const std::string& k) { if (k == "ln") return "log"; return k; }
  Val call(const EP& e) {
    const std::string& f = e->name;
    if (e->spell == "user") {
      Sym* s = find(f); if (!s || s->k != Parser::S_FUNC) throw Reject{"unknown function"};
      const Func& fn = *s->f;
      if (fn.args.size() != e->a.size()) throw Reject{"wrong number of arguments"};
      std::vector<Val> av; for (auto& a : e->a) av.push_back(eval(a));
      // a function applied to constants only is a constant; otherwise the arguments are substituted as
      // expressions in the body (a constant argument is then a constant LEAF: nothing is folded with it)
      bool allc = true; for (auto& v : av) allc = allc && v.isconst;
      if (!allc) for (auto& v : av) if (v.isconst) { int n = nodeof(v); v = nval(n, v.r, v.c); }
      return apply(fn, av);
    }
    std::vector<Val> av; for (auto& a : e->a) av.push_back(eval(a));
    bool allc = true; for (auto& v : av) allc = allc && v.isconst;
    if (f == "max" || f == "min") {
      for (auto& v : av) if (!v.scalar()) throw Reject{"max/min expect scalar arguments"};
      if (allc) { for (auto& v : av) nofinf(v); CI x = av[0].cst[0]; for (size_t i = 1; i < av.size(); i++) { const CI& y = av[i].cst[0]; if (x.empty || y.empty) throw Unsupported{"max of empty constants"};
          x = f == "max" ? CI(std::max(x.lo, y.lo), std::max(x.hi, y.hi)) : CI(std::min(x.lo, y.lo), std::min(x.hi, y.hi)); } return cscalar(x); }
      int cur = nodeof(av[0]);
      for (size_t i = 1; i < av.size(); i++) { int y = nodeof(av[i]); cur = bin(f, cur, y, 1, 1).node; }
      return nval(cur, 1, 1);
    }
    if (f == "atan2") { if (!av[0].scalar() || !av[1].scalar()) throw Reject{"atan2 expects scalar arguments"}; if (allc) throw Unsupported{"atan2 of constants"};
      int x = nodeof(av[0]), y = nodeof(av[1]); return bin("atan2", x, y, 1, 1); }
    if (f == "pow") return power(av[0], av[1]);
    if (f == "chi") { for (auto& v : av) if (!v.scalar()) throw Reject{"chi expects scalar arguments"};
      if (allc) { for (auto& v : av) nofinf(v); const CI& a = av[0].cst[0]; const CI& b = av[1].cst[0]; const CI& c = av[2].cst[0];
        if (a.empty || b.empty || c.empty) throw Unsupported{"chi of an empty constant"};
        if (a.hi <= 0) return av[1]; if (a.lo > 0) return av[2]; return cscalar(CI(std::min(b.lo, c.lo), std::max(b.hi, c.hi))); }
      int a = nodeof(av[0]), b = nodeof(av[1]), c = nodeof(av[2]); return nval(emit("c:", {a, b, c}, "", 1, 1), 1, 1); }
    Val& a = av[0];
    if (f == "inf" || f == "mid" || f == "sup") {
      if (!a.isconst) throw Reject{f + " requires a constant interval"}; if (!a.scalar()) throw Reject{f + " expects an interval"}; nofinf(a);
      const CI& x = a.cst[0]; if (x.empty) throw Unsupported{"bound of the empty constant"};
      if (f == "inf") return cscalar(CI(x.lo)); if (f == "sup") return cscalar(CI(x.hi));
      if (x.point()) return cscalar(x); throw Unsupported{"midpoint of a thick constant"};
    }
    if (!a.scalar()) throw Reject{f + " expects a scalar argument"};
    if (a.isconst) {
      nofinf(a); const CI& x = a.cst[0]; if (x.empty) throw Unsupported{"function of the empty constant"};
      if (f == "abs") { if (x.lo >= 0) return a; if (x.hi <= 0) return cscalar(ci_neg(x)); return cscalar(CI(0, std::max(-x.lo, x.hi))); }
      if (f == "sqr") { if (x.point()) { CI r = ci_mul(x, x); return cscalar(r); } throw Unsupported{"square of a thick constant"}; }
      if (f == "floor") return cscalar(CI(std::floor(x.lo), std::floor(x.hi)));
      if (f == "ceil") return cscalar(CI(std::ceil(x.lo), std::ceil(x.hi)));
      if (f == "sign") { if (x.lo > 0) return cscalar(CI(1.0)); if (x.hi < 0) return cscalar(CI(-1.0)); throw Unsupported{"sign of a constant containing 0"}; }
      if (f == "sqrt") { if (x.lo < 0) throw Unsupported{"sqrt of a negative constant"}; double l, h; { RoundGuard g(FE_DOWNWARD); volatile double t = x.lo; l = std::sqrt(t); } { RoundGuard g(FE_UPWARD); volatile double t = x.hi; h = std::sqrt(t); } return cscalar(CI(l, h)); }
      throw Unsupported{"elementary function of a constant"};
    }
    return un(unname(f), a, 1, 1);
  }
  std::map<std::string, Sym> visible_in_function() { std::map<std::string, Sym> vis; for (auto& s : scopes) for (auto& kv : s) if (kv.second.k == Parser::S_CONST || kv.second.k == Parser::S_FUNC) vis[kv.first] = kv.second; return vis; }
  // auxiliary functions are inlined: the body is denoted with the formal arguments bound to the actual values
  Val apply(const Func& fn, std::vector<Val>& av) {
    std::vector<std::map<std::string, Sym>> saved = scopes;
    std::map<std::string, Sym> vis = visible_in_function();
    scopes.clear(); scopes.push_back(vis); scopes.push_back({});
    Val res;
    try {
      for (size_t i = 0; i < fn.args.size(); i++) {
        int r, c; dims(fn.args[i], r, c);
        if (av[i].r != r || av[i].c != c) throw Reject{"argument of wrong dimension"};
        Sym s; s.k = Parser::S_TMP; s.v = av[i]; scopes.back()[fn.args[i].name] = s;
      }
      for (auto& as : fn.code) { Val v = eval(as.second); Sym s; s.k = Parser::S_TMP; s.v = v; scopes.back()[as.first] = s; }
      res = eval(fn.ret);
    } catch (...) { scopes = saved; throw; }
    scopes = saved; return res;
  }
  void dims(const Decl& d, int& r, int& c) {
    r = c = 1;
    if (d.d1) { Val v = eval(d.d1); r = to_int(v, "dimension"); }
    if (d.d2) { Val v = eval(d.d2); c = to_int(v, "dimension"); }
    if (d.d1 && r < 1) throw Reject{"non-positive dimension"}; if (d.d2 && c < 1) throw Reject{"non-positive dimension"};
    if (r * (long)c > 10000) throw Unsupported{"huge dimension"};
  }

  int parse_time = 0;
  Val eval(const EP& e) {
    switch (e->k) {
      case K_NUM: if (!e->num.empty && std::isinf(e->num.hi)) throw Reject{"literal larger than the largest binary64 number"};
                  if (!e->num.point()) saw_inexact_literal = true; return cscalar(e->num);
      case K_PI: { CI p(3.141592653589793115997963468544185161590576171875, 3.141592653589793560087173318606801331043243408203125); return cscalar(p); }
      case K_INF: { CI x; x.inf = 1; x.empty = true; return cscalar(x); }
      case K_ITV: {
        // (the bounds are evaluated while the text is read: an iterator has no value there)
        parse_time++; Val a, b; try { a = eval(e->a[0]); b = eval(e->a[1]); } catch (...) { parse_time--; throw; } parse_time--;
        if (!a.isconst || !b.isconst) throw Reject{"constant expected in interval bounds"};
        if (!a.scalar() || !b.scalar()) throw Reject{"scalar expected in interval bounds"};
        const CI& x = a.cst[0]; const CI& y = b.cst[0];
        if ((!x.inf && x.empty) || (!y.inf && y.empty)) throw Unsupported{"empty constant as interval bound"};
        double lo = x.inf ? (x.inf > 0 ? INFINITY : -INFINITY) : x.lo, hi = y.inf ? (y.inf > 0 ? INFINITY : -INFINITY) : y.hi;
        if (!(lo <= hi)) throw Unsupported{"interval with crossed bounds (the empty set)"};
        return cscalar(CI(lo, hi));
      }
      case K_BALL: { // <c,r> = c + [-R,R] in outward-rounded interval arithmetic, R = upper bound of the radius (both evaluated while the text is read)
        parse_time++; Val c, rr; try { c = eval(e->a[0]); rr = eval(e->a[1]); } catch (...) { parse_time--; throw; } parse_time--;
        if (!c.isconst || !rr.isconst) throw Reject{"constant expected in a ball constant"};
        if (!rr.scalar()) throw Reject{"scalar radius expected"};
        const CI& R = rr.cst[0]; if (R.inf || R.empty || std::isinf(R.hi)) throw Unsupported{"infinite or empty radius"};
        if (R.hi < 0) throw Unsupported{"negative radius"};
        nofinf(c);
        std::vector<CI> d; for (auto& x : c.cst) { if (x.empty) throw Unsupported{"empty centre"}; d.push_back(ci_add(x, CI(-R.hi, R.hi))); }
        return cval(c.r, c.c, d);
      }
      case K_SYM: {
        Sym* s = find(e->name); if (!s) throw Reject{"unknown symbol " + e->name};
        if (s->k == Parser::S_ITER) { if (parse_time) throw Reject{"iterator used where a constant is required"}; return cscalar(CI((double)s->iter)); }
        if (s->k == Parser::S_FUNC) throw Reject{"function used as a value"};
        if (s->k == Parser::S_VAR) { if (s->gen != curgen) { s->v = nval(emit("v:" + std::to_string(s->off), {}, "", s->r, s->c), s->r, s->c); s->gen = curgen; } return s->v; }
        if (s->k == Parser::S_TMP && s->def) { // temporary symbol of the constraint block: expanded in the scopes of its declaration
          if (s->gen == curgen) return s->v;
          EP def = s->def; size_t depth = s->depth; auto saved = scopes; scopes.resize(depth);
          Val v; try { v = eval(def); } catch (...) { scopes = saved; throw; }
          // variables emitted meanwhile must stay known: copy their generation marks back
          for (size_t i = 0; i < depth; i++) for (auto& kv : scopes[i]) if (kv.second.k == Parser::S_VAR || (kv.second.k == Parser::S_TMP && kv.second.def)) saved[i][kv.first] = kv.second;
          scopes = saved; Sym* s2 = find(e->name); s2->v = v; s2->gen = curgen; return v;
        }
        return s->v;
      }
      case K_NEG: return neg(eval(e->a[0]));
      case K_ADD: { Val a = eval(e->a[0]); Val b = eval(e->a[1]); return add(a, b, false); }
      case K_SUB: { Val a = eval(e->a[0]); Val b = eval(e->a[1]); return add(a, b, true); }
      case K_MUL: { Val a = eval(e->a[0]); Val b = eval(e->a[1]); return mulx(a, b); }
      case K_DIV: { Val a = eval(e->a[0]); Val b = eval(e->a[1]); return divv(a, b); }
      case K_POW: { Val a = eval(e->a[0]); Val b = eval(e->a[1]); return power(a, b); }
      case K_TRANS: return trans(eval(e->a[0]));
      case K_CALL: return call(e);
      case K_IDX: { Val b = eval(e->a[0]); return index(b, e); }
      case K_ROW: case K_COL: { std::vector<Val> ps; for (auto& a : e->a) ps.push_back(eval(a)); return vec(ps, e->k == K_ROW); }
      case K_SUM: {
        Val a = eval(e->a[0]), b = eval(e->a[1]); int lo = to_int(a, "sum bound"), hi = to_int(b, "sum bound");
        if (hi < lo) throw Reject{"sum: last value smaller than the first"};
        if (hi - lo > 2000) throw Unsupported{"long sum"};
        scopes.push_back({}); Sym it; it.k = Parser::S_ITER; scopes.back()[e->name] = it;
        Val acc; bool first = true;
        try {
          for (int i = lo; i <= hi; i++) { scopes.back()[e->name].iter = i; Val t = eval(e->a[2]); if (first) acc = t; else acc = add(acc, t, false); first = false; }
        } catch (...) { scopes.pop_back(); throw; }
        scopes.pop_back(); return acc;
      }
      default: throw Reject{"index expression outside an index"};
    }
  }

  // ---- whole system
  Model M; bool saw_inexact_literal = false;
  void init_domain(std::vector<CI>& dom, int r, int c, const Val& src, const std::string& name) {
    if (!src.isconst) throw Reject{"constant expected as domain of " + name};
    if (src.r == r && src.c == c) { dom = src.cst; }
    else if (src.scalar()) { dom.assign(r * c, src.cst[0]); }
    else throw Reject{"symbol " + name + " is not initialized correctly (dimensions do not match)"};
    for (auto& x : dom) if (x.inf) throw Unsupported{"infinity as a domain"};
  }
  std::string rooted(Val v) { int n = nodeof(v); return dag(n); }

  void items(const std::vector<IP>& l) {
    for (auto& it : l) {
      switch (it->t) {
        case Item::TMP: { // the real generator builds the expression at its declaration: errors are reported even if it is never used
          if (scopes.back().count(it->name)) throw Reject{"temporary symbol re-assigned in the same scope"};
          start_dag(); eval(it->l);
          Sym s; s.k = Parser::S_TMP; s.def = it->l; s.depth = scopes.size(); scopes.back()[it->name] = s; break; }
        case Item::CTR: { start_dag(); Val a = eval(it->l), b = eval(it->r); M.ctrs.push_back({cmpname(it->op), rooted(add(a, b, true))}); break; }
        case Item::IN: {
          start_dag(); Val e = eval(it->l); parse_time++; Val d; try { d = eval(it->r); } catch (...) { parse_time--; throw; } parse_time--;   // (the right side of `in` is evaluated while the text is read)
          if (!d.isconst) throw Reject{"constant interval expected after in"}; if (!d.scalar()) throw Reject{"interval expected"};
          const CI& x = d.cst[0]; if (x.inf) throw Reject{"unexpected infinity symbol"}; if (x.empty) throw Unsupported{"empty interval after in"};
          if (!e.scalar()) throw Reject{"cannot subtract a scalar from a vector/matrix"};
          // e in [a,b] : e>=a and e<=b; an infinite bound is no constraint
          if (!std::isinf(x.lo)) M.ctrs.push_back({"geq", rooted(add(e, cscalar(CI(x.lo)), true))});
          if (!std::isinf(x.hi)) M.ctrs.push_back({"leq", rooted(add(e, cscalar(CI(x.hi)), true))});
          break;
        }
        case Item::INTEGER: { start_dag(); Val e = eval(it->l); if (!e.scalar()) throw Reject{"saw expects a scalar argument"}; if (e.isconst) throw Unsupported{"integer() of a constant"};
                              M.ctrs.push_back({"eq", rooted(un("saw", e, 1, 1))}); break; }
        case Item::LOOP: {
          start_dag(); Val a = eval(it->l), b = eval(it->r); int lo = to_int(a, "loop bound"), hi = to_int(b, "loop bound");
          if (hi - lo > 2000) throw Unsupported{"long loop"};
          for (int i = lo; i <= hi; i++) { scopes.push_back({}); Sym s; s.k = Parser::S_ITER; s.iter = i; scopes.back()[it->name] = s; try { items(it->body); } catch (...) { scopes.pop_back(); throw; } scopes.pop_back(); }
          break;
        }
      }
    }
  }

  void addfuncs(const std::vector<Func>& fs) {
    for (auto& f : fs) {
      // the body is checked once with formal arguments (a function that is never called must still be valid)
      std::vector<Val> formal; start_dag();
      { auto saved = scopes; std::map<std::string, Sym> vis = visible_in_function(); scopes.clear(); scopes.push_back(vis);
        try { for (auto& a : f.args) { int r, c; dims(a, r, c); formal.push_back(nval(emit("v:0", {}, "", r, c), r, c)); } } catch (...) { scopes = saved; throw; }
        scopes = saved; }
      apply(f, formal);
      Sym s; s.k = Parser::S_FUNC; s.f = &f; scopes.back()[f.name] = s;
    }
  }
  Model system(const Program& P) {
    scopes.clear(); scopes.push_back({});
    for (auto& d : P.consts) {
      int r, c; dims(d, r, c); start_dag(); Val v = eval(d.init);
      Sym s; s.k = Parser::S_CONST; std::vector<CI> dom; init_domain(dom, r, c, v, d.name); s.v = cval(r, c, dom); scopes.back()[d.name] = s;
    }
    addfuncs(P.funcs1);
    if (!P.has_vars) throw Reject{"not a system"};
    int off = 0;
    for (auto& d : P.vars) {
      int r, c; dims(d, r, c); Model::Var mv; mv.name = d.name; mv.r = r; mv.c = c;
      if (d.init) { start_dag(); saw_inexact_literal = false; Val v = eval(d.init); init_domain(mv.dom, r, c, v, d.name); if (saw_inexact_literal) M.inexact_box = true; } else mv.dom.assign(r * c, CI(-INFINITY, INFINITY));
      M.vars.push_back(mv); Sym s; s.k = Parser::S_VAR; s.r = r; s.c = c; s.off = off; scopes.back()[d.name] = s; off += r * c;
    }
    addfuncs(P.funcs2);
    if (!P.goal && !P.has_ctrs) throw Reject{"not a system"};
    if (P.goal) { start_dag(); M.has_goal = true; M.goal = rooted(eval(P.goal)); }
    if (P.has_ctrs) { scopes.push_back({}); items(P.ctrs); scopes.pop_back(); }
    return M;
  }
};

struct RefResult { enum T { ACCEPT, REJECT, UNSUPPORTED } t; std::string why; Model m; };

// a file read as a Function: the FIRST function declared; no goal, no constraint (variables alone are tolerated)
inline Model Denoter_function(Denoter& D, const Program& P) {
  D.scopes.clear(); D.scopes.push_back({});
  for (auto& d : P.consts) {
    int r, c; D.dims(d, r, c); D.start_dag(); Val v = D.eval(d.init);
    Denoter::Sym s; s.k = Parser::S_CONST; std::vector<CI> dom; D.init_domain(dom, r, c, v, d.name); s.v = Denoter::cval(r, c, dom); D.scopes.back()[d.name] = s;
  }
  if (P.goal || P.has_ctrs) throw Reject{"unexpected variable declaration for a function"};
  std::vector<const Func*> fs; for (auto& f : P.funcs1) fs.push_back(&f);
  // (variables are declared between the two groups of functions: their dimensions and domains must be valid)
  Model M; bool first = true;
  auto one = [&](const Func& f) {
    if (first) {
      first = false; D.start_dag(); std::vector<Val> formal; int off = 0;
      { auto saved = D.scopes; std::map<std::string, Denoter::Sym> vis = D.visible_in_function(); D.scopes.clear(); D.scopes.push_back(vis);
        try { for (auto& a : f.args) { int r, c; D.dims(a, r, c); formal.push_back(D.nval(D.emit("v:" + std::to_string(off), {}, "", r, c), r, c)); M.vars.push_back({a.name, r, c, {}}); off += r * c; } } catch (...) { D.scopes = saved; throw; }
        D.scopes = saved; }
      Val res = D.apply(f, formal); M.has_goal = true; M.goal = D.rooted(res);
      Denoter::Sym s; s.k = Parser::S_FUNC; s.f = &f; D.scopes.back()[f.name] = s;
    } else { std::vector<Func> tmp; D.addfuncs(std::vector<Func>()); std::vector<Val> formal; D.start_dag();
      { auto saved = D.scopes; std::map<std::string, Denoter::Sym> vis = D.visible_in_function(); D.scopes.clear(); D.scopes.push_back(vis);
        try { for (auto& a : f.args) { int r, c; D.dims(a, r, c); formal.push_back(D.nval(D.emit("v:0", {}, "", r, c), r, c)); } } catch (...) { D.scopes = saved; throw; }
        D.scopes = saved; }
      D.apply(f, formal); Denoter::Sym s; s.k = Parser::S_FUNC; s.f = &f; D.scopes.back()[f.name] = s; }
  };
  for (auto& f : P.funcs1) one(f);
  if (P.has_vars) for (auto& d : P.vars) { int r, c; D.dims(d, r, c); if (d.init) { D.start_dag(); Val v = D.eval(d.init); std::vector<CI> dom; D.init_domain(dom, r, c, v, d.name); }
    Denoter::Sym s; s.k = Parser::S_VAR; s.r = r; s.c = c; D.scopes.back()[d.name] = s; }
  for (auto& f : P.funcs2) one(f);
  if (first) throw Reject{"no function declared"};
  return M;
}
inline RefResult read_function(const std::string& text) {
  RefResult R;
  try { Parser ps(text); Program P = ps.program(); Denoter D; R.m = Denoter_function(D, P); R.t = RefResult::ACCEPT; }
  catch (Reject& r) { R.t = RefResult::REJECT; R.why = r.why; }
  catch (Unsupported& u) { R.t = RefResult::UNSUPPORTED; R.why = u.why; }
  return R;
}

inline RefResult read_system(const std::string& text) {
  RefResult R;
  try {
    Parser ps(text); Program P = ps.program();
    Denoter D; R.m = D.system(P); R.t = RefResult::ACCEPT;
  } catch (Reject& r) { R.t = RefResult::REJECT; R.why = r.why; }
  catch (Unsupported& u) { R.t = RefResult::UNSUPPORTED; R.why = u.why; }
  return R;
}

} // namespace mbx
#endif
