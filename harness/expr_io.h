// Expression DAG dump (ibex ExprNode -> line-protocol token) and random typed expression generator.
#ifndef VERIF_EXPR_IO_H
#define VERIF_EXPR_IO_H
#include "common.h"
#include <map>
#include <set>
#include <functional>

namespace vh {
using namespace ibex;

// ---- tokens -------------------------------------------------------------------------------
inline std::string itok(const Interval& x) { return x.is_empty() ? std::string("E") : hex(x.lb()) + "~" + hex(x.ub()); }
inline std::string mtok(const Domain& d) {
  std::ostringstream s;
  s << d.dim.nb_rows() << "." << d.dim.nb_cols() << ".";
  switch (d.dim.type()) {
    case Dim::SCALAR: s << itok(d.i()); break;
    case Dim::ROW_VECTOR: case Dim::COL_VECTOR: for (int i = 0; i < d.v().size(); i++) { if (i) s << "/"; s << itok(d.v()[i]); } break;
    case Dim::MATRIX: for (int i = 0; i < d.m().nb_rows(); i++) for (int j = 0; j < d.m().nb_cols(); j++) { if (i || j) s << "/"; s << itok(d.m()[i][j]); } break;
  }
  return s.str();
}
inline std::string mtok(const Interval& x) { return "1.1." + itok(x); }
inline std::string mtok(const IntervalVector& v, bool row = false) {
  std::ostringstream s; if (row) s << "1." << v.size() << "."; else s << v.size() << ".1.";
  for (int i = 0; i < v.size(); i++) { if (i) s << "/"; s << itok(v[i]); } return s.str();
}
inline std::string mtok(const IntervalMatrix& m) {
  std::ostringstream s; s << m.nb_rows() << "." << m.nb_cols() << ".";
  for (int i = 0; i < m.nb_rows(); i++) for (int j = 0; j < m.nb_cols(); j++) { if (i || j) s << "/"; s << itok(m[i][j]); } return s.str();
}
inline std::string ptok(const Vector& p) { std::string s; for (int i = 0; i < p.size(); i++) { if (i) s += ";"; s += hex(p[i]); } return s; }

// ---- dump ---------------------------------------------------------------------------------
// Function table for ExprApply: functions are dumped recursively and referenced by index.
struct DagDumper {
  std::vector<std::string> fun_tokens;               // dumped functions, "nargs!dag"
  std::map<const Function*, int> fun_ids;

  static const char* un_name(const ExprUnaryOp& e) {
    if (dynamic_cast<const ExprMinus*>(&e)) return "minus"; if (dynamic_cast<const ExprTrans*>(&e)) return "trans";
    if (dynamic_cast<const ExprSign*>(&e)) return "sign"; if (dynamic_cast<const ExprAbs*>(&e)) return "abs";
    if (dynamic_cast<const ExprSqr*>(&e)) return "sqr"; if (dynamic_cast<const ExprSqrt*>(&e)) return "sqrt";
    if (dynamic_cast<const ExprExp*>(&e)) return "exp"; if (dynamic_cast<const ExprLog*>(&e)) return "log";
    if (dynamic_cast<const ExprCos*>(&e)) return "cos"; if (dynamic_cast<const ExprSin*>(&e)) return "sin"; if (dynamic_cast<const ExprTan*>(&e)) return "tan";
    if (dynamic_cast<const ExprCosh*>(&e)) return "cosh"; if (dynamic_cast<const ExprSinh*>(&e)) return "sinh"; if (dynamic_cast<const ExprTanh*>(&e)) return "tanh";
    if (dynamic_cast<const ExprAcos*>(&e)) return "acos"; if (dynamic_cast<const ExprAsin*>(&e)) return "asin"; if (dynamic_cast<const ExprAtan*>(&e)) return "atan";
    if (dynamic_cast<const ExprAcosh*>(&e)) return "acosh"; if (dynamic_cast<const ExprAsinh*>(&e)) return "asinh"; if (dynamic_cast<const ExprAtanh*>(&e)) return "atanh";
    if (dynamic_cast<const ExprFloor*>(&e)) return "floor"; if (dynamic_cast<const ExprCeil*>(&e)) return "ceil"; if (dynamic_cast<const ExprSaw*>(&e)) return "saw";
    if (const ExprGenericUnaryOp* g = dynamic_cast<const ExprGenericUnaryOp*>(&e)) return g->name;
    return "unknown";
  }
  static const char* bin_name(const ExprBinaryOp& e) {
    if (dynamic_cast<const ExprAdd*>(&e)) return "add"; if (dynamic_cast<const ExprSub*>(&e)) return "sub";
    if (dynamic_cast<const ExprMul*>(&e)) return "mul"; if (dynamic_cast<const ExprDiv*>(&e)) return "div";
    if (dynamic_cast<const ExprMax*>(&e)) return "max"; if (dynamic_cast<const ExprMin*>(&e)) return "min";
    if (dynamic_cast<const ExprAtan2*>(&e)) return "atan2";
    if (const ExprGenericBinaryOp* g = dynamic_cast<const ExprGenericBinaryOp*>(&e)) return g->name;
    return "unknown";
  }

  // body of one node; `idof` gives the id of an argument node
  std::string body(const ExprNode& e, const std::map<const ExprNode*, int>& off, std::function<int(const ExprNode&)> idof) {
    std::ostringstream s;
    if (const ExprSymbol* sy = dynamic_cast<const ExprSymbol*>(&e)) {
      auto f = off.find(sy); s << "v:" << (f == off.end() ? -1 : f->second);
    } else if (const ExprConstant* c = dynamic_cast<const ExprConstant*>(&e)) {
      std::string m = mtok(c->get()); s << "k:" << m.substr(m.find('.', m.find('.') + 1) + 1);
    } else if (const ExprIndex* ix = dynamic_cast<const ExprIndex*>(&e)) {
      int a = idof(ix->expr);
      s << "i:" << a << ":" << ix->index.first_row() << ":" << ix->index.last_row() << ":" << ix->index.first_col() << ":" << ix->index.last_col();
    } else if (const ExprVector* v = dynamic_cast<const ExprVector*>(&e)) {
      std::vector<int> as; for (int i = 0; i < v->nb_args; i++) as.push_back(idof(v->arg(i)));
      s << "V:" << (v->row_vector() ? "row" : "col") << ":"; for (size_t i = 0; i < as.size(); i++) { if (i) s << "."; s << as[i]; }
    } else if (const ExprChi* ch = dynamic_cast<const ExprChi*>(&e)) {
      int a = idof(ch->arg(0)), b = idof(ch->arg(1)), c2 = idof(ch->arg(2)); s << "c:" << a << ":" << b << ":" << c2;
    } else if (const ExprApply* ap = dynamic_cast<const ExprApply*>(&e)) {
      std::vector<int> as; for (int i = 0; i < ap->nb_args; i++) as.push_back(idof(ap->arg(i)));
      int fid = fun_id(ap->func);
      s << "a:" << fid << ":"; for (size_t i = 0; i < as.size(); i++) { if (i) s << "."; s << as[i]; }
    } else if (const ExprPower* p = dynamic_cast<const ExprPower*>(&e)) {
      int a = idof(p->expr); s << "p:" << a << ":" << p->expon;
    } else if (const ExprUnaryOp* u = dynamic_cast<const ExprUnaryOp*>(&e)) {
      int a = idof(u->expr); s << "u:" << un_name(*u) << ":" << a;
    } else if (const ExprBinaryOp* b = dynamic_cast<const ExprBinaryOp*>(&e)) {
      int l = idof(b->left), r2 = idof(b->right); s << "b:" << bin_name(*b) << ":" << l << ":" << r2;
    } else s << "unknown";
    s << "@" << e.dim.nb_rows() << "." << e.dim.nb_cols();
    return s.str();
  }
  static std::map<const ExprNode*, int> offsets(const Array<const ExprSymbol>& args) {
    std::map<const ExprNode*, int> off; int o = 0;
    for (int i = 0; i < args.size(); i++) { off[&args[i]] = o; o += args[i].dim.size(); }
    return off;
  }
  // post-order dump (arguments first)
  std::string dump(const ExprNode& root, const Array<const ExprSymbol>& args) {
    std::map<const ExprNode*, int> off = offsets(args);
    std::map<const ExprNode*, int> id; std::vector<std::string> out;
    std::function<int(const ExprNode&)> go = [&](const ExprNode& e) -> int {
      auto it = id.find(&e); if (it != id.end()) return it->second;
      std::string b = body(e, off, go);
      int me = (int)out.size(); out.push_back(b); id[&e] = me; return me;
    };
    go(root);
    std::string r; for (size_t i = 0; i < out.size(); i++) { if (i) r += ","; r += out[i]; } return r;
  }
  // dump in the order of the compiled function: node of rank n-1 first, root (rank 0) last,
  // so that "last to first" is exactly the order of ibex's backward sweeps
  std::string dump_ranked(const Function& f) {
    std::map<const ExprNode*, int> off = offsets(f.args());
    int n = f.nb_nodes(); std::string r;
    std::function<int(const ExprNode&)> idof = [&](const ExprNode& e) -> int { return n - 1 - f.nodes.rank(e); };
    for (int i = n - 1; i >= 0; i--) { if (i != n - 1) r += ","; r += body(f.node(i), off, idof); }
    return r;
  }
  int fun_id(const Function& f) {
    auto it = fun_ids.find(&f); if (it != fun_ids.end()) return it->second;
    std::string d = dump(f.expr(), f.args());       // may register nested functions first
    int id = (int)fun_tokens.size(); fun_ids[&f] = id; fun_tokens.push_back(d); return id;
  }
  // "<fun0>!<fun1>!...!<root dag>"  (functions first so that the reader can resolve calls)
  std::string full(const ExprNode& root, const Array<const ExprSymbol>& args) {
    std::string main = dump(root, args); std::string r;
    for (auto& t : fun_tokens) { r += t; r += "!"; }
    return r + main;
  }
};

inline std::string dump_expr(const ExprNode& root, const Array<const ExprSymbol>& args) { DagDumper d; return d.full(root, args); }
inline std::string dump_fun(const Function& f) { return dump_expr(f.expr(), f.args()); }
inline std::string dump_fun_ranked(const Function& f) { DagDumper d; std::string m = d.dump_ranked(f); std::string r; for (auto& t : d.fun_tokens) { r += t; r += "!"; } return r + m; }

// ---- random typed expressions -----------------------------------------------------------------
struct GenCfg {
  bool rational_only = true;     // only operators the exact rational evaluator supports
  bool differentiable = false;   // avoid abs/max/min/sign/chi/floor/ceil
  bool allow_div = true;
  bool allow_vec = true;         // vector / matrix sub-expressions
  bool allow_apply = true;
  bool allow_sqrt = false;       // sqrt: partial domain (EmptyBoxException paths); exact oracle defined on perfect squares
  bool thick_consts = false;
  int max_depth = 4;
};

struct ExprGen {
  Rng& r; GenCfg cfg;
  std::vector<const ExprSymbol*> syms;          // variables (scalars, vectors, matrices)
  std::vector<const ExprNode*> pool;            // already built sub-expressions (for sharing), with dims
  std::vector<Function*> funs;                  // auxiliary functions for ExprApply (scalar args -> scalar)
  ExprGen(Rng& rr, const GenCfg& c) : r(rr), cfg(c) {}

  double small_const() { switch (r.below(5)) { case 0: return (double)r.range(-3, 3); case 1: return r.range(-8, 8) / 4.0; case 2: return 0.1 * r.range(-20, 20); default: return r.range(-30, 30) / 8.0; } }
  const ExprNode& konst(int rows, int cols) {
    auto itv = [&]() { double c = small_const(); return (cfg.thick_consts && r.coin(30)) ? Interval(c, c + r.range(1, 4) / 8.0) : Interval(c); };
    if (rows == 1 && cols == 1) return ExprConstant::new_scalar(itv());
    // 0/1 patterns (selection vectors, several ones, identity-like matrices): special cases of the simplifier
    bool zo = r.coin(25);
    if (rows == 1 || cols == 1) { int n = rows * cols; IntervalVector v(n); for (int i = 0; i < n; i++) v[i] = zo ? Interval(r.coin() ? 1.0 : 0.0) : itv(); return ExprConstant::new_vector(v, rows == 1); }
    IntervalMatrix m(rows, cols); bool ident = zo && r.coin();
    for (int i = 0; i < rows; i++) for (int j = 0; j < cols; j++) m[i][j] = zo ? Interval(ident ? (i == j ? 1.0 : 0.0) : (r.coin(40) ? 1.0 : 0.0)) : itv();
    return ExprConstant::new_matrix(m);
  }
  // a leaf or shared sub-expression of the requested dimension
  const ExprNode& leaf(int rows, int cols) {
    std::vector<const ExprNode*> cand;
    for (auto s : syms) if (s->dim.nb_rows() == rows && s->dim.nb_cols() == cols) cand.push_back(s);
    for (auto p : pool) if (p->dim.nb_rows() == rows && p->dim.nb_cols() == cols) cand.push_back(p);
    // components of vector / matrix variables
    if (rows == 1 && cols == 1) for (auto s : syms) {
      if (s->dim.is_vector()) { int i = r.below(s->dim.vec_size()); cand.push_back(&(*s)[i]); }
      else if (s->dim.is_matrix()) { int i = r.below(s->dim.nb_rows()), j = r.below(s->dim.nb_cols()); cand.push_back(&(*s)[i][j]); }
    }
    if (cand.empty() || r.coin(20)) return konst(rows, cols);
    return *cand[r.below(cand.size())];
  }
  const ExprNode& gen(int rows, int cols, int depth) {
    const ExprNode& e = gen0(rows, cols, depth);
    if (r.coin(35)) pool.push_back(&e);
    return e;
  }
  const ExprNode& gen0(int rows, int cols, int depth) {
    if (depth <= 0 || r.coin(15)) return leaf(rows, cols);
    bool scalar = rows == 1 && cols == 1;
    if (scalar) {
      int k = r.below(cfg.differentiable ? 11 : 17);
      switch (k) {
        case 0: return gen(1, 1, depth - 1) + gen(1, 1, depth - 1);
        case 1: return gen(1, 1, depth - 1) - gen(1, 1, depth - 1);
        case 2: case 3: return gen(1, 1, depth - 1) * gen(1, 1, depth - 1);
        case 4: if (cfg.allow_div) return gen(1, 1, depth - 1) / gen(1, 1, depth - 1); return sqr(gen(1, 1, depth - 1));
        case 5: return sqr(gen(1, 1, depth - 1));
        case 6: return pow(gen(1, 1, depth - 1), r.range(cfg.allow_div ? -3 : 0, 4));
        case 7: if (cfg.allow_sqrt && r.coin(50)) { // square roots with (often) perfect-square arguments, so that the exact oracle is defined
                  switch (r.below(3)) { case 0: return sqrt(sqr(gen(1, 1, depth - 1))); case 1: return sqrt(leaf(1, 1)); default: return sqrt(gen(1, 1, depth - 1)); } }
                return -gen(1, 1, depth - 1);
        case 8: if (cfg.allow_vec) { int n = r.range(2, 3); return gen(1, n, depth - 1) * gen(n, 1, depth - 1); } return gen(1, 1, depth - 1) + gen(1, 1, depth - 1); // dot product
        case 9: if (cfg.allow_vec) { int n = r.range(2, 3); bool row = r.coin(); const ExprNode& v = gen(row ? 1 : n, row ? n : 1, depth - 1); return v[(int)r.below(n)]; }
                return gen(1, 1, depth - 1) * gen(1, 1, depth - 1);
        case 10: if (cfg.allow_apply && !funs.empty()) { Function* f = funs[r.below(funs.size())]; Array<const ExprNode> a(f->nb_arg()); for (int i = 0; i < f->nb_arg(); i++) a.set_ref(i, gen(1, 1, depth - 1)); return (*f)(a); }
                 return gen(1, 1, depth - 1) - gen(1, 1, depth - 1);
        case 11: return abs(gen(1, 1, depth - 1));
        case 12: return max(gen(1, 1, depth - 1), gen(1, 1, depth - 1));
        case 13: return min(gen(1, 1, depth - 1), gen(1, 1, depth - 1));
        case 14: return sign(gen(1, 1, depth - 1));
        case 15: return chi(gen(1, 1, depth - 1), gen(1, 1, depth - 1), gen(1, 1, depth - 1));
        default: if (cfg.allow_vec) { int n = r.range(2, 3), m = r.range(2, 3); const ExprNode& M = gen(n, m, depth - 1); return M[(int)r.below(n)][(int)r.below(m)]; }
                 return abs(gen(1, 1, depth - 1));
      }
    }
    bool vec = rows == 1 || cols == 1; int n = rows * cols;
    if (vec) {
      switch (r.below(7)) {
        case 0: return gen(rows, cols, depth - 1) + gen(rows, cols, depth - 1);
        case 1: return gen(rows, cols, depth - 1) - gen(rows, cols, depth - 1);
        case 2: return gen(1, 1, depth - 1) * gen(rows, cols, depth - 1);
        case 3: return -gen(rows, cols, depth - 1);
        case 4: return transpose(gen(cols, rows, depth - 1));
        case 5: { int k = r.range(2, 3); // matrix-vector / vector-matrix product
                  if (cols == 1) return gen(rows, k, depth - 1) * gen(k, 1, depth - 1); else return gen(1, k, depth - 1) * gen(k, cols, depth - 1); }
        default: {
          if (n >= 3 && r.coin(40)) { // a sub-vector block followed (or preceded) by scalars
            int k = r.range(2, n - 1); bool first = r.coin(70);
            Array<const ExprNode> a(n - k + 1); int pos = 0;
            if (first) a.set_ref(pos++, gen(rows == 1 ? 1 : k, rows == 1 ? k : 1, depth - 1));
            for (int i = 0; i < n - k; i++) a.set_ref(pos++, gen(1, 1, depth - 1));
            if (!first) a.set_ref(pos++, gen(rows == 1 ? 1 : k, rows == 1 ? k : 1, depth - 1));
            return ExprVector::new_(a, rows == 1 ? ExprVector::ROW : ExprVector::COL);
          }
          Array<const ExprNode> a(n); for (int i = 0; i < n; i++) a.set_ref(i, gen(1, 1, depth - 1)); return ExprVector::new_(a, rows == 1 ? ExprVector::ROW : ExprVector::COL); }
      }
    }
    switch (r.below(9)) {
      case 0: return gen(rows, cols, depth - 1) + gen(rows, cols, depth - 1);
      case 1: return gen(rows, cols, depth - 1) - gen(rows, cols, depth - 1);
      case 2: return gen(1, 1, depth - 1) * gen(rows, cols, depth - 1);
      case 3: return -gen(rows, cols, depth - 1);
      case 4: return transpose(gen(cols, rows, depth - 1));
      case 5: { int k = r.range(2, 3); return gen(rows, k, depth - 1) * gen(k, cols, depth - 1); }
      case 6: case 7: if (r.coin(70)) { // concatenation of matrix / vector blocks (non-square blocks matter)
        if (cols >= 3 && r.coin()) { int c1 = r.range(1, cols - 1); Array<const ExprNode> a(2); a.set_ref(0, gen(rows, c1, depth - 1)); a.set_ref(1, gen(rows, cols - c1, depth - 1)); return ExprVector::new_(a, ExprVector::ROW); }
        if (rows >= 3) { int r1 = r.range(1, rows - 1); Array<const ExprNode> a(2); a.set_ref(0, gen(r1, cols, depth - 1)); a.set_ref(1, gen(rows - r1, cols, depth - 1)); return ExprVector::new_(a, ExprVector::COL); }
        if (cols >= 2) { int c1 = r.range(1, cols - 1); Array<const ExprNode> a(2); a.set_ref(0, gen(rows, c1, depth - 1)); a.set_ref(1, gen(rows, cols - c1, depth - 1)); return ExprVector::new_(a, ExprVector::ROW); }
      } // fall through
      default: { // rows of row vectors stacked in a column, or columns side by side
        if (r.coin()) { Array<const ExprNode> a(rows); for (int i = 0; i < rows; i++) a.set_ref(i, gen(1, cols, depth - 1)); return ExprVector::new_(a, ExprVector::COL); }
        else { Array<const ExprNode> a(cols); for (int j = 0; j < cols; j++) a.set_ref(j, gen(rows, 1, depth - 1)); return ExprVector::new_(a, ExprVector::ROW); } }
    }
  }
};


// symbolic linear algebra over vector / matrix SYMBOLS (no ExprVector literal): differences, sums, products,
// transpositions, scalings, components -- the patterns of the simplifier's and differentiator's matrix rules
struct LinAlgGen {
  Rng& r; int n;                       // dimension of the vectors (2..3)
  std::vector<const ExprSymbol*> cols, rows, mats, scals;
  bool consts;                         // constant vectors / matrices allowed (0/1 patterns included)
  bool outer;                          // outer products column*row (the numeric layer of the library cannot evaluate them)
  LinAlgGen(Rng& rr, int n_) : r(rr), n(n_), consts(true), outer(true) {}
  const ExprNode& kvec(bool row) { IntervalVector v(n); bool zo = r.coin(60); for (int i = 0; i < n; i++) v[i] = zo ? (r.coin() ? 1.0 : 0.0) : r.range(-4, 4) / 2.0; return ExprConstant::new_vector(v, row); }
  const ExprNode& kmat() { IntervalMatrix m(n, n); bool zo = r.coin(60); for (int i = 0; i < n; i++) for (int j = 0; j < n; j++) m[i][j] = zo ? (r.coin(40) ? 1.0 : 0.0) : r.range(-4, 4) / 2.0; return ExprConstant::new_matrix(m); }
  const ExprNode& scal(int d) {
    if (d <= 0 || r.coin(20)) { if (!scals.empty() && r.coin(70)) return *scals[r.below(scals.size())]; return ExprConstant::new_scalar(r.range(-4, 4) / 2.0); }
    switch (r.below(9)) {
      case 6: { // the same dot product met twice, once through a chain of matrix products (polynomial normal forms)
        const ExprNode& a = col(0); const ExprNode& b = col(0);
        switch (r.below(4)) { case 0: return ((transpose(a) * b) * transpose(a)) * b; case 1: return transpose(a) * ((transpose(a) * b) * b);
                              case 2: return ((transpose(a) * b) * (scal(d - 1) * transpose(a))) * b; default: return (scal(d - 1) * ((transpose(a) * b) * transpose(a))) * col(0); } }
      case 7: { const ExprNode& a = row(0) * col(0); return (a + scal(d - 1)) * (a - scal(d - 1)); }
      case 8: return sqr(row(d - 1) * col(d - 1)) - scal(d - 1);
      case 0: return row(d - 1) * col(d - 1);
      case 1: return col(d - 1)[(int)r.below(n)];
      case 2: return row(d - 1)[(int)r.below(n)];
      case 3: return mat(d - 1)[(int)r.below(n)][(int)r.below(n)];
      case 4: return scal(d - 1) * scal(d - 1);
      default: return scal(d - 1) - scal(d - 1);
    }
  }
  const ExprNode& col(int d) {
    if (d <= 0 || r.coin(20)) { if (!cols.empty() && r.coin(80)) return *cols[r.below(cols.size())]; if (consts) return kvec(false); return *cols[0]; }
    switch (r.below(7)) {
      case 0: return col(d - 1) - col(d - 1);
      case 1: return col(d - 1) + col(d - 1);
      case 2: return mat(d - 1) * col(d - 1);
      case 3: return scal(d - 1) * col(d - 1);
      case 4: return transpose(row(d - 1));
      case 5: return -col(d - 1);
      default: return col(d - 1) - mat(d - 1) * col(d - 1);
    }
  }
  const ExprNode& row(int d) {
    if (d <= 0 || r.coin(20)) { if (!rows.empty() && r.coin(80)) return *rows[r.below(rows.size())]; if (consts && r.coin()) return kvec(true); return transpose(col(0)); }
    switch (r.below(6)) {
      case 0: return row(d - 1) - row(d - 1);
      case 1: return row(d - 1) + row(d - 1);
      case 2: return row(d - 1) * mat(d - 1);
      case 3: return scal(d - 1) * row(d - 1);
      case 4: return transpose(col(d - 1));
      default: return -row(d - 1);
    }
  }
  const ExprNode& mat(int d) {
    if (d <= 0 || r.coin(25)) { if (!mats.empty() && r.coin(80)) return *mats[r.below(mats.size())]; if (consts) return kmat(); return *mats[0]; }
    switch (r.below(7)) {
      case 0: return mat(d - 1) - mat(d - 1);
      case 1: return mat(d - 1) + mat(d - 1);
      case 2: if (r.coin(35)) { const ExprNode& m = mat(d - 1); return m * m; }      // the SAME node twice (square of a sum: matrix products do not commute)
              return mat(d - 1) * mat(d - 1);
      case 3: return transpose(mat(d - 1));
      case 4: return scal(d - 1) * mat(d - 1);
      case 5: if (outer) return col(d - 1) * row(d - 1);        // outer product
              return mat(d - 1) + mat(d - 1);
      default: return -mat(d - 1);
    }
  }
};

} // namespace vh
#endif
