#include <string>
// Rigorous point evaluation of a SCALAR ibex expression with MPFR interval arithmetic (160-bit bounds, outward rounding):
// an oracle for expressions with elementary functions, independent of the library's own interval arithmetic.
//   mp_eval(expr, args, point, lo, hi)  ->  true and a double enclosure [lo,hi] of the real value, or false when the
//   expression is undefined at the point / uses a node that this evaluator does not know / cannot be decided safely.
// Only scalar symbols, scalar constants and scalar operators are supported.
#ifndef VERIF_MP_DAG_H
#define VERIF_MP_DAG_H
#include <mpfr.h>
#include <map>
#include "common.h"

namespace vh {

struct MI { mpfr_t lo, hi; bool ok;
  MI() : ok(true) { mpfr_init2(lo, 160); mpfr_init2(hi, 160); }
  MI(const MI& o) : ok(o.ok) { mpfr_init2(lo, 160); mpfr_init2(hi, 160); mpfr_set(lo, o.lo, MPFR_RNDN); mpfr_set(hi, o.hi, MPFR_RNDN); }
  MI& operator=(const MI& o) { ok = o.ok; mpfr_set(lo, o.lo, MPFR_RNDN); mpfr_set(hi, o.hi, MPFR_RNDN); return *this; }
  ~MI() { mpfr_clear(lo); mpfr_clear(hi); }
  static MI bad() { MI m; m.ok = false; return m; }
  static MI of(double a, double b) { MI m; mpfr_set_d(m.lo, a, MPFR_RNDD); mpfr_set_d(m.hi, b, MPFR_RNDU); if (!(a == a) || !(b == b) || std::isinf(a) || std::isinf(b)) m.ok = false; return m; }
  // (magnitudes beyond the binary64 range are not an oracle for anything, and elementary functions of such arguments cost MPFR
  //  millions of bits of range reduction: they make the value invalid)
  static bool tame(mpfr_srcptr x) { return mpfr_zero_p(x) || mpfr_get_exp(x) <= 1030; }
  bool valid() const { return ok && !mpfr_nan_p(lo) && !mpfr_nan_p(hi) && !mpfr_inf_p(lo) && !mpfr_inf_p(hi) && mpfr_lessequal_p(lo, hi) && tame(lo) && tame(hi); }
};

typedef int (*mp1)(mpfr_ptr, mpfr_srcptr, mpfr_rnd_t);
inline bool mi_small_arg(const MI& a) { return mpfr_cmp_d(a.hi, 1e6) < 0 && mpfr_cmp_d(a.lo, -1e6) > 0; }
inline MI mi_mono_inc(mp1 f, const MI& a) { if (!a.valid()) return MI::bad(); if ((f == (mp1)mpfr_exp || f == (mp1)mpfr_sinh || f == (mp1)mpfr_cosh) && !mi_small_arg(a)) return MI::bad(); MI r; f(r.lo, a.lo, MPFR_RNDD); f(r.hi, a.hi, MPFR_RNDU); return r; }
inline MI mi_mono_dec(mp1 f, const MI& a) { if (!a.valid()) return MI::bad(); MI r; f(r.lo, a.hi, MPFR_RNDD); f(r.hi, a.lo, MPFR_RNDU); return r; }
inline MI mi_neg(const MI& a) { if (!a.valid()) return MI::bad(); MI r; mpfr_neg(r.lo, a.hi, MPFR_RNDD); mpfr_neg(r.hi, a.lo, MPFR_RNDU); return r; }
inline MI mi_add(const MI& a, const MI& b) { if (!a.valid() || !b.valid()) return MI::bad(); MI r; mpfr_add(r.lo, a.lo, b.lo, MPFR_RNDD); mpfr_add(r.hi, a.hi, b.hi, MPFR_RNDU); return r; }
inline MI mi_sub(const MI& a, const MI& b) { return mi_add(a, mi_neg(b)); }
inline MI mi_mul(const MI& a, const MI& b) {
  if (!a.valid() || !b.valid()) return MI::bad();
  MI r; mpfr_t t; mpfr_init2(t, 160); bool first = true;
  mpfr_srcptr A[2] = {a.lo, a.hi}, B[2] = {b.lo, b.hi};
  for (int i = 0; i < 2; i++) for (int j = 0; j < 2; j++) {
    mpfr_mul(t, A[i], B[j], MPFR_RNDD); if (first || mpfr_less_p(t, r.lo)) mpfr_set(r.lo, t, MPFR_RNDD);
    mpfr_mul(t, A[i], B[j], MPFR_RNDU); if (first || mpfr_greater_p(t, r.hi)) mpfr_set(r.hi, t, MPFR_RNDU);
    first = false; }
  mpfr_clear(t); return r;
}
inline bool mi_has_zero(const MI& a) { return mpfr_sgn(a.lo) <= 0 && mpfr_sgn(a.hi) >= 0; }
inline MI mi_inv(const MI& a) { if (!a.valid() || mi_has_zero(a)) return MI::bad(); MI r; mpfr_ui_div(r.lo, 1, a.hi, MPFR_RNDD); mpfr_ui_div(r.hi, 1, a.lo, MPFR_RNDU); return r; }
inline MI mi_div(const MI& a, const MI& b) { return mi_mul(a, mi_inv(b)); }
inline MI mi_abs(const MI& a) { if (!a.valid()) return MI::bad(); if (mpfr_sgn(a.lo) >= 0) return a; if (mpfr_sgn(a.hi) <= 0) return mi_neg(a);
  MI r; mpfr_set_ui(r.lo, 0, MPFR_RNDN); MI n = mi_neg(a); mpfr_max(r.hi, a.hi, n.hi, MPFR_RNDU); return r; }
inline MI mi_sqr(const MI& a) { MI b = mi_abs(a); return mi_mul(b, b); }
inline MI mi_powi(const MI& a, int n) { if (n == 0) return MI::of(1, 1); if (n < 0) return mi_inv(mi_powi(a, -n)); MI r = MI::of(1, 1); MI b = (n % 2 == 0) ? mi_abs(a) : a; for (int i = 0; i < n; i++) r = mi_mul(r, b); return r; }
// sin / cos: Lipschitz constant 1 on the (extremely thin) argument interval
inline MI mi_lip(mp1 f, const MI& a) {
  if (!a.valid()) return MI::bad();
  MI r; mpfr_t w, t; mpfr_init2(w, 160); mpfr_init2(t, 160);
  mpfr_sub(w, a.hi, a.lo, MPFR_RNDU);
  f(r.lo, a.lo, MPFR_RNDD); f(t, a.lo, MPFR_RNDU); mpfr_set(r.hi, t, MPFR_RNDU);
  mpfr_sub(r.lo, r.lo, w, MPFR_RNDD); mpfr_add(r.hi, r.hi, w, MPFR_RNDU);
  mpfr_clear(w); mpfr_clear(t); return r;
}
inline MI mi_tan(const MI& a) { // monotone when cos keeps a sign on the argument interval
  if (!a.valid()) return MI::bad(); MI c = mi_lip(mpfr_cos, a); if (!c.valid() || mi_has_zero(c)) return MI::bad(); return mi_mono_inc(mpfr_tan, a); }
inline bool mi_ge(const MI& a, double d) { return mpfr_cmp_d(a.lo, d) >= 0; }
inline bool mi_gt(const MI& a, double d) { return mpfr_cmp_d(a.lo, d) > 0; }
inline bool mi_le(const MI& a, double d) { return mpfr_cmp_d(a.hi, d) <= 0; }
inline bool mi_lt(const MI& a, double d) { return mpfr_cmp_d(a.hi, d) < 0; }
inline MI mi_hull(const MI& a, const MI& b) { if (!a.valid() || !b.valid()) return MI::bad(); MI r; mpfr_min(r.lo, a.lo, b.lo, MPFR_RNDD); mpfr_max(r.hi, a.hi, b.hi, MPFR_RNDU); return r; }
inline MI mi_max(const MI& a, const MI& b) { if (!a.valid() || !b.valid()) return MI::bad(); MI r; mpfr_max(r.lo, a.lo, b.lo, MPFR_RNDD); mpfr_max(r.hi, a.hi, b.hi, MPFR_RNDU); return r; }
inline MI mi_min(const MI& a, const MI& b) { if (!a.valid() || !b.valid()) return MI::bad(); MI r; mpfr_min(r.lo, a.lo, b.lo, MPFR_RNDD); mpfr_min(r.hi, a.hi, b.hi, MPFR_RNDU); return r; }

struct MpEval {
  const Array<const ExprSymbol>& args; const Vector& pt; std::map<const ExprNode*, MI> memo;
  MpEval(const Array<const ExprSymbol>& a, const Vector& p) : args(a), pt(p) {}
  MI ev(const ExprNode& e) {
    auto it = memo.find(&e); if (it != memo.end()) return it->second;
    MI r = ev0(e); memo.insert(std::make_pair(&e, r)); return r;
  }
  MI ev0(const ExprNode& e) {
    if (!e.dim.is_scalar()) return MI::bad();
    if (const ExprSymbol* s = dynamic_cast<const ExprSymbol*>(&e)) { int off = 0; for (int i = 0; i < args.size(); i++) { if (&args[i] == s) return MI::of(pt[off], pt[off]); off += args[i].dim.size(); } return MI::bad(); }
    if (const ExprConstant* c = dynamic_cast<const ExprConstant*>(&e)) { const Interval& v = c->get_value(); if (v.is_empty()) return MI::bad(); return MI::of(v.lb(), v.ub()); }
    if (const ExprAdd* b = dynamic_cast<const ExprAdd*>(&e)) return mi_add(ev(b->left), ev(b->right));
    if (const ExprSub* b = dynamic_cast<const ExprSub*>(&e)) return mi_sub(ev(b->left), ev(b->right));
    if (const ExprMul* b = dynamic_cast<const ExprMul*>(&e)) { if (!b->left.dim.is_scalar() || !b->right.dim.is_scalar()) return MI::bad(); return mi_mul(ev(b->left), ev(b->right)); }
    if (const ExprDiv* b = dynamic_cast<const ExprDiv*>(&e)) return mi_div(ev(b->left), ev(b->right));
    if (const ExprMax* b = dynamic_cast<const ExprMax*>(&e)) return mi_max(ev(b->left), ev(b->right));
    if (const ExprMin* b = dynamic_cast<const ExprMin*>(&e)) return mi_min(ev(b->left), ev(b->right));
    if (const ExprAtan2* b = dynamic_cast<const ExprAtan2*>(&e)) { MI y = ev(b->left), x = ev(b->right); if (!y.valid() || !x.valid()) return MI::bad();
      if (!mi_gt(x, 0)) return MI::bad();    // (right half-plane only: atan2 is smooth there and monotone in each argument)
      // atan2(y,x) increases with y; for x>0 it decreases with x when y>0 and increases when y<0
      MI r; mpfr_srcptr xl = mpfr_sgn(y.lo) >= 0 ? x.hi : x.lo, xh = mpfr_sgn(y.hi) >= 0 ? x.lo : x.hi;
      mpfr_atan2(r.lo, y.lo, xl, MPFR_RNDD); mpfr_atan2(r.hi, y.hi, xh, MPFR_RNDU); return r; }
    if (const ExprMinus* u = dynamic_cast<const ExprMinus*>(&e)) return mi_neg(ev(u->expr));
    if (const ExprSqr* u = dynamic_cast<const ExprSqr*>(&e)) return mi_sqr(ev(u->expr));
    if (const ExprSqrt* u = dynamic_cast<const ExprSqrt*>(&e)) { MI a = ev(u->expr); if (!a.valid() || !mi_ge(a, 0)) return MI::bad(); return mi_mono_inc(mpfr_sqrt, a); }
    if (const ExprPower* u = dynamic_cast<const ExprPower*>(&e)) return mi_powi(ev(u->expr), u->expon);
    if (const ExprExp* u = dynamic_cast<const ExprExp*>(&e)) return mi_mono_inc(mpfr_exp, ev(u->expr));
    if (const ExprLog* u = dynamic_cast<const ExprLog*>(&e)) { MI a = ev(u->expr); if (!a.valid() || !mi_gt(a, 0)) return MI::bad(); return mi_mono_inc(mpfr_log, a); }
    if (const ExprCos* u = dynamic_cast<const ExprCos*>(&e)) return mi_lip(mpfr_cos, ev(u->expr));
    if (const ExprSin* u = dynamic_cast<const ExprSin*>(&e)) return mi_lip(mpfr_sin, ev(u->expr));
    if (const ExprTan* u = dynamic_cast<const ExprTan*>(&e)) return mi_tan(ev(u->expr));
    if (const ExprAcos* u = dynamic_cast<const ExprAcos*>(&e)) { MI a = ev(u->expr); if (!a.valid() || !mi_ge(a, -1) || !mi_le(a, 1)) return MI::bad(); return mi_mono_dec(mpfr_acos, a); }
    if (const ExprAsin* u = dynamic_cast<const ExprAsin*>(&e)) { MI a = ev(u->expr); if (!a.valid() || !mi_ge(a, -1) || !mi_le(a, 1)) return MI::bad(); return mi_mono_inc(mpfr_asin, a); }
    if (const ExprAtan* u = dynamic_cast<const ExprAtan*>(&e)) return mi_mono_inc(mpfr_atan, ev(u->expr));
    if (const ExprCosh* u = dynamic_cast<const ExprCosh*>(&e)) { MI a = mi_abs(ev(u->expr)); return mi_mono_inc(mpfr_cosh, a); }
    if (const ExprSinh* u = dynamic_cast<const ExprSinh*>(&e)) return mi_mono_inc(mpfr_sinh, ev(u->expr));
    if (const ExprTanh* u = dynamic_cast<const ExprTanh*>(&e)) return mi_mono_inc(mpfr_tanh, ev(u->expr));
    if (const ExprAcosh* u = dynamic_cast<const ExprAcosh*>(&e)) { MI a = ev(u->expr); if (!a.valid() || !mi_ge(a, 1)) return MI::bad(); return mi_mono_inc(mpfr_acosh, a); }
    if (const ExprAsinh* u = dynamic_cast<const ExprAsinh*>(&e)) return mi_mono_inc(mpfr_asinh, ev(u->expr));
    // generic operators of src/operators: atanhc(t) = atanh(t)/t (1 at 0; even, increasing with |t|, defined on (-1,1)),
    // sinc(t) = sin(t)/t (1 at 0): evaluated as quotients away from 0, as the series bounds 1 +- t^2 next to 0
    if (const ExprGenericUnaryOp* u = dynamic_cast<const ExprGenericUnaryOp*>(&e)) {
      bool is_at = std::string(u->name) == "atanhc", is_si = std::string(u->name) == "sinc";
      if (!is_at && !is_si) return MI::bad();
      MI a = ev(u->expr); if (!a.valid()) return MI::bad();
      if (is_at && (!mi_gt(a, -1) || !mi_lt(a, 1))) return MI::bad();
      if (mi_gt(a, 0.0009765625) || mi_lt(a, -0.0009765625)) return mi_div(is_at ? mi_mono_inc(mpfr_atanh, a) : mi_lip(mpfr_sin, a), a);
      if (mi_gt(a, -0.001953125) && mi_lt(a, 0.001953125)) {   // |t| < 2^-9: 1 <= atanhc(t) <= 1 + t^2, 1 - t^2 <= sinc(t) <= 1
        MI s = mi_sqr(a); MI one = MI::of(1.0, 1.0);
        if (is_at) { MI up = mi_add(one, s); MI r2; mpfr_set_d(r2.lo, 1.0, MPFR_RNDD); mpfr_set(r2.hi, up.hi, MPFR_RNDU); return r2; }
        MI dn = mi_sub(one, s); MI r2; mpfr_set(r2.lo, dn.lo, MPFR_RNDD); mpfr_set_d(r2.hi, 1.0, MPFR_RNDU); return r2;
      }
      return MI::bad();
    }
    if (const ExprAtanh* u = dynamic_cast<const ExprAtanh*>(&e)) { MI a = ev(u->expr); if (!a.valid() || !mi_gt(a, -1) || !mi_lt(a, 1)) return MI::bad(); return mi_mono_inc(mpfr_atanh, a); }
    if (const ExprAbs* u = dynamic_cast<const ExprAbs*>(&e)) return mi_abs(ev(u->expr));
    if (const ExprSign* u = dynamic_cast<const ExprSign*>(&e)) { MI a = ev(u->expr); if (!a.valid()) return MI::bad(); if (mi_gt(a, 0)) return MI::of(1, 1); if (mi_lt(a, 0)) return MI::of(-1, -1); return MI::bad(); }
    if (const ExprChi* c = dynamic_cast<const ExprChi*>(&e)) { // (strict, as the library: the three arguments must be defined)
      MI a = ev(c->args[0]), b1 = ev(c->args[1]), b2 = ev(c->args[2]); if (!a.valid() || !b1.valid() || !b2.valid()) return MI::bad(); if (mi_le(a, 0)) return b1; if (mi_gt(a, 0)) return b2; return MI::bad(); }
    return MI::bad();
  }
};

// enclosure in doubles of the real value of the scalar expression at the point (false: undefined / undecided / unsupported)
inline bool mp_eval(const ExprNode& e, const Array<const ExprSymbol>& args, const Vector& pt, double& lo, double& hi) {
  MpEval m(args, pt); MI r = m.ev(e);
  if (!r.valid()) return false;
  lo = mpfr_get_d(r.lo, MPFR_RNDD); hi = mpfr_get_d(r.hi, MPFR_RNDU);
  return lo == lo && hi == hi;
}


// ---- forward-mode differentiation in the same arithmetic: value and gradient (w.r.t. the scalar symbols) at a point.
// A node where the function is not differentiable (abs at 0, max/min on a tie, chi at 0, sqrt at 0, domain borders) makes
// the result invalid: no oracle there.
struct MD { MI v; std::vector<MI> g; bool ok; MD() : ok(true) {} static MD bad() { MD d; d.ok = false; return d; }
  bool valid() const { if (!ok || !v.valid()) return false; for (auto& x : g) if (!x.valid()) return false; return true; } };
inline MD md_const(const MI& v, int n) { MD d; d.v = v; for (int i = 0; i < n; i++) d.g.push_back(MI::of(0, 0)); return d; }
inline MD md_scale(const MD& a, const MI& v, const MI& k) { // value v, gradient k * a.g
  if (!a.valid() || !v.valid() || !k.valid()) return MD::bad(); MD d; d.v = v; for (auto& x : a.g) d.g.push_back(mi_mul(k, x)); return d; }
inline MD md_add(const MD& a, const MD& b) { if (!a.valid() || !b.valid()) return MD::bad(); MD d; d.v = mi_add(a.v, b.v); for (size_t i = 0; i < a.g.size(); i++) d.g.push_back(mi_add(a.g[i], b.g[i])); return d; }
inline MD md_neg(const MD& a) { if (!a.valid()) return MD::bad(); MD d; d.v = mi_neg(a.v); for (auto& x : a.g) d.g.push_back(mi_neg(x)); return d; }
inline MD md_sub(const MD& a, const MD& b) { return md_add(a, md_neg(b)); }
inline MD md_mul(const MD& a, const MD& b) { if (!a.valid() || !b.valid()) return MD::bad(); MD d; d.v = mi_mul(a.v, b.v); for (size_t i = 0; i < a.g.size(); i++) d.g.push_back(mi_add(mi_mul(a.g[i], b.v), mi_mul(a.v, b.g[i]))); return d; }
inline MD md_inv(const MD& a) { if (!a.valid() || mi_has_zero(a.v)) return MD::bad(); MI iv = mi_inv(a.v); return md_scale(a, iv, mi_neg(mi_mul(iv, iv))); }
inline MI mi_one_minus_sqr(const MI& v) { return mi_sub(MI::of(1, 1), mi_sqr(v)); }
inline MI mi_sqrt_pos(const MI& v) { if (!v.valid() || !mi_gt(v, 0)) return MI::bad(); return mi_mono_inc(mpfr_sqrt, v); }

struct MpGrad {
  const Array<const ExprSymbol>& args; const Vector& pt; int n; std::map<const ExprNode*, MD> memo;
  MpGrad(const Array<const ExprSymbol>& a, const Vector& p) : args(a), pt(p), n(p.size()) {}
  MD ev(const ExprNode& e) { auto it = memo.find(&e); if (it != memo.end()) return it->second; MD r = ev0(e); memo.insert(std::make_pair(&e, r)); return r; }
  MD ev0(const ExprNode& e) {
    if (!e.dim.is_scalar()) return MD::bad();
    if (const ExprSymbol* s = dynamic_cast<const ExprSymbol*>(&e)) { int off = 0; for (int i = 0; i < args.size(); i++) { if (&args[i] == s) { MD d = md_const(MI::of(pt[off], pt[off]), n); d.g[off] = MI::of(1, 1); return d; } off += args[i].dim.size(); } return MD::bad(); }
    if (const ExprConstant* c = dynamic_cast<const ExprConstant*>(&e)) { const Interval& v = c->get_value(); if (v.is_empty() || !v.is_degenerated()) return MD::bad(); return md_const(MI::of(v.lb(), v.ub()), n); }
    if (const ExprAdd* b = dynamic_cast<const ExprAdd*>(&e)) return md_add(ev(b->left), ev(b->right));
    if (const ExprSub* b = dynamic_cast<const ExprSub*>(&e)) return md_sub(ev(b->left), ev(b->right));
    if (const ExprMul* b = dynamic_cast<const ExprMul*>(&e)) { if (!b->left.dim.is_scalar() || !b->right.dim.is_scalar()) return MD::bad(); return md_mul(ev(b->left), ev(b->right)); }
    if (const ExprDiv* b = dynamic_cast<const ExprDiv*>(&e)) return md_mul(ev(b->left), md_inv(ev(b->right)));
    if (const ExprMax* b = dynamic_cast<const ExprMax*>(&e)) { MD x = ev(b->left), y = ev(b->right); if (!x.valid() || !y.valid()) return MD::bad(); if (mpfr_greater_p(x.v.lo, y.v.hi)) return x; if (mpfr_greater_p(y.v.lo, x.v.hi)) return y; return MD::bad(); }
    if (const ExprMin* b = dynamic_cast<const ExprMin*>(&e)) { MD x = ev(b->left), y = ev(b->right); if (!x.valid() || !y.valid()) return MD::bad(); if (mpfr_less_p(x.v.hi, y.v.lo)) return x; if (mpfr_less_p(y.v.hi, x.v.lo)) return y; return MD::bad(); }
    if (const ExprAtan2* b = dynamic_cast<const ExprAtan2*>(&e)) { MD y = ev(b->left), x = ev(b->right); if (!y.valid() || !x.valid() || !mi_gt(x.v, 0)) return MD::bad();
      MD d; { MI r; mpfr_srcptr xl = mpfr_sgn(y.v.lo) >= 0 ? x.v.hi : x.v.lo, xh = mpfr_sgn(y.v.hi) >= 0 ? x.v.lo : x.v.hi; mpfr_atan2(r.lo, y.v.lo, xl, MPFR_RNDD); mpfr_atan2(r.hi, y.v.hi, xh, MPFR_RNDU); d.v = r; }
      MI den = mi_add(mi_sqr(x.v), mi_sqr(y.v)); MI iden = mi_inv(den);
      for (int i = 0; i < n; i++) d.g.push_back(mi_mul(mi_sub(mi_mul(x.v, y.g[i]), mi_mul(y.v, x.g[i])), iden)); return d; }
    if (const ExprMinus* u = dynamic_cast<const ExprMinus*>(&e)) return md_neg(ev(u->expr));
    if (const ExprSqr* u = dynamic_cast<const ExprSqr*>(&e)) { MD a = ev(u->expr); if (!a.valid()) return MD::bad(); return md_scale(a, mi_sqr(a.v), mi_mul(MI::of(2, 2), a.v)); }
    if (const ExprSqrt* u = dynamic_cast<const ExprSqrt*>(&e)) { MD a = ev(u->expr); if (!a.valid()) return MD::bad(); MI s = mi_sqrt_pos(a.v); return md_scale(a, s, mi_inv(mi_mul(MI::of(2, 2), s))); }
    if (const ExprPower* u = dynamic_cast<const ExprPower*>(&e)) { MD a = ev(u->expr); if (!a.valid()) return MD::bad(); int k = u->expon; if (k == 0) return md_const(MI::of(1, 1), n);
      if (k < 0 && mi_has_zero(a.v)) return MD::bad(); return md_scale(a, mi_powi(a.v, k), mi_mul(MI::of(k, k), mi_powi(a.v, k - 1))); }
    if (const ExprExp* u = dynamic_cast<const ExprExp*>(&e)) { MD a = ev(u->expr); if (!a.valid()) return MD::bad(); MI x = mi_mono_inc(mpfr_exp, a.v); return md_scale(a, x, x); }
    if (const ExprLog* u = dynamic_cast<const ExprLog*>(&e)) { MD a = ev(u->expr); if (!a.valid() || !mi_gt(a.v, 0)) return MD::bad(); return md_scale(a, mi_mono_inc(mpfr_log, a.v), mi_inv(a.v)); }
    if (const ExprCos* u = dynamic_cast<const ExprCos*>(&e)) { MD a = ev(u->expr); if (!a.valid()) return MD::bad(); return md_scale(a, mi_lip(mpfr_cos, a.v), mi_neg(mi_lip(mpfr_sin, a.v))); }
    if (const ExprSin* u = dynamic_cast<const ExprSin*>(&e)) { MD a = ev(u->expr); if (!a.valid()) return MD::bad(); return md_scale(a, mi_lip(mpfr_sin, a.v), mi_lip(mpfr_cos, a.v)); }
    if (const ExprTan* u = dynamic_cast<const ExprTan*>(&e)) { MD a = ev(u->expr); if (!a.valid()) return MD::bad(); MI t = mi_tan(a.v); return md_scale(a, t, mi_add(MI::of(1, 1), mi_sqr(t))); }
    if (const ExprAcos* u = dynamic_cast<const ExprAcos*>(&e)) { MD a = ev(u->expr); if (!a.valid() || !mi_gt(a.v, -1) || !mi_lt(a.v, 1)) return MD::bad(); return md_scale(a, mi_mono_dec(mpfr_acos, a.v), mi_neg(mi_inv(mi_sqrt_pos(mi_one_minus_sqr(a.v))))); }
    if (const ExprAsin* u = dynamic_cast<const ExprAsin*>(&e)) { MD a = ev(u->expr); if (!a.valid() || !mi_gt(a.v, -1) || !mi_lt(a.v, 1)) return MD::bad(); return md_scale(a, mi_mono_inc(mpfr_asin, a.v), mi_inv(mi_sqrt_pos(mi_one_minus_sqr(a.v)))); }
    if (const ExprAtan* u = dynamic_cast<const ExprAtan*>(&e)) { MD a = ev(u->expr); if (!a.valid()) return MD::bad(); return md_scale(a, mi_mono_inc(mpfr_atan, a.v), mi_inv(mi_add(MI::of(1, 1), mi_sqr(a.v)))); }
    if (const ExprCosh* u = dynamic_cast<const ExprCosh*>(&e)) { MD a = ev(u->expr); if (!a.valid()) return MD::bad(); return md_scale(a, mi_mono_inc(mpfr_cosh, mi_abs(a.v)), mi_mono_inc(mpfr_sinh, a.v)); }
    if (const ExprSinh* u = dynamic_cast<const ExprSinh*>(&e)) { MD a = ev(u->expr); if (!a.valid()) return MD::bad(); return md_scale(a, mi_mono_inc(mpfr_sinh, a.v), mi_mono_inc(mpfr_cosh, mi_abs(a.v))); }
    if (const ExprTanh* u = dynamic_cast<const ExprTanh*>(&e)) { MD a = ev(u->expr); if (!a.valid()) return MD::bad(); MI t = mi_mono_inc(mpfr_tanh, a.v); return md_scale(a, t, mi_one_minus_sqr(t)); }
    if (const ExprAcosh* u = dynamic_cast<const ExprAcosh*>(&e)) { MD a = ev(u->expr); if (!a.valid() || !mi_gt(a.v, 1)) return MD::bad(); return md_scale(a, mi_mono_inc(mpfr_acosh, a.v), mi_inv(mi_sqrt_pos(mi_sub(mi_sqr(a.v), MI::of(1, 1))))); }
    if (const ExprAsinh* u = dynamic_cast<const ExprAsinh*>(&e)) { MD a = ev(u->expr); if (!a.valid()) return MD::bad(); return md_scale(a, mi_mono_inc(mpfr_asinh, a.v), mi_inv(mi_sqrt_pos(mi_add(mi_sqr(a.v), MI::of(1, 1))))); }
    if (const ExprAtanh* u = dynamic_cast<const ExprAtanh*>(&e)) { MD a = ev(u->expr); if (!a.valid() || !mi_gt(a.v, -1) || !mi_lt(a.v, 1)) return MD::bad(); return md_scale(a, mi_mono_inc(mpfr_atanh, a.v), mi_inv(mi_one_minus_sqr(a.v))); }
    if (const ExprAbs* u = dynamic_cast<const ExprAbs*>(&e)) { MD a = ev(u->expr); if (!a.valid()) return MD::bad(); if (mi_gt(a.v, 0)) return a; if (mi_lt(a.v, 0)) return md_neg(a); return MD::bad(); }
    if (const ExprSign* u = dynamic_cast<const ExprSign*>(&e)) { MD a = ev(u->expr); if (!a.valid()) return MD::bad(); if (mi_gt(a.v, 0)) return md_const(MI::of(1, 1), n); if (mi_lt(a.v, 0)) return md_const(MI::of(-1, -1), n); return MD::bad(); }
    if (const ExprChi* c = dynamic_cast<const ExprChi*>(&e)) { MD a = ev(c->args[0]), b1 = ev(c->args[1]), b2 = ev(c->args[2]); if (!a.valid() || !b1.valid() || !b2.valid()) return MD::bad(); if (mi_lt(a.v, 0)) return b1; if (mi_gt(a.v, 0)) return b2; return MD::bad(); }
    return MD::bad();
  }
};

// enclosures in doubles of the partial derivatives of the scalar expression at the point (false: no oracle at this point)
inline bool mp_grad(const ExprNode& e, const Array<const ExprSymbol>& args, const Vector& pt, std::vector<double>& lo, std::vector<double>& hi) {
  MpGrad m(args, pt); MD r = m.ev(e);
  if (!r.valid()) return false;
  lo.clear(); hi.clear();
  for (auto& g : r.g) { double a = mpfr_get_d(g.lo, MPFR_RNDD), b = mpfr_get_d(g.hi, MPFR_RNDU); if (!(a == a) || !(b == b)) return false; lo.push_back(a); hi.push_back(b); }
  return true;
}

} // namespace vh
#endif
