// C01 (elementary functions): implementation result vs MPFR point oracle.
// Line: encl <fn> <args...> <argmin> <argmax> <oracle> => <impl>
//   oracle = hull of [RD f(p), RU f(p)] over sample points p of the argument(s) that lie in the domain
//   (correctly rounded MPFR at 53 bits, then to double in the same direction): f(p) in Z  <=>  [RD f(p),RU f(p)] subset Z.
#include "common.h"
#include "mpfr_oracle.h"
using namespace ibex; using namespace vh; using namespace std;

static long emitted = 0;
#define EMIT(...) do { printf(__VA_ARGS__); emitted++; } while (0)

struct Fn1 { const char* name; Interval (*f)(const Interval&); mpfr_fn1 m; int dom; bool trig; };
// dom: 0 all, 1 x>0, 2 x>=0, 3 |x|<=1, 4 x>=1, 5 |x|<1
static bool in_dom(int dom, double p) {
  switch (dom) { case 1: return p > 0; case 2: return p >= 0; case 3: return fabs(p) <= 1; case 4: return p >= 1; case 5: return fabs(p) < 1; default: return true; }
}
static Interval f_exp(const Interval& x) { return exp(x); }
static Interval f_log(const Interval& x) { return log(x); }
static Interval f_sin(const Interval& x) { return sin(x); }
static Interval f_cos(const Interval& x) { return cos(x); }
static Interval f_tan(const Interval& x) { return tan(x); }
static Interval f_asin(const Interval& x) { return asin(x); }
static Interval f_acos(const Interval& x) { return acos(x); }
static Interval f_atan(const Interval& x) { return atan(x); }
static Interval f_sinh(const Interval& x) { return sinh(x); }
static Interval f_cosh(const Interval& x) { return cosh(x); }
static Interval f_tanh(const Interval& x) { return tanh(x); }
static Interval f_asinh(const Interval& x) { return asinh(x); }
static Interval f_acosh(const Interval& x) { return acosh(x); }
static Interval f_atanh(const Interval& x) { return atanh(x); }
static Interval f_sqrt(const Interval& x) { return sqrt(x); }

static Fn1 FN1[] = {
  {"exp", f_exp, mpfr_exp, 0, false}, {"log", f_log, mpfr_log, 1, false},
  {"sin", f_sin, mpfr_sin, 0, true}, {"cos", f_cos, mpfr_cos, 0, true}, {"tan", f_tan, mpfr_tan, 0, true},
  {"asin", f_asin, mpfr_asin, 3, false}, {"acos", f_acos, mpfr_acos, 3, false}, {"atan", f_atan, mpfr_atan, 0, false},
  {"sinh", f_sinh, mpfr_sinh, 0, false}, {"cosh", f_cosh, mpfr_cosh, 0, false}, {"tanh", f_tanh, mpfr_tanh, 0, false},
  {"asinh", f_asinh, mpfr_asinh, 0, false}, {"acosh", f_acosh, mpfr_acosh, 4, false}, {"atanh", f_atanh, mpfr_atanh, 5, false},
  {"sqrt", f_sqrt, mpfr_sqrt, 2, false},
};

static void do_fn1(Rng& r, const Fn1& fn, const Interval& x) {
  Interval z = fn.f(x);
  check_round_up(fn.name);
  Enc e;
  if (!x.is_empty())
    for (double p : samples(r, x, 6, fn.trig)) {
      if (!in_dom(fn.dom, p)) continue;
      double dn, up; if (!eval1(fn.m, p, dn, up)) continue;
      e.add(dn, up, p);
    }
  EMIT("encl %s %s %s %s %s => %s\n", fn.name, tok(x).c_str(), hex(e.argmin).c_str(), hex(e.argmax).c_str(), e.tok().c_str(), rawtok(z).c_str());
}

static int m_pow_si_n; static int m_pow_si(mpfr_ptr r, mpfr_srcptr x, mpfr_rnd_t rnd) { return mpfr_pow_si(r, x, m_pow_si_n, rnd); }
static int m_root_n;   static int m_root(mpfr_ptr r, mpfr_srcptr x, mpfr_rnd_t rnd) { return mpfr_rootn_ui(r, x, (unsigned long)m_root_n, rnd); }

static void do_powint(Rng& r, const Interval& x, int n) {
  Interval z = pow(x, n);
  Enc e; m_pow_si_n = n;
  if (!x.is_empty())
    for (double p : samples(r, x, 4)) { if (n < 0 && p == 0) continue; double dn, up; if (!eval1(m_pow_si, p, dn, up)) continue; e.add(dn, up, p); }
  EMIT("encl powint%d %s %s %s %s => %s\n", n, tok(x).c_str(), hex(e.argmin).c_str(), hex(e.argmax).c_str(), e.tok().c_str(), rawtok(z).c_str());
}
static void do_root(Rng& r, const Interval& x, int n) {
  if (n == 0) return;
  Interval z = root(x, n);
  if (n > 0) {
    Enc e; m_root_n = n;
    if (!x.is_empty())
      for (double p : samples(r, x, 4)) { if (p < 0 && n % 2 == 0) continue; double dn, up; if (!eval1(m_root, p, dn, up)) continue; e.add(dn, up, p); }
    EMIT("encl root%d %s %s %s %s => %s\n", n, tok(x).c_str(), hex(e.argmin).c_str(), hex(e.argmax).c_str(), e.tok().c_str(), rawtok(z).c_str());
  } else {
    // 1/root(x,-n): rigorous but not correctly rounded point enclosure -> "touch": the result must meet it
    m_root_n = -n;
    if (!x.is_empty())
      for (double p : samples(r, x, 2)) {
        if (p == 0 || (p < 0 && (-n) % 2 == 0)) continue;
        mpfr_t v, lo, hi; mpfr_init2(v, 53); mpfr_init2(lo, 200); mpfr_init2(hi, 200); mpfr_set_d(v, p, MPFR_RNDN);
        mpfr_rootn_ui(lo, v, (unsigned long)(-n), MPFR_RNDD); mpfr_rootn_ui(hi, v, (unsigned long)(-n), MPFR_RNDU);
        // 1/[lo,hi] (same sign, non zero)
        mpfr_t ilo, ihi; mpfr_init2(ilo, 200); mpfr_init2(ihi, 200);
        mpfr_ui_div(ilo, 1, hi, MPFR_RNDD); mpfr_ui_div(ihi, 1, lo, MPFR_RNDU);
        double dn = mpfr_get_d(ilo, MPFR_RNDD), up = mpfr_get_d(ihi, MPFR_RNDU);
        bool bad = mpfr_nan_p(ilo) || mpfr_nan_p(ihi);
        mpfr_clears(v, lo, hi, ilo, ihi, (mpfr_ptr)0);
        if (bad) continue;
        EMIT("touch root%d %s %s %s:%s => %s\n", n, tok(x).c_str(), hex(p).c_str(), hex(dn).c_str(), hex(up).c_str(), rawtok(z).c_str());
      }
  }
}

static void do_pow_real(Rng& r, const Interval& x, const Interval& y) {
  Interval z = pow(x, y);
  Enc e;
  if (!x.is_empty() && !y.is_empty())
    for (double p : samples(r, x, 3)) for (double q : samples(r, y, 2)) {
      if (!(p > 0)) continue; double dn, up; if (!eval2(mpfr_pow, p, q, dn, up)) continue; e.add(dn, up, p, q);
    }
  EMIT("encl powitv %s %s %s,%s %s,%s %s => %s\n", tok(x).c_str(), tok(y).c_str(), hex(e.argmin).c_str(), hex(e.argmin2).c_str(), hex(e.argmax).c_str(), hex(e.argmax2).c_str(), e.tok().c_str(), rawtok(z).c_str());
  if (y.is_degenerated() && !y.is_empty()) {
    Interval z2 = pow(x, y.lb());
    EMIT("encl powdbl %s %s %s,%s %s,%s %s => %s\n", tok(x).c_str(), tok(y).c_str(), hex(e.argmin).c_str(), hex(e.argmin2).c_str(), hex(e.argmax).c_str(), hex(e.argmax2).c_str(), e.tok().c_str(), rawtok(z2).c_str());
  }
}
static void do_atan2(Rng& r, const Interval& y, const Interval& x) {
  Interval z = atan2(y, x);
  Enc e;
  if (!x.is_empty() && !y.is_empty())
    for (double p : samples(r, y, 3)) for (double q : samples(r, x, 3)) {
      if (p == 0 && q == 0) continue; double dn, up; if (!eval2(mpfr_atan2, p == 0 ? 0.0 : p, q == 0 ? 0.0 : q, dn, up)) continue; e.add(dn, up, p, q);
    }
  EMIT("encl atan2 %s %s %s,%s %s,%s %s => %s\n", tok(y).c_str(), tok(x).c_str(), hex(e.argmin).c_str(), hex(e.argmin2).c_str(), hex(e.argmax).c_str(), hex(e.argmax2).c_str(), e.tok().c_str(), rawtok(z).c_str());
}

int main(int argc, char** argv) {
  string wl = argc > 1 ? argv[1] : "c01elem";
  uint64_t seed = argc > 2 ? strtoull(argv[2], 0, 10) : 1;
  long n = argc > 3 ? atol(argv[3]) : 1000;
  bool full = argc > 4 && string(argv[4]) == "full";
  Rng r(seed * 104729 + 7);
  auto LI = lattice_itvs();
  if (wl == "c01elem") {
    for (auto& x : LI) {
      for (auto& fn : FN1) if (full || r.coin(25)) do_fn1(r, fn, x);
      if (full || r.coin(20)) { do_powint(r, x, r.range(-6, 6)); do_root(r, x, r.range(-5, 5)); }
    }
    for (auto& x : LI) for (auto& y : LI) if (full ? r.below(LI.size()) < 40 : r.below(LI.size()) < 4) { do_atan2(r, x, y); do_pow_real(r, x, y); }
    for (long i = 0; i < n; i++) {
      Interval x = rand_itv(r), y = rand_itv(r);
      for (auto& fn : FN1) do_fn1(r, fn, x);
      // small intervals around typical arguments of trigonometric/hyperbolic functions
      double c = (double)r.range(-2000, 2000) / 64.0; double w = std::ldexp(1.0, r.range(-50, 3));
      Interval s(c, c + w);
      for (auto& fn : FN1) if (r.coin(50)) do_fn1(r, fn, s);
      do_powint(r, x, r.range(-7, 7)); do_root(r, x, r.range(-5, 5)); do_root(r, s, r.range(-5, 5));
      do_atan2(r, y, x); do_atan2(r, s, y); do_pow_real(r, x, y); do_pow_real(r, abs(s), Interval((double)r.range(-8, 8) / 2));
    }
  } else { fprintf(stderr, "unknown workload\n"); return 2; }
  fprintf(stderr, "emitted %ld\n", emitted);
  return 0;
}
