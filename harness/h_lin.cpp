// C20: linearisations relax / restrict the nonlinear system on the box.
// The 'none' LPSolver of /repo records the rows it is given (hook H1, ibex::verif::lp_record).
//
//   linpt <mode> <dag of f_ctrs> <ops> <fixed rows> <lp box> <rows> <ret> <point> => 1
//        mode = RELAX | RESTRICT.  ops = leq|lt|geq|gt|eq joined by ',' (one per component of f_ctrs; the goal constraint of an
//        extended system is 'eq' in RELAX and 'leq' in RESTRICT mode).  fixed rows: linear inequalities that belong to the system
//        (LinearizerFixed inside a composition), '-' if none.  lp box: bounds of the LP variables (the first variables are those of
//        the system).  rows: what the LP solver received, '-' if nothing.  ret: value returned by linearize.
//        RELAX: an exactly feasible point of the box satisfies every row and ret != -1.
//        RESTRICT (ret != -1): a point of the lp box satisfying every row exactly is feasible.
//   lincert <mode> <ops> <box> <fixed rows> <rows> <ret> <evalbox> <expansions> => 1
//        certificate from the implementation's own slope matrices (public hansen_matrix / jacobian / eval_vector):
//        expansion = <point>#<active indices a.b.c>#<g(point) as vector token>#<slope matrix token | E>, joined by '|' ('-' if none)
//   lindualcert <ops> <box> <rows> <ret> <evalbox> <expansion at the chosen point> => 1
//   linfixed <expected rows> => <recorded rows> <ret>
// row token:  <lo>#<hi>#<a1;a2;...>   meaning lo <= a.x <= hi   (hex doubles, infinite bounds allowed); rows joined by '|'
#include "common.h"
#include "expr_io.h"
#include "ibex_LinearizerXTaylor.h"
#include "ibex_LinearizerCompo.h"
#include "ibex_LinearizerFixed.h"
#include "ibex_LinearizerDuality.h"
#include <typeinfo>
#include <memory>
#include <set>
using namespace ibex; using namespace vh; using namespace std;

namespace ibex { namespace verif {
extern bool lp_record; extern int lp_nb_vars; extern double lp_tolerance;
extern std::vector<Vector> lp_rows; extern std::vector<int> lp_ops; extern std::vector<double> lp_lhs; extern std::vector<double> lp_rhs;
extern std::vector<IntervalVector> lp_bounds;
} }

static long emitted = 0;
#define EMIT(...) do { printf(__VA_ARGS__); emitted++; } while (0)

static double dyadic(Rng& r) { return r.range(-24, 24) / 8.0; }

// ---- rows -----------------------------------------------------------------------------------------
struct Row { Vector a; double lo, hi; Row() : a(1), lo(0), hi(0) {} };
static vector<Row> recorded_rows() {
  vector<Row> out;
  for (size_t i = 0; i < ibex::verif::lp_rows.size(); i++) {
    Row w; w.a = ibex::verif::lp_rows[i]; int op = ibex::verif::lp_ops[i];
    if (op == -1) { w.lo = ibex::verif::lp_lhs[i]; w.hi = ibex::verif::lp_rhs[i]; }
    else if (op == (int)LEQ || op == (int)LT) { w.lo = NEG_INFINITY; w.hi = ibex::verif::lp_rhs[i]; }
    else if (op == (int)GEQ || op == (int)GT) { w.lo = ibex::verif::lp_rhs[i]; w.hi = POS_INFINITY; }
    else { w.lo = w.hi = ibex::verif::lp_rhs[i]; }
    out.push_back(w);
  }
  return out;
}
static string rows_token(const vector<Row>& rows) {
  if (rows.empty()) return "-";
  string s;
  for (size_t i = 0; i < rows.size(); i++) { if (i) s += "|"; s += hex(rows[i].lo) + "#" + hex(rows[i].hi) + "#" + ptok(rows[i].a); }
  return s;
}
static const char* op_name(CmpOp op) { switch (op) { case LT: return "lt"; case LEQ: return "leq"; case EQ: return "eq"; case GEQ: return "geq"; default: return "gt"; } }

// ---- systems with a planted point -------------------------------------------------------------------
struct Sys { System* sys; int n; Vector planted; Sys() : sys(0), n(0), planted(1) {} };

static bool make_system0(Rng& r, Sys& S, bool with_goal, bool ineq_only, int maxn) {
  int n = r.range(1, maxn); int m = r.range(1, 3);
  S.n = n; S.planted.resize(n); for (int i = 0; i < n; i++) S.planted[i] = dyadic(r);
  SystemFactory fac;
  Array<const ExprSymbol> x(n); for (int i = 0; i < n; i++) x.set_ref(i, ExprSymbol::new_(("x" + to_string(i)).c_str(), Dim::scalar()));
  fac.add_var(x);
  auto value_at = [&](const ExprNode& e) -> Domain {
    Array<const ExprSymbol> cp(n); for (int i = 0; i < n; i++) cp.set_ref(i, ExprSymbol::new_(x[i].name, Dim::scalar()));
    Function tmp(cp, ExprCopy().copy(x, cp, e), "t");
    return tmp.eval_domain(IntervalVector(S.planted));
  };
  auto new_gen = [&](GenCfg& cfg) -> ExprGen* {
    ExprGen* g = new ExprGen(r, cfg); for (int i = 0; i < n; i++) g->syms.push_back(&x[i]);
    if (cfg.allow_apply) { int nf = r.range(1, 2); for (int k = 0; k < nf; k++) {
        GenCfg c2 = cfg; c2.allow_vec = false; c2.allow_apply = false; ExprGen g2(r, c2); int na = r.range(1, 2);
        Array<const ExprSymbol>* a = new Array<const ExprSymbol>(na);
        for (int i = 0; i < na; i++) { const ExprSymbol& s = ExprSymbol::new_(("a" + to_string(k) + "_" + to_string(i)).c_str(), Dim::scalar()); a->set_ref(i, s); g2.syms.push_back(&s); }
        g->funs.push_back(new Function(*a, g2.gen(1, 1, 2), ("aux" + to_string(k)).c_str())); } }
    return g;
  };
  int added = 0;
  for (int j = 0; j < m; j++) {
    GenCfg cfg; cfg.allow_vec = r.coin(40); cfg.allow_apply = r.coin(15); cfg.allow_div = r.coin(25); cfg.differentiable = r.coin(75); cfg.max_depth = r.range(1, 3); cfg.allow_sqrt = r.coin(15);
    std::unique_ptr<ExprGen> g(new_gen(cfg));
    bool vec = r.coin(12);
    const ExprNode& e = g->gen(vec ? 2 : 1, 1, cfg.max_depth);
    Domain v = value_at(e);
    if (v.is_empty()) continue;
    int k = ineq_only ? r.below(4) : r.below(5);
    CmpOp op = k == 0 ? LEQ : k == 1 ? GEQ : k == 2 ? LT : k == 3 ? GT : EQ;
    auto cst_for = [&](const Interval& vi, bool& ok) -> double {
      if (vi.is_empty() || vi.is_unbounded()) { ok = false; return 0; }
      double slack = r.coin(40) ? 0 : r.range(1, 16) / 8.0;
      switch (op) {
        case LEQ: return vi.ub() + slack;
        case LT: return vi.ub() + slack + 0.125;
        case GEQ: return vi.lb() - slack;
        case GT: return vi.lb() - slack - 0.125;
        default: if (!vi.is_degenerated()) { ok = false; return 0; } return vi.lb();
      }
    };
    bool ok = true;
    if (!vec) {
      double c = cst_for(v.i(), ok); if (!ok) continue;
      fac.add_ctr(ExprCtr(e - ExprConstant::new_scalar(c), op));
    } else {
      IntervalVector cv(2); for (int i = 0; i < 2 && ok; i++) cv[i] = Interval(cst_for(v.v()[i], ok)); if (!ok) continue;
      fac.add_ctr(ExprCtr(e - ExprConstant::new_vector(cv, false), op));
    }
    added++;
  }
  if (!added) return false;
  if (with_goal) {
    GenCfg cfg; cfg.allow_vec = r.coin(30); cfg.allow_apply = false; cfg.allow_div = r.coin(15); cfg.differentiable = r.coin(85); cfg.max_depth = r.range(1, 3);
    std::unique_ptr<ExprGen> g(new_gen(cfg));
    const ExprNode& e = g->gen(1, 1, cfg.max_depth);
    Domain v = value_at(e);
    if (v.is_empty() || v.i().is_unbounded()) return false;
    fac.add_goal(e);
  }
  S.sys = new System(fac);
  return true;
}

// exceptions while BUILDING a system (expression simplification: property C11) are not the subject of this check
static bool make_system(Rng& r, Sys& S, bool with_goal, bool ineq_only, int maxn) {
  try { return make_system0(r, S, with_goal, ineq_only, maxn); } catch (VerifAbort&) { return false; } catch (std::exception&) { return false; }
}

// box around a point: the point is often on a face / at a corner; half-bounded and degenerate components
static IntervalVector box_around(Rng& r, const Vector& p, bool bounded_only) {
  IntervalVector b(p.size());
  for (int i = 0; i < p.size(); i++) {
    double lo = p[i] - (r.coin(30) ? 0 : r.range(1, 24) / 8.0), hi = p[i] + (r.coin(30) ? 0 : r.range(1, 24) / 8.0);
    if (r.coin(4)) { lo -= 1e6; hi += 1e6; }
    if (!bounded_only) switch (r.below(10)) { case 0: lo = NEG_INFINITY; break; case 1: hi = POS_INFINITY; break; default: break; }
    b[i] = Interval(lo, hi);
  }
  return b;
}
static double fin(double v, double alt) { return (v == NEG_INFINITY || v == POS_INFINITY) ? alt : v; }
static Vector rand_point(Rng& r, const IntervalVector& box, const Vector& ref) {
  Vector q(box.size());
  for (int i = 0; i < box.size(); i++) {
    double a = fin(box[i].lb(), ref[i] - 4), b = fin(box[i].ub(), ref[i] + 4);
    double v = a + (b - a) * (r.range(0, 16) / 16.0);
    if (!(v == v) || !box[i].contains(v)) v = box[i].contains(ref[i]) ? ref[i] : a;
    q[i] = v;
  }
  return q;
}
// finite corners of a box (empty if some component has no finite bound)
static vector<Vector> finite_corners(const IntervalVector& box, size_t limit) {
  int n = box.size(); vector<vector<double> > ch(n);
  for (int j = 0; j < n; j++) {
    if (box[j].lb() > NEG_INFINITY) ch[j].push_back(box[j].lb());
    if (box[j].ub() < POS_INFINITY && !(box[j].lb() == box[j].ub())) ch[j].push_back(box[j].ub());
    if (ch[j].empty()) return vector<Vector>();
  }
  vector<Vector> out; Vector c(n); vector<int> idx(n, 0);
  while (true) {
    for (int j = 0; j < n; j++) c[j] = ch[j][idx[j]];
    out.push_back(c); if (out.size() >= limit) break;
    int j = 0; while (j < n) { if (++idx[j] < (int)ch[j].size()) break; idx[j] = 0; j++; }
    if (j == n) break;
  }
  return out;
}

static string act_token(const BitSet& act) {
  string s; bool first = true;
  for (BitSet::iterator c = act.begin(); c != act.end(); ++c) { if (!first) s += "."; s += to_string((int)c); first = false; }
  return first ? "-" : s;
}

// one expansion token: point # active # g(point) # slope matrix
static string expansion(const Fnc& f, const IntervalVector& box, const Vector& c, const BitSet& act, bool hansen) {
  int n = box.size();
  IntervalVector gc = f.eval_vector(IntervalVector(c), act);
  IntervalMatrix G(act.size(), n);
  if (hansen) f.hansen_matrix(box, IntervalVector(c), G, act); else G = f.jacobian(box, act);
  string gtok = "E"; if (!gc.is_empty()) gtok = mtok(gc);
  return ptok(c) + "#" + act_token(act) + "#" + gtok + "#" + (G.is_empty() ? string("E") : mtok(G));
}

static double rowdot(const Vector& a, const Vector& x) { double s = 0; for (int i = 0; i < a.size() && i < x.size(); i++) s += a[i] * x[i]; return s; }
static bool rows_hold(const vector<Row>& rows, const Vector& x, double slack) {
  for (auto& w : rows) { double v = rowdot(w.a, x); if (!(v <= w.hi + slack && v >= w.lo - slack)) return false; }
  return true;
}
// approximate feasibility (midpoint of the interval evaluation): only used to steer the sampling
static bool approx_feasible(const System& sys, const Vector& p) {
  IntervalVector v = sys.f_ctrs.eval_vector(IntervalVector(p));
  if (v.is_empty()) return false;
  for (int c = 0; c < v.size(); c++) { double m = v[c].mid(); switch (sys.ops[c]) { case LT: case LEQ: if (m > 0) return false; break; case GEQ: case GT: if (m < 0) return false; break; default: if (m != 0) return false; } }
  return true;
}

// sample points of the box: planted, corners, grid points, points near the boundary of the feasible set, points on / near the rows
static vector<Vector> sample_points(Rng& r, const System& sys, const IntervalVector& box, const vector<Row>& rows, const Vector& planted, bool restrict_mode) {
  vector<Vector> pts; int n = box.size();
  if (box.contains(planted)) pts.push_back(planted);
  vector<Vector> cs = finite_corners(box, 64);
  for (int k = 0; k < 4 && !cs.empty(); k++) pts.push_back(cs[r.below(cs.size())]);
  for (int k = 0; k < 3; k++) pts.push_back(rand_point(r, box, planted));
  // towards the boundary of the feasible set, from the planted point
  if (box.contains(planted) && approx_feasible(sys, planted)) for (int k = 0; k < 3; k++) {
    Vector q = rand_point(r, box, planted); if (approx_feasible(sys, q)) { pts.push_back(q); continue; }
    Vector lo = planted, hi = q;
    for (int it = 0; it < 40; it++) { Vector mid(n); for (int i = 0; i < n; i++) { mid[i] = lo[i] + (hi[i] - lo[i]) / 2; if (!box[i].contains(mid[i])) mid[i] = lo[i]; } if (approx_feasible(sys, mid)) lo = mid; else hi = mid; }
    pts.push_back(lo); pts.push_back(hi);
  }
  // points on the rows (both sides), starting from points of the box
  for (size_t k = 0; k < rows.size() && k < 6; k++) {
    const Row& w = rows[k]; if ((int)w.a.size() != n) continue;
    Vector base = pts.empty() ? rand_point(r, box, planted) : pts[r.below(pts.size())];
    int j = r.below(n); for (int t = 0; t < n && w.a[j] == 0; t++) j = (j + 1) % n; if (w.a[j] == 0) continue;
    double b = w.hi < POS_INFINITY ? w.hi : w.lo; if (b != b || b == POS_INFINITY || b == NEG_INFINITY) continue;
    double rest = 0; for (int i = 0; i < n; i++) if (i != j) rest += w.a[i] * base[i];
    double xj = (b - rest) / w.a[j];
    if (!(xj == xj) || !box[j].contains(xj)) continue;
    double cand[3] = {xj, std::nextafter(xj, INFINITY), std::nextafter(xj, -INFINITY)};
    for (double v : cand) if (box[j].contains(v)) { Vector q = base; q[j] = v; pts.push_back(q); }
  }
  if (restrict_mode && !rows.empty()) { // points satisfying all the rows (approximately): rejection sampling
    int found = 0;
    for (int k = 0; k < 300 && found < 5; k++) {
      Vector q(n); for (int i = 0; i < n; i++) { double a = fin(box[i].lb(), planted[i] - 4), b = fin(box[i].ub(), planted[i] + 4); double v = a + (b - a) * ((double)r.below(4097) / 4096.0); if (!box[i].contains(v)) v = a; q[i] = v; }
      if (rows_hold(rows, q, 0)) { pts.push_back(q); found++; }
    }
  }
  return pts;
}

struct Cfg { int mode, policy, slope; double tol; };
static const char* mode_name(int m) { return m ? "RESTRICT" : "RELAX"; }
static LinearizerXTaylor* make_xt(const System& sys, const Cfg& c) {
  return new LinearizerXTaylor(sys, c.mode ? LinearizerXTaylor::RESTRICT : LinearizerXTaylor::RELAX, (LinearizerXTaylor::corner_policy)c.policy, (LinearizerXTaylor::slope_formula)c.slope);
}
static Cfg rand_cfg(Rng& r, int mode) {
  Cfg c; c.mode = mode; c.policy = mode ? r.below(3) : r.below(4); c.slope = r.below(2);
  switch (r.below(5)) { case 0: c.tol = 0; break; case 1: c.tol = 1e-6; break; case 2: c.tol = 0.125; break; default: c.tol = 1e-9; }
  return c;
}
static string ops_token(const System& sys, int mode, int goal_ctr) {
  string s; int m = sys.f_ctrs.image_dim();
  for (int c = 0; c < m; c++) { if (c) s += ","; s += (c == goal_ctr ? (mode ? "leq" : "eq") : op_name(sys.ops[c])); }
  return s;
}
// all expansions the certificate may use: every finite corner, Hansen and Taylor slopes
static string expansions_token(const System& sys, const IntervalVector& box) {
  BitSet act = sys.active_ctrs(box);
  if (act.empty()) return "-";
  IntervalVector ev = sys.f_ctrs.eval_vector(box);
  if (ev.is_empty()) return "-";
  vector<Vector> cs = finite_corners(box, 64);
  string s;
  for (auto& c : cs) for (int h = 0; h < 2; h++) { if (!s.empty()) s += "|"; s += expansion(sys.f_ctrs, box, c, act, h == 1); }
  return s.empty() ? "-" : s;
}
static string evalbox_token(const System& sys, const IntervalVector& box) {
  IntervalVector ev = sys.f_ctrs.eval_vector(box);
  if (ev.is_empty()) return "E";
  return mtok(ev);
}

// run one linearizer on one box, emit certificate and point lines
static void run_case(Rng& r, const System& sys, int goal_ctr, Linearizer& lin, int mode, double tol, const IntervalVector& box, const Vector& planted,
                     const vector<Row>& fixed, const vector<Vector>& extra = vector<Vector>()) {
  int n = sys.nb_var;
  LPSolver lp(n, LPSolver::Mode::NotCertified, tol);
  if (r.coin(30)) { // history: a previous call on another box, then clear
    IntervalVector other = box_around(r, planted, false);
    try { lin.linearize(other, lp); } catch (...) {}
    lp.clear_constraints();
  }
  unsigned long rs = r.below(1000000); RNG::srand(rs);
  int ret;
  if (r.coin()) ret = lin.linearize(box, lp);
  else { BoxProperties prop(box); lin.add_property(box, prop); ret = lin.linearize(box, lp, prop); }
  check_round_up("linearize");
  vector<Row> rows = recorded_rows();
  string dag = dump_fun(sys.f_ctrs), ops = ops_token(sys, mode, goal_ctr), rt = rows_token(rows), ft = rows_token(fixed), bt = tok(box);
  EMIT("lincert %s %s %s %s %s %d %s %s => 1\n", mode_name(mode), ops.c_str(), bt.c_str(), ft.c_str(), rt.c_str(), ret, evalbox_token(sys, box).c_str(), expansions_token(sys, box).c_str());
  vector<Row> all = rows; for (auto& w : fixed) all.push_back(w);
  vector<Vector> pts = sample_points(r, sys, box, all, planted, mode == 1); for (auto& e : extra) pts.push_back(e);
  std::set<string> seen;
  for (auto& p : pts) if (seen.insert(ptok(p)).second)
    EMIT("linpt %s %s %s %s %s %s %d %s => 1\n", mode_name(mode), dag.c_str(), ops.c_str(), ft.c_str(), bt.c_str(), rt.c_str(), ret, ptok(p).c_str());
}

// rows a.x <= b satisfied by the planted point (some of them active there)
static vector<Row> fixed_rows(Rng& r, const Vector& planted, Matrix& A, Vector& b) {
  int n = planted.size(), k = r.range(1, 3); A.resize(k, n); b.resize(k); vector<Row> out;
  for (int i = 0; i < k; i++) {
    Row w; w.a.resize(n);
    for (int j = 0; j < n; j++) { double v = r.coin(25) ? 0 : (r.coin() ? r.range(-8, 8) / 4.0 : 0.1 * r.range(-20, 20)); A[i][j] = v; w.a[j] = v; }
    double s = 0; for (int j = 0; j < n; j++) s += A[i][j] * planted[j]; // (rounded upward)
    b[i] = s + (r.coin(40) ? 0 : r.range(1, 8) / 8.0); w.lo = NEG_INFINITY; w.hi = b[i]; out.push_back(w);
  }
  return out;
}

static double rand_tol(Rng& r) { switch (r.below(5)) { case 0: return 0; case 1: return 1e-6; case 2: return 0.125; default: return 1e-9; } }

// LinearizerDuality on one box: certificate line + points (x, z) of the LP box
static void run_dual(Rng& r, const NormalizedSystem& ns, const IntervalVector& box, const Vector& planted, double tol, const vector<Vector>& extra) {
  int n = ns.nb_var, m = ns.f_ctrs.image_dim();
  LinearizerDuality lin(ns, r.coin() ? LinearizerDuality::HANSEN : LinearizerDuality::TAYLOR);
  LPSolver lp(n + m * n, LPSolver::Mode::NotCertified, tol);
  if (r.coin(30)) { IntervalVector other = box_around(r, planted, true); try { lin.linearize(other, lp); } catch (...) {} lp.clear_constraints(); }
  int ret; if (r.coin()) ret = lin.linearize(box, lp); else { BoxProperties prop(box); lin.add_property(box, prop); ret = lin.linearize(box, lp, prop); }
  check_round_up("duality");
  vector<Row> rows = recorded_rows();
  Vector pt = lin.point();
  BitSet act = ns.active_ctrs(box);
  string exp = act.empty() ? string("-") : expansion(ns.f_ctrs, box, pt, act, true);
  string dag = dump_fun(ns.f_ctrs), ops = ops_token(ns, 1, -1), rt = rows_token(rows);
  EMIT("lindualcert %s %s %s %d %s %s => 1\n", ops.c_str(), tok(box).c_str(), rt.c_str(), ret, evalbox_token(ns, box).c_str(), exp.c_str());
  // LP box: the variables of the system in the box, the auxiliary variables <= 0 (as LoupFinderDuality sets them)
  IntervalVector lpbox(n + m * n, Interval::neg_reals()); lpbox.put(0, box);
  // which auxiliary variables are tied to x_j by a row  x_j + z <= rhs ?
  vector<double> tie(n + m * n, POS_INFINITY); vector<int> tiej(n + m * n, -1);
  for (auto& w : rows) { int nz = 0, xj = -1, zk = -1; bool finite = true; for (int i = 0; i < w.a.size(); i++) { if (w.a[i] != w.a[i]) finite = false; if (w.a[i] != 0) { nz++; if (i < n) xj = i; else zk = i; } }
    if (finite && nz == 2 && xj >= 0 && zk >= 0 && w.a[xj] == 1 && w.a[zk] == 1) { tie[zk] = w.hi; tiej[zk] = xj; } }
  vector<Vector> xs = sample_points(r, ns, box, vector<Row>(), planted, false);
  for (auto& e : extra) xs.push_back(e);
  for (int q = 0; q < 6; q++) { Vector x(n); for (int i = 0; i < n; i++) { double v = box[i].lb() + (box[i].ub() - box[i].lb()) * ((double)r.below(1025) / 1024.0); x[i] = box[i].contains(v) ? v : box[i].lb(); } xs.push_back(x); }
  std::set<string> seen;
  for (auto& x : xs) {
    if (!seen.insert(ptok(x)).second) continue;
    Vector xz(n + m * n); for (int i = 0; i < n; i++) xz[i] = x[i];
    for (int i = n; i < n + m * n; i++) {
      if (tiej[i] < 0) { xz[i] = 0; continue; }
      double d = x[tiej[i]] - tie[i];           // rounded upward: -(d) <= tie - x exactly
      double z = -d; if (z > 0) z = 0; xz[i] = z;
    }
    EMIT("linpt RESTRICT %s %s - %s %s %d %s => 1\n", dag.c_str(), ops.c_str(), tok(lpbox).c_str(), rt.c_str(), ret, ptok(xz).c_str());
  }
}

int main(int argc, char** argv) {
  string wl = argc > 1 ? argv[1] : "xt";
  uint64_t seed = argc > 2 ? strtoull(argv[2], 0, 10) : 1;
  long N = argc > 3 ? atol(argv[3]) : 100;
  bool full = argc > 4 && string(argv[4]) == "full";
  Rng r(seed * 15485863 + 20);
  ibex::verif::lp_record = true;
  for (long it = 0; it < N; it++) {
    try {
      if (wl == "xt" || wl == "xtext" || wl == "compo") {
        bool ext = wl == "xtext";
        Sys S; if (!make_system(r, S, ext, false, ext ? 3 : 4)) continue;
        const System* sys = S.sys; int goal_ctr = -1; Vector planted = S.planted;
        std::unique_ptr<NormalizedSystem> ns; std::unique_ptr<ExtendedSystem> es;
        if (ext) {
          es.reset(new ExtendedSystem(*S.sys, r.coin(30) ? 0.125 : 0)); sys = es.get(); goal_ctr = es->goal_ctr();
          Interval gv = S.sys->goal->eval(IntervalVector(S.planted));
          planted.resize(S.n + 1); for (int i = 0; i < S.n; i++) planted[i] = S.planted[i];
          planted[S.n] = (gv.is_empty() || gv.is_unbounded()) ? 0 : gv.ub() + (r.coin() ? 0 : r.range(0, 8) / 8.0);
        } else if (r.coin(20)) { ns.reset(new NormalizedSystem(*S.sys, r.coin() ? 0.125 : 0)); sys = ns.get(); }
        int nboxes = full ? 4 : 3;
        for (int k = 0; k < nboxes; k++) {
          Vector centre = planted;
          if (r.coin(20)) for (int i = 0; i < centre.size(); i++) if (r.coin(60)) centre[i] += (r.coin() ? 1 : -1) * r.range(1, 40) / 4.0;   // boxes away from the planted point (often infeasible)
          IntervalVector box = box_around(r, centre, false);
          int mode = r.coin(60) ? 0 : 1;
          if (wl != "compo") {
            Cfg c = rand_cfg(r, mode);
            std::unique_ptr<LinearizerXTaylor> lin(make_xt(*sys, c));
            run_case(r, *sys, goal_ctr, *lin, mode, c.tol, box, planted, vector<Row>());
          } else {
            // compositions: XTaylor+XTaylor, XTaylor+Fixed, Fixed+XTaylor, nested
            Cfg c1 = rand_cfg(r, mode), c2 = rand_cfg(r, mode); c2.tol = c1.tol;
            std::unique_ptr<LinearizerXTaylor> l1(make_xt(*sys, c1)), l2(make_xt(*sys, c2));
            Matrix A(1, 1); Vector b(1); vector<Row> fixed;
            switch (r.below(4)) {
              case 0: { LinearizerCompo lc(*l1, *l2); run_case(r, *sys, goal_ctr, lc, mode, c1.tol, box, planted, fixed); break; }
              case 1: { fixed = fixed_rows(r, planted, A, b); LinearizerFixed lf(A, b); LinearizerCompo lc(*l1, lf); run_case(r, *sys, goal_ctr, lc, mode, c1.tol, box, planted, fixed); break; }
              case 2: { fixed = fixed_rows(r, planted, A, b); LinearizerFixed lf(A, b); LinearizerCompo lc(lf, *l1); run_case(r, *sys, goal_ctr, lc, mode, c1.tol, box, planted, fixed); break; }
              default: { fixed = fixed_rows(r, planted, A, b); LinearizerFixed lf(A, b); LinearizerCompo inner(*l1, lf); LinearizerCompo lc(inner, *l2); run_case(r, *sys, goal_ctr, lc, mode, c1.tol, box, planted, fixed); break; }
            }
          }
        }
      } else if (wl == "xtx") {
        // structured family: a square root whose argument vanishes on a face of the box (the function is defined there but not
        // differentiable: empty / unbounded interval derivatives), plus a smooth part
        int n = r.range(2, 3); Vector p(n); for (int i = 0; i < n; i++) p[i] = dyadic(r);
        SystemFactory fac; Array<const ExprSymbol> x(n); for (int i = 0; i < n; i++) x.set_ref(i, ExprSymbol::new_(("x" + to_string(i)).c_str(), Dim::scalar()));
        fac.add_var(x);
        int i0 = r.below(n); bool up = r.coin(70);             // sqrt(x_i0 - p_i0)  or  sqrt(p_i0 - x_i0)
        const ExprNode& arg = up ? (x[i0] - ExprConstant::new_scalar(p[i0])) : (ExprConstant::new_scalar(p[i0]) - x[i0]);
        const ExprNode* rest = 0;
        for (int i = 0; i < n; i++) if (i != i0) { const ExprNode& t = r.coin() ? (double)r.range(-3, 3) * x[i] : (r.range(-4, 4) / 4.0) * sqr(x[i]); rest = rest ? &(*rest + t) : &t; }
        double sq = r.coin(30) ? -1.0 : 1.0;
        const ExprNode& e = sq * sqrt(arg) + *rest;
        double v = 0; for (int i = 0; i < n; i++) if (i != i0) v += 0; // value at p computed below through a copy
        { Array<const ExprSymbol> cp(n); for (int i = 0; i < n; i++) cp.set_ref(i, ExprSymbol::new_(x[i].name, Dim::scalar())); Function tmp(cp, ExprCopy().copy(x, cp, e), "t"); Interval iv = tmp.eval(IntervalVector(p)); if (iv.is_empty() || iv.is_unbounded()) continue; v = iv.ub(); }
        bool leq = r.coin(); double slack = r.coin(40) ? 0 : r.range(1, 8) / 8.0;
        if (leq) fac.add_ctr(ExprCtr(e - ExprConstant::new_scalar(v + slack), r.coin() ? LEQ : LT)); else fac.add_ctr(ExprCtr(e - ExprConstant::new_scalar(v - slack - (slack == 0 ? 0.125 : 0)), r.coin() ? GEQ : GT));
        if (r.coin(40)) fac.add_ctr(ExprCtr((double)r.range(1, 3) * x[(i0 + 1) % n] - ExprConstant::new_scalar(3 * p[(i0 + 1) % n] + 40.0), LEQ));
        System sys(fac);
        for (int k = 0; k < 3; k++) {
          IntervalVector box = box_around(r, p, false);
          double w = r.coin() ? 1.0 : (r.coin() ? 4.0 : 0.25);
          switch (r.below(3)) { case 0: box[i0] = Interval(p[i0]); break; case 1: box[i0] = up ? Interval(p[i0], p[i0] + w) : Interval(p[i0] - w, p[i0]); break; default: box[i0] = up ? Interval(p[i0] - w, p[i0] + w) : Interval(p[i0] - w, p[i0] + w); }
          vector<Vector> extra; int ks[5] = {0, 1, 4, 9, 16};
          for (int q = 0; q < 5; q++) { Vector y = rand_point(r, box, p); y[i0] = up ? p[i0] + w * ks[q] / 16.0 : p[i0] - w * ks[q] / 16.0; if (box.contains(y)) extra.push_back(y); Vector y2 = p; y2[i0] = y[i0]; if (box.contains(y2)) extra.push_back(y2); }
          int mode = r.coin(70) ? 0 : 1; Cfg c = rand_cfg(r, mode);
          std::unique_ptr<LinearizerXTaylor> lin(make_xt(sys, c));
          run_case(r, sys, -1, *lin, mode, c.tol, box, p, vector<Row>(), extra);
        }
      } else if (wl == "fixed") {
        int n = r.range(1, 5); Vector p(n); for (int i = 0; i < n; i++) p[i] = dyadic(r);
        Matrix A(1, 1); Vector b(1); vector<Row> fixed = fixed_rows(r, p, A, b);
        if (r.coin(20)) for (int i = 0; i < b.size(); i++) { b[i] = rand_double(r); if (b[i] != b[i]) b[i] = 0; fixed[i].hi = b[i]; }
        LinearizerFixed lf(A, b);
        LPSolver lp(n);
        IntervalVector box = box_around(r, p, false);
        Linearizer& L = lf; if (r.coin(30)) { L.linearize(box, lp); lp.clear_constraints(); }
        int ret; if (r.coin()) ret = L.linearize(box, lp); else { BoxProperties prop(box); ret = L.linearize(box, lp, prop); }
        EMIT("linfixed %s => %s %d\n", rows_token(fixed).c_str(), rows_token(recorded_rows()).c_str(), ret);
      } else if (wl == "dual") {
        Sys S; if (!make_system(r, S, false, !r.coin(15), 3)) continue;
        NormalizedSystem ns(*S.sys, r.coin(70) ? 0.125 : 0.5);   // equalities become two inequalities
        for (int k = 0; k < 3; k++) {
          IntervalVector box = box_around(r, S.planted, true);
          run_dual(r, ns, box, S.planted, rand_tol(r), vector<Vector>());
        }
      } else if (wl == "dualx") {
        // structured families for LinearizerDuality (one variable, centre m = 0 so that everything is exact)
        Variable x; SystemFactory fac; fac.add_var(x);
        IntervalVector box(1); vector<Vector> extra; double tol = r.coin(70) ? 1e-9 : rand_tol(r);
        switch (r.below(4)) {
          case 0: { // a pole at the midpoint of the box: g cannot be evaluated at the chosen point
            double w = ldexp(1.0, r.range(-2, 3)), K = r.range(1, 64);
            if (r.coin()) fac.add_ctr(1 / x <= K); else fac.add_ctr(1 / sqr(x) <= K);
            box[0] = Interval(-w, w);
            for (int q = 1; q <= 4; q++) { extra.push_back(Vector(1, ldexp(w, -q - 2))); extra.push_back(Vector(1, -ldexp(w, -q))); }
            break; }
          case 1: { // unbounded slope on the box, finite value at the midpoint
            double w = ldexp(1.0, r.range(-1, 3)), K = r.range(1, 8);
            fac.add_ctr(1 / x <= K); box[0] = r.coin() ? Interval(0, w) : Interval(-w, 0);
            break; }
          case 2: { // g = c2*max(x,0) + c1*min(x,0) - k : slopes [c1,c2], c2 below the ulp of c1, wide box:
                    // the coefficient of the auxiliary variable must not be smaller than c2 - c1
            int e = r.range(6, 12); double c1 = -ldexp(1.0, e), c2 = ldexp(0.5 + r.range(30, 63) / 128.0, e - 52);
            int E = r.range(24, 30); double X = ldexp(2.0 - r.range(1, 64) / 1024.0, E - 1), u = ldexp(1.0, E - 53);
            double lo = -c1 * u * 1.5 + 2 * tol, hi = c2 * X;       // k in (d*u + tol, delta*X)
            double k = lo < hi ? lo + (hi - lo) * (r.range(1, 7) / 8.0) : hi / 2;
            fac.add_ctr(c2 * max(x, ExprConstant::new_scalar(0.0)) + c1 * min(x, ExprConstant::new_scalar(0.0)) - k <= 0);
            box[0] = Interval(-ldexp(1.0, E), ldexp(1.0, E));
            extra.push_back(Vector(1, X)); extra.push_back(Vector(1, std::nextafter(X, 0))); extra.push_back(Vector(1, X / 2));
            break; }
          default: { // a "linear" constraint whose coefficient is a thick interval (rounding): A*x + B*x - C*x - k
            double C = r.range(200, 2000), A = C + 0.1 * r.range(1, 9), B = 0.1 * r.range(1, 9);
            int E = r.range(18, 24); double X = ldexp(1.0, E);
            IntervalVector bx(1, Interval(-X, X));
            double gl; { Variable y; Function f(y, A * y + B * y - C * y); IntervalMatrix H(1, 1); f.hansen_matrix(bx, IntervalVector(1, Interval(0.0)), H); gl = H[0][0].lb(); }
            double k = gl * X + 2 * tol; k = std::nextafter(std::nextafter(k, INFINITY), INFINITY);
            fac.add_ctr(A * x + B * x - C * x - k <= 0);
            box = bx; extra.push_back(Vector(1, X)); extra.push_back(Vector(1, std::nextafter(X, 0)));
            break; }
        }
        System sys(fac); NormalizedSystem ns(sys);
        Vector planted(1, 0.0);
        run_dual(r, ns, box, planted, tol, extra);
      } else { fprintf(stderr, "unknown workload\n"); return 2; }
    } catch (VerifAbort& a) { string m = a.what(); for (auto& ch : m) if (ch == ' ') ch = '_'; EMIT("linabort %s %s => 0\n", wl.c_str(), m.c_str()); }
      catch (std::exception& e) { EMIT("harnesserror %s %s => 0\n", wl.c_str(), typeid(e).name()); }
  }
  fprintf(stderr, "emitted %ld\n", emitted);
  return 0;
}
