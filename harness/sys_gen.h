// generators of systems with exactly known solutions (shared by h_solver.cpp and h_newton.cpp)
#pragma once
#include "common.h"
#include "expr_io.h"
using namespace ibex; using namespace vh; using namespace std;

static string varset_tok(const VarSet& v) { string vs; for (int k = 0; k < v.nb_var; k++) { if (k) vs += "."; vs += to_string(v.var(k)); } return vs; }
static double dyadic(Rng& r) { return r.range(-16, 16) / 8.0; }

struct Problem { System* sys; string dags, specs; int n, m, k; vector<Vector> planted; };

// a system with planted solution(s): equations g_i(x)=g_i(p*), inequalities satisfied at p* with a margin
static bool make_problem(Rng& r, Problem& P) {
  int n = r.range(1, 3); int m = r.below(n + 1); int k = r.below(3); if (m + k == 0) k = 1;
  P.n = n; P.m = m; P.k = k;
  Vector p(n); for (int i = 0; i < n; i++) p[i] = dyadic(r);
  SystemFactory fac;
  Array<const ExprSymbol> x(n); for (int i = 0; i < n; i++) x.set_ref(i, ExprSymbol::new_(("x" + to_string(i)).c_str(), Dim::scalar()));
  IntervalVector box(n); for (int i = 0; i < n; i++) box[i] = Interval(p[i] - r.range(1, 16) / 8.0, p[i] + r.range(1, 16) / 8.0);
  fac.add_var(x, box);
  P.dags = ""; P.specs = "";
  for (int j = 0; j < m + k; j++) {
    GenCfg cfg; cfg.allow_vec = false; cfg.allow_apply = false; cfg.allow_div = r.coin(20); cfg.differentiable = (j < m) || r.coin(60); cfg.max_depth = r.range(1, 3);
    ExprGen g(r, cfg); for (int i = 0; i < n; i++) g.syms.push_back(&x[i]);
    // make sure equation j involves variable j (so that square systems are not trivially singular)
    const ExprNode& e0 = g.gen(1, 1, cfg.max_depth);
    const ExprNode& e = (j < m) ? (e0 + (double)r.range(1, 3) * x[j % n]) : e0;
    Array<const ExprSymbol> cp(n); for (int i = 0; i < n; i++) cp.set_ref(i, ExprSymbol::new_(x[i].name, Dim::scalar()));
    Function tmp(cp, ExprCopy().copy(x, cp, e), "t");
    Interval v = tmp.eval(IntervalVector(p));
    if (v.is_empty() || v.is_unbounded()) return false;
    CmpOp op; double cst; string spec;
    if (j < m) { if (!v.is_degenerated()) return false; op = EQ; cst = v.lb(); spec = "eq"; }
    else if (r.coin()) { op = LEQ; cst = v.ub() + r.range(1, 8) / 8.0; spec = "leq"; }
    else { op = GEQ; cst = v.lb() - r.range(1, 8) / 8.0; spec = "geq"; }
    const ExprNode& full = e - ExprConstant::new_scalar(cst);
    if (j) { P.dags += "|"; P.specs += "|"; }
    P.dags += dump_expr(full, x); P.specs += spec;
    fac.add_ctr(ExprCtr(full, op));
  }
  P.sys = new System(fac);
  P.planted.clear(); P.planted.push_back(p);
  return true;
}

// a square system with a SINGULAR solution p* (the solver can only leave 'unknown' boxes around it) and regular ones
static bool make_singular(Rng& r, Problem& P) {
  int n = r.range(1, 2); P.n = n; P.m = n; P.k = 0;
  Vector p(n); for (int i = 0; i < n; i++) p[i] = dyadic(r);
  SystemFactory fac;
  Array<const ExprSymbol> x(n); for (int i = 0; i < n; i++) x.set_ref(i, ExprSymbol::new_(("x" + to_string(i)).c_str(), Dim::scalar()));
  IntervalVector box(n); for (int i = 0; i < n; i++) box[i] = Interval(p[i] - r.range(1, 16) / 8.0, p[i] + r.range(8, 24) / 8.0);
  fac.add_var(x, box);
  P.dags = ""; P.specs = "";
  P.planted.clear(); P.planted.push_back(p);
  for (int j = 0; j < n; j++) {
    const ExprNode* e;
    double a = p[j], b = p[j] + r.range(1, 8) / 8.0;    // second (regular) root of equation 0
    if (j == 0) {
      switch (r.below(3)) {
        case 0: e = &(sqr(x[0] - a) * (x[0] - b)); { Vector q = p; q[0] = b; P.planted.push_back(q); } break;   // double root a, simple root b
        case 1: e = &(sqr(x[0] - a)); break;
        default: e = &(pow(x[0] - a, 3) + (n > 1 ? sqr(x[1] - p[1]) : sqr(x[0] - a))); }
    } else e = &((x[j] - p[j]) * (1.0 + sqr(x[0])));
    if (j) { P.dags += "|"; P.specs += "|"; }
    P.dags += dump_expr(*e, x); P.specs += "eq";
    fac.add_ctr(ExprCtr(*e, EQ));
  }
  P.sys = new System(fac);
  return true;
}

// a square system with SEVERAL regular solutions (all planted): (x0-a)(x0-b)[(x0-c)]=0, x_j = affine(x0)
static bool make_multi(Rng& r, Problem& P) {
  int n = r.range(1, 3); P.n = n; P.m = n; P.k = 0;
  int nr = r.range(2, 3);
  vector<double> roots; while ((int)roots.size() < nr) { double a = dyadic(r); bool dup = false; for (double b : roots) if (a == b) dup = true; if (!dup) roots.push_back(a); }
  SystemFactory fac;
  Array<const ExprSymbol> x(n); for (int i = 0; i < n; i++) x.set_ref(i, ExprSymbol::new_(("x" + to_string(i)).c_str(), Dim::scalar()));
  vector<double> ca(n, 0.0), cb(n, 0.0); for (int j = 1; j < n; j++) { ca[j] = r.range(-4, 4) / 2.0; cb[j] = dyadic(r); }
  IntervalVector box(n);
  box[0] = Interval(-2.0 - r.range(1, 16) / 8.0, 2.0 + r.range(1, 16) / 8.0);
  for (int j = 1; j < n; j++) box[j] = Interval(-12, 12);
  fac.add_var(x, box);
  P.dags = ""; P.specs = ""; P.planted.clear();
  for (double a : roots) { Vector p(n); p[0] = a; for (int j = 1; j < n; j++) p[j] = ca[j] * a + cb[j]; P.planted.push_back(p); }
  for (int j = 0; j < n; j++) {
    const ExprNode* e;
    if (j == 0) { e = &(x[0] - roots[0]); for (int k = 1; k < nr; k++) e = &(*e * (x[0] - roots[k])); if (r.coin(30)) e = &(*e * (1.0 + sqr(x[0]))); }
    else e = &(x[j] - ca[j] * x[0] - cb[j]);
    if (j) { P.dags += "|"; P.specs += "|"; }
    P.dags += dump_expr(*e, x); P.specs += "eq";
    fac.add_ctr(ExprCtr(*e, EQ));
  }
  P.sys = new System(fac);
  return true;
}

