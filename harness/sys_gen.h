// generators of systems with exactly known solutions (shared by h_solver.cpp and h_newton.cpp)
#pragma once
#include "common.h"
#include "expr_io.h"
using namespace ibex; using namespace vh; using namespace std;

static string varset_tok(const VarSet& v) { string vs; for (int k = 0; k < v.nb_var; k++) { if (k) vs += "."; vs += to_string(v.var(k)); } return vs; }
static double dyadic(Rng& r) { return r.range(-16, 16) / 8.0; }

static bool VECTOR_INEQS = false;
static bool STRICT_INEQS = false;   // (strict inequalities < and >)   // (set by the workloads that want vector-valued inequalities)
struct Problem { System* sys; string dags, specs; int n, m, k; vector<Vector> planted; };

// a system with planted solution(s): equations g_i(x)=g_i(p*), inequalities satisfied at p* with a margin
static bool make_problem(Rng& r, Problem& P) {
  int n = r.range(1, 3); int m = r.below(n + 1); int k = r.below(3); if (m + k == 0) k = 1;
  P.n = n; P.m = m; P.k = k;
  Vector p(n); for (int i = 0; i < n; i++) p[i] = dyadic(r);
  SystemFactory fac;
  Array<const ExprSymbol> x(n); for (int i = 0; i < n; i++) x.set_ref(i, ExprSymbol::new_(("x" + to_string(i)).c_str(), Dim::scalar()));
  IntervalVector box(n); for (int i = 0; i < n; i++) box[i] = Interval(p[i] - r.range(1, 16) / 8.0, p[i] + r.range(1, 16) / 8.0);
  fac.add_var(x, box);
  P.dags = ""; P.specs = "";
  for (int j = 0; j < m + k; j++) {
    GenCfg cfg; cfg.allow_vec = false; cfg.allow_apply = false; cfg.allow_div = r.coin(20); cfg.differentiable = (j < m) || r.coin(60); cfg.max_depth = r.range(1, 3);
    ExprGen g(r, cfg); for (int i = 0; i < n; i++) g.syms.push_back(&x[i]);
    // make sure equation j involves variable j (so that square systems are not trivially singular)
    const ExprNode& e0 = g.gen(1, 1, cfg.max_depth);
    const ExprNode& e = (j < m) ? (e0 + (double)r.range(1, 3) * x[j % n]) : e0;
    Array<const ExprSymbol> cp(n); for (int i = 0; i < n; i++) cp.set_ref(i, ExprSymbol::new_(x[i].name, Dim::scalar()));
    Function tmp(cp, ExprCopy().copy(x, cp, e), "t");
    Interval v = tmp.eval(IntervalVector(p));
    if (v.is_empty() || v.is_unbounded()) return false;
    CmpOp op; double cst; string spec;
    if (j < m) { if (!v.is_degenerated()) return false; op = EQ; cst = v.lb(); spec = "eq"; }
    else if (r.coin()) { bool strict = STRICT_INEQS && r.coin(35); op = strict ? LT : LEQ; cst = v.ub() + r.range(1, 8) / 8.0; spec = strict ? "lt" : "leq"; }
    else { bool strict = STRICT_INEQS && r.coin(35); op = strict ? GT : GEQ; cst = v.lb() - r.range(1, 8) / 8.0; spec = strict ? "gt" : "geq"; }
    const ExprNode* fullp = &(e - ExprConstant::new_scalar(cst));
    if (j >= m && VECTOR_INEQS && r.coin(35)) {
      // a vector-valued inequality: 2-3 components, the same comparison, each satisfied at p with a margin
      int nc = r.range(2, 3); Array<const ExprNode> comps(nc); bool okv = true; int pos = r.below(nc);
      for (int c = 0; c < nc && okv; c++) {
        if (c == pos) { comps.set_ref(c, *fullp); continue; }
        GenCfg cfg2 = cfg; cfg2.max_depth = r.range(1, 2); ExprGen g2(r, cfg2); for (int i = 0; i < n; i++) g2.syms.push_back(&x[i]);
        const ExprNode& ec = g2.gen(1, 1, cfg2.max_depth);
        Array<const ExprSymbol> cp2(n); for (int i = 0; i < n; i++) cp2.set_ref(i, ExprSymbol::new_(x[i].name, Dim::scalar()));
        Function tmp2(cp2, ExprCopy().copy(x, cp2, ec), "t2");
        Interval v2 = tmp2.eval(IntervalVector(p));
        if (v2.is_empty() || v2.is_unbounded()) { okv = false; break; }
        double c2 = (op == LEQ || op == LT) ? v2.ub() + r.range(1, 8) / 8.0 : v2.lb() - r.range(1, 8) / 8.0;
        comps.set_ref(c, ec - ExprConstant::new_scalar(c2));
      }
      if (!okv) return false;
      fullp = &ExprVector::new_col(comps);
    }
    const ExprNode& full = *fullp;
    if (j) { P.dags += "|"; P.specs += "|"; }
    P.dags += dump_expr(full, x); P.specs += spec;
    fac.add_ctr(ExprCtr(full, op));
  }
  P.sys = new System(fac);
  P.planted.clear(); P.planted.push_back(p);
  return true;
}

// a square system with a SINGULAR solution p* (the solver can only leave 'unknown' boxes around it) and regular ones
static bool make_singular(Rng& r, Problem& P) {
  int n = r.range(1, 2); P.n = n; P.m = n; P.k = 0;
  Vector p(n); for (int i = 0; i < n; i++) p[i] = dyadic(r);
  SystemFactory fac;
  Array<const ExprSymbol> x(n); for (int i = 0; i < n; i++) x.set_ref(i, ExprSymbol::new_(("x" + to_string(i)).c_str(), Dim::scalar()));
  IntervalVector box(n); for (int i = 0; i < n; i++) box[i] = Interval(p[i] - r.range(1, 16) / 8.0, p[i] + r.range(8, 24) / 8.0);
  fac.add_var(x, box);
  P.dags = ""; P.specs = "";
  P.planted.clear(); P.planted.push_back(p);
  for (int j = 0; j < n; j++) {
    const ExprNode* e;
    double a = p[j], b = p[j] + r.range(1, 8) / 8.0;    // second (regular) root of equation 0
    if (j == 0) {
      switch (r.below(3)) {
        case 0: e = &(sqr(x[0] - a) * (x[0] - b)); { Vector q = p; q[0] = b; P.planted.push_back(q); } break;   // double root a, simple root b
        case 1: e = &(sqr(x[0] - a)); break;
        default: e = &(pow(x[0] - a, 3) + (n > 1 ? sqr(x[1] - p[1]) : sqr(x[0] - a))); }
    } else e = &((x[j] - p[j]) * (1.0 + sqr(x[0])));
    if (j) { P.dags += "|"; P.specs += "|"; }
    P.dags += dump_expr(*e, x); P.specs += "eq";
    fac.add_ctr(ExprCtr(*e, EQ));
  }
  P.sys = new System(fac);
  return true;
}

// a square system with SEVERAL regular solutions (all planted): (x0-a)(x0-b)[(x0-c)]=0, x_j = affine(x0)
static bool make_multi(Rng& r, Problem& P) {
  int n = r.range(1, 3); P.n = n; P.m = n; P.k = 0;
  int nr = r.range(2, 3);
  vector<double> roots; while ((int)roots.size() < nr) { double a = dyadic(r); bool dup = false; for (double b : roots) if (a == b) dup = true; if (!dup) roots.push_back(a); }
  SystemFactory fac;
  Array<const ExprSymbol> x(n); for (int i = 0; i < n; i++) x.set_ref(i, ExprSymbol::new_(("x" + to_string(i)).c_str(), Dim::scalar()));
  vector<double> ca(n, 0.0), cb(n, 0.0); for (int j = 1; j < n; j++) { ca[j] = r.range(-4, 4) / 2.0; cb[j] = dyadic(r); }
  IntervalVector box(n);
  box[0] = Interval(-2.0 - r.range(1, 16) / 8.0, 2.0 + r.range(1, 16) / 8.0);
  for (int j = 1; j < n; j++) box[j] = Interval(-12, 12);
  fac.add_var(x, box);
  P.dags = ""; P.specs = ""; P.planted.clear();
  for (double a : roots) { Vector p(n); p[0] = a; for (int j = 1; j < n; j++) p[j] = ca[j] * a + cb[j]; P.planted.push_back(p); }
  for (int j = 0; j < n; j++) {
    const ExprNode* e;
    if (j == 0) { e = &(x[0] - roots[0]); for (int k = 1; k < nr; k++) e = &(*e * (x[0] - roots[k])); if (r.coin(30)) e = &(*e * (1.0 + sqr(x[0]))); }
    else e = &(x[j] - ca[j] * x[0] - cb[j]);
    if (j) { P.dags += "|"; P.specs += "|"; }
    P.dags += dump_expr(*e, x); P.specs += "eq";
    fac.add_ctr(ExprCtr(*e, EQ));
  }
  P.sys = new System(fac);
  return true;
}

// a square system whose first equation has a POLE between two exactly known zeros: (x0-a) - c/(x0-q) = 0 with zeros r1 < q < r2
// (a = r1+r2-q, c = (q-r1)(r2-q) > 0: the derivative 1 + c/(x0-q)^2 is positive wherever it is defined, so that its enclosure
// over a box containing the pole is "regular" but unbounded: the mean value theorem does not hold across the pole);
// the other equations are affine in x0.  All the numbers are dyadic: the zeros are exact.
static bool make_pole(Rng& r, Problem& P) {
  int n = r.range(1, 2); P.n = n; P.m = n; P.k = 0;
  double r1 = r.range(-16, 8) / 8.0, q = r1 + r.range(1, 8) / 8.0, r2 = q + r.range(1, 8) / 8.0;
  if (r.coin(30)) { q = r1 + 1.0 / 1024; }          // a zero very close to the pole (the other one far away)
  double a = r1 + r2 - q, c = (q - r1) * (r2 - q);
  SystemFactory fac;
  Array<const ExprSymbol> x(n); for (int i = 0; i < n; i++) x.set_ref(i, ExprSymbol::new_(("x" + to_string(i)).c_str(), Dim::scalar()));
  vector<double> ca(n, 0.0), cb(n, 0.0); for (int j = 1; j < n; j++) { ca[j] = r.range(-4, 4) / 2.0; cb[j] = dyadic(r); }
  IntervalVector box(n);
  box[0] = Interval(r1 - r.range(1, 16) / 8.0, r2 + r.range(1, 16) / 8.0);
  for (int j = 1; j < n; j++) box[j] = Interval(-16, 16);
  fac.add_var(x, box);
  P.dags = ""; P.specs = ""; P.planted.clear();
  for (double z : {r1, r2}) { Vector p(n); p[0] = z; for (int j = 1; j < n; j++) p[j] = ca[j] * z + cb[j]; P.planted.push_back(p); }
  for (int j = 0; j < n; j++) {
    const ExprNode* e;
    if (j == 0) { switch (r.below(3)) {
        case 0: e = &((x[0] - a) - c / (x[0] - q)); break;
        case 1: e = &(c / (q - x[0]) + (x[0] - a)); break;
        default: e = &((x[0] - a) - c * pow(x[0] - q, -1)); } }
    else e = &(x[j] - ca[j] * x[0] - cb[j]);
    if (j) { P.dags += "|"; P.specs += "|"; }
    P.dags += dump_expr(*e, x); P.specs += "eq";
    fac.add_ctr(ExprCtr(*e, EQ));
  }
  P.sys = new System(fac);
  return true;
}

// a square system with a QUOTIENT whose numerator is linear in x0 and whose denominator does not depend on x0 but is not
// constant: x0/(x1-a) = b, x0 + c*x1 = d (root (p0,p1) planted, dyadic, p1-a a power of two so that the quotient is exact);
// variants put the quotient inside a sum / use the second variable in the numerator as well
static bool make_quot(Rng& r, Problem& P) {
  int n = 2; P.n = n; P.m = n; P.k = 0;
  double p1 = dyadic(r), den = std::ldexp(1.0, (int)r.range(-1, 2)) * (r.coin() ? 1 : -1), a = p1 - den;
  double p0 = dyadic(r) * 2; if (p0 == 0) p0 = 1.5;
  double b = p0 / den, c = r.range(1, 4) / 2.0 * (r.coin() ? 1 : -1), d = p0 + c * p1;
  SystemFactory fac;
  Array<const ExprSymbol> x(n); for (int i = 0; i < n; i++) x.set_ref(i, ExprSymbol::new_(("x" + to_string(i)).c_str(), Dim::scalar()));
  IntervalVector box(n);
  box[0] = Interval(p0 - r.range(1, 16) / 8.0, p0 + r.range(1, 16) / 8.0);
  // the denominator keeps its sign on the box
  double w = std::fabs(den) / 2; box[1] = Interval(p1 - w * r.range(1, 4) / 4.0, p1 + w * r.range(1, 8) / 4.0);
  if (den < 0) box[1] = Interval(p1 - w * r.range(1, 8) / 4.0, p1 + w * r.range(1, 4) / 4.0);
  fac.add_var(x, box);
  const ExprNode* e1; int kind = r.below(3);
  if (kind == 0) e1 = &(x[0] / (x[1] - a) - b);
  else if (kind == 1) e1 = &(b - (2.0 * x[0] + x[1]) / (x[1] - a) + (p0 + p1) / den);        // (2x0+x1)/(x1-a) = (2p0+p1)/den at the root
  else e1 = &((x[0] / (x[1] - a) - b) * 2.0);
  if (kind == 1) { Interval v = Interval(2.0) * p0 + p1; (void)v; }
  const ExprNode& e2 = x[0] + c * x[1] - d;
  P.dags = dump_expr(*e1, x) + "|" + dump_expr(e2, x); P.specs = "eq|eq";
  fac.add_ctr(ExprCtr(*e1, EQ)); fac.add_ctr(ExprCtr(e2, EQ));
  P.sys = new System(fac);
  P.planted.clear(); Vector p(n); p[0] = p0; p[1] = p1; P.planted.push_back(p);
  // the planted point must be an exact zero (checked with the library's own evaluation at the point)
  IntervalVector pv(p); Interval v1 = P.sys->f_ctrs[0].eval(pv), v2 = P.sys->f_ctrs[1].eval(pv);
  if (!(v1.is_degenerated() && v1.lb() == 0 && v2.is_degenerated() && v2.lb() == 0)) { delete P.sys; return false; }
  return true;
}

// a square system whose first equation is only defined on a part of the box: sqrt(x0-a) - b = 0 (zero a+b^2, exact), the box
// reaching far below a, so that the midpoint of the box (and of many sub-boxes) lies outside the domain of definition
static bool make_domain(Rng& r, Problem& P) {
  int n = r.range(1, 2); P.n = n; P.m = n; P.k = 0;
  double a = dyadic(r), b = r.range(1, 8) / 4.0, z = a + b * b;
  SystemFactory fac;
  Array<const ExprSymbol> x(n); for (int i = 0; i < n; i++) x.set_ref(i, ExprSymbol::new_(("x" + to_string(i)).c_str(), Dim::scalar()));
  vector<double> ca(n, 0.0), cb(n, 0.0); for (int j = 1; j < n; j++) { ca[j] = r.range(-4, 4) / 2.0; cb[j] = dyadic(r); }
  IntervalVector box(n);
  box[0] = Interval(a - r.range(8, 64) / 8.0, z + r.range(1, 8) / 8.0);
  for (int j = 1; j < n; j++) box[j] = Interval(-40, 40);
  fac.add_var(x, box);
  P.dags = ""; P.specs = ""; P.planted.clear();
  { Vector p(n); p[0] = z; for (int j = 1; j < n; j++) p[j] = ca[j] * z + cb[j]; P.planted.push_back(p); }
  for (int j = 0; j < n; j++) {
    const ExprNode* e;
    if (j == 0) e = r.coin() ? &(sqrt(x[0] - a) - b) : &(b - sqrt(x[0] - a));
    else e = &(x[j] - ca[j] * x[0] - cb[j]);
    if (j) { P.dags += "|"; P.specs += "|"; }
    P.dags += dump_expr(*e, x); P.specs += "eq";
    fac.add_ctr(ExprCtr(*e, EQ));
  }
  P.sys = new System(fac);
  return true;
}


// inequalities (and possibly an equation) that are exactly ACTIVE at the planted point p, a corner of the box:
// the feasible set is the single point p, a face through p, or a segment
static bool make_touch(Rng& r, Problem& P) {
  int n = r.range(1, 3); P.n = n;
  Vector p(n); for (int i = 0; i < n; i++) p[i] = r.range(-8, 8) / 4.0;
  SystemFactory fac;
  Array<const ExprSymbol> x(n); for (int i = 0; i < n; i++) x.set_ref(i, ExprSymbol::new_(("x" + to_string(i)).c_str(), Dim::scalar()));
  IntervalVector box(n); vector<double> s(n);
  for (int i = 0; i < n; i++) { double a = r.range(1, 8) / 4.0; if (r.coin()) { box[i] = Interval(p[i] - a, p[i]); s[i] = 1; } else { box[i] = Interval(p[i], p[i] + a); s[i] = -1; } }
  fac.add_var(x, box);
  P.dags = ""; P.specs = ""; P.planted.clear(); P.planted.push_back(p);
  vector<const ExprNode*> es; vector<CmpOp> ops; vector<string> specs;
  int type = r.below(n >= 2 ? 4 : 3);
  switch (type) {
    case 0: { // corner: sum s_i x_i >= sum s_i p_i
      const ExprNode* e = &(s[0] * x[0]); double c = s[0] * p[0]; for (int i = 1; i < n; i++) { e = &(*e + s[i] * x[i]); c += s[i] * p[i]; }
      es.push_back(&(*e - c)); ops.push_back(GEQ); specs.push_back("geq"); break; }
    case 1: { // face: s_0 x_0 >= s_0 p_0   (written the other way round half of the time)
      if (r.coin()) { es.push_back(&(s[0] * x[0] - s[0] * p[0])); ops.push_back(GEQ); specs.push_back("geq"); }
      else { es.push_back(&(s[0] * p[0] - s[0] * x[0])); ops.push_back(LEQ); specs.push_back("leq"); }
      break; }
    case 2: { // a disc touching the face x_0 = p_0 at p
      double rad = r.range(1, 4) / 2.0;
      const ExprNode* e = &sqr(x[0] - (p[0] - s[0] * rad)); for (int i = 1; i < n; i++) e = &(*e + sqr(x[i] - p[i]));
      es.push_back(&(*e - rad * rad)); ops.push_back(LEQ); specs.push_back("leq");
      es.push_back(&(s[0] * x[0] - s[0] * p[0])); ops.push_back(GEQ); specs.push_back("geq"); break; }
    default: { // an equation x_0 - x_1 = p_0 - p_1 and the corner inequality
      es.push_back(&(x[0] - x[1] - (p[0] - p[1]))); ops.push_back(EQ); specs.push_back("eq");
      es.push_back(&(s[0] * x[0] + s[1] * x[1] - (s[0] * p[0] + s[1] * p[1]))); ops.push_back(GEQ); specs.push_back("geq"); break; }
  }
  P.m = 0; P.k = 0;
  for (size_t j = 0; j < es.size(); j++) {
    if (j) { P.dags += "|"; P.specs += "|"; }
    P.dags += dump_expr(*es[j], x); P.specs += specs[j];
    fac.add_ctr(ExprCtr(*es[j], ops[j]));
    if (ops[j] == EQ) P.m++; else P.k++;
  }
  P.sys = new System(fac);
  return true;
}

// under-constrained, two non-parameter variables coupled by a product: x0*x1 - a*x2 = 0, x0 - b*x1 = 0 (x2 is the natural parameter);
// for x>0 exactly one solution per parameter value, several of them known exactly
static bool make_param(Rng& r, Problem& P) {
  int n = 3; P.n = n; P.m = 2; P.k = 0;
  static const double AS[] = {1, 0.5, 2, 4}, BS[] = {1, 2, 0.5}, TS[] = {1, 1.5, 2, 3, 0.75};
  double a = AS[r.below(4)], b = BS[r.below(3)];
  SystemFactory fac;
  Array<const ExprSymbol> x(n); for (int i = 0; i < n; i++) x.set_ref(i, ExprSymbol::new_(("x" + to_string(i)).c_str(), Dim::scalar()));
  P.planted.clear(); double pmin = 1e9, pmax = -1e9, xmax = 0;
  for (int k = 0; k < 5; k++) { double t = TS[k]; Vector q(3); q[1] = t; q[0] = b * t; q[2] = b * t * t / a; P.planted.push_back(q); pmin = std::min(pmin, q[2]); pmax = std::max(pmax, q[2]); xmax = std::max(xmax, std::max(q[0], q[1])); }
  IntervalVector box(n); box[0] = Interval(0.25, xmax + r.range(1, 8) / 4.0); box[1] = Interval(0.25, xmax + r.range(1, 8) / 4.0);
  box[2] = r.coin() ? Interval(pmin, pmax) : Interval(pmin / 2, pmax * 1.5);
  fac.add_var(x, box);
  const ExprNode& e1 = r.coin() ? (x[0] * x[1] - a * x[2]) : (a * x[2] - x[1] * x[0]);
  const ExprNode& e2 = x[0] - b * x[1];
  P.dags = dump_expr(e1, x) + "|" + dump_expr(e2, x); P.specs = "eq|eq";
  fac.add_ctr(ExprCtr(e1, EQ)); fac.add_ctr(ExprCtr(e2, EQ));
  P.sys = new System(fac);
  return true;
}
