// C09: interval Newton (contracting and inflating), Hansen feasibility test.
//   newtonctc <dags> <vars> <box> <known zeros> => <contracted box> <returned flag> <variant>
//        contracting Newton on the variables `vars` (the other coordinates are parameters): no known zero of the box may be removed
//   newtoninfl <dags> <vars> <start box> <known zeros> => <0|1> <existence box> <unicity box>
//        success: for every parameter value of the existence box exactly one zero in it, no other in the unicity box
//   hansenfeas <dags> <box> <inflating> <known zeros> => <YES|NO|MAYBE> <solution box>
//        YES: the solution box contains a zero of the system
#include "sys_gen.h"

static long emitted = 0;
#define EMIT(...) do { printf(__VA_ARGS__); emitted++; } while (0)

static string pts_tok(const vector<Vector>& v) { if (v.empty()) return "-"; string s; for (size_t k = 0; k < v.size(); k++) { if (k) s += "|"; s += ptok(v[k]); } return s; }
static string eq_dags(const Problem& P) {   // the DAGs of the m equations (they come first)
  string s; size_t pos = 0; int cnt = 0; string d = P.dags;
  vector<string> parts; size_t a = 0; while (true) { size_t b = d.find('|', a); parts.push_back(d.substr(a, b == string::npos ? string::npos : b - a)); if (b == string::npos) break; a = b + 1; }
  for (int j = 0; j < P.m; j++) { if (j) s += "|"; s += parts[j]; }
  (void)pos; (void)cnt; return s;
}

// a box around the point p (or away from it), radii from a wide range
static IntervalVector box_around(Rng& r, const Vector& p, const IntervalVector& dom, int style) {
  int n = p.size(); IntervalVector b(n);
  for (int i = 0; i < n; i++) {
    double rl, ru;
    switch (style) {
      case 0: rl = r.range(1, 32) / 256.0; ru = r.range(1, 32) / 256.0; break;           // small
      case 1: rl = r.range(1, 16) / 16.0; ru = r.range(1, 16) / 16.0; break;             // medium
      case 2: rl = r.range(1, 6) * 0.5; ru = r.range(1, 6) * 0.5; break;                 // large (several zeros)
      case 3: rl = r.coin() ? 0 : r.range(1, 16) / 64.0; ru = (rl == 0 && r.coin(20)) ? r.range(1, 16) / 64.0 : (r.coin() ? 0 : r.range(1, 16) / 64.0); break;   // zero on the boundary
      default: rl = std::ldexp(1.0, -(int)r.range(8, 30)); ru = std::ldexp(1.0, -(int)r.range(8, 30)); }
    b[i] = Interval(p[i] - rl, p[i] + ru);
  }
  if (style == 5) { int i = r.below(n); double s = r.range(1, 8) / 8.0; b[i] = Interval(p[i] + s, p[i] + s + r.range(1, 8) / 8.0); }   // (unused index) away from the zero
  return b;
}

// a system WITHOUT zero: sum of squares + positive constant + tiny dependence on the other variables
static bool make_nozero(Rng& r, Problem& P) {
  int n = r.range(1, 3); int m = r.range(1, n); P.n = n; P.m = m; P.k = 0;
  Vector p(n); for (int i = 0; i < n; i++) p[i] = dyadic(r);
  SystemFactory fac;
  Array<const ExprSymbol> x(n); for (int i = 0; i < n; i++) x.set_ref(i, ExprSymbol::new_(("x" + to_string(i)).c_str(), Dim::scalar()));
  IntervalVector box(n); for (int i = 0; i < n; i++) box[i] = Interval(p[i] - 2, p[i] + 2);
  fac.add_var(x, box);
  P.dags = ""; P.specs = ""; P.planted.clear();
  for (int j = 0; j < m; j++) {
    const ExprNode* e = &(sqr(x[j] - p[j]) + std::ldexp(1.0, -(int)r.range(2, 8)));
    for (int i = 0; i < n; i++) if (i != j && r.coin(60)) e = &(*e + std::ldexp(1.0, -(int)r.range(10, 14)) * sqr(x[i]));
    if (j > 0) e = (j == 1 && r.coin()) ? &(x[j] - p[j] + 0.0 * x[0]) : e;    // (a regular equation next to the infeasible one)
    if (j) { P.dags += "|"; P.specs += "|"; }
    P.dags += dump_expr(*e, x); P.specs += "eq";
    fac.add_ctr(ExprCtr(*e, EQ));
  }
  P.sys = new System(fac);
  P.planted.push_back(p);      // NOT a zero: only used to place boxes
  return true;
}

static string vars_tok(const VarSet& v) { return varset_tok(v); }
static string all_vars(int n) { string all; for (int k = 0; k < n; k++) { if (k) all += "."; all += to_string(k); } return all; }

int main(int argc, char** argv) {
  string wl = argc > 1 ? argv[1] : "c09";
  uint64_t seed = argc > 2 ? strtoull(argv[2], 0, 10) : 1;
  long count = argc > 3 ? atol(argv[3]) : 50;
  Rng r(seed * 40503 + 7);
  if (wl != "c09") { fprintf(stderr, "unknown workload\n"); return 2; }
  for (long it = 0; it < count; it++) {
    try {
      Problem P; bool nozero = false;
      int fam = r.below(100);
      bool ok;
      if (fam < 38) ok = make_problem(r, P);
      else if (fam < 62) ok = make_multi(r, P);
      else if (fam < 74) ok = make_singular(r, P);
      else if (fam < 82) ok = make_param(r, P);
      else { ok = make_nozero(r, P); nozero = true; }
      if (!ok) continue;
      if (P.m == 0) { delete P.sys; continue; }
      System& sys = *P.sys; int n = P.n, m = P.m;
      // the equations only
      System eqs(sys, System::EQ_ONLY);
      const Function& f = eqs.f_ctrs;
      string dags = eq_dags(P);
      vector<Vector> zeros = nozero ? vector<Vector>() : P.planted;
      string zt = pts_tok(zeros);
      const Vector& c = P.planted[r.below(P.planted.size())];
      for (int rep = 0; rep < 6; rep++) {
        int style = r.below(5);
        IntervalVector box = box_around(r, c, sys.box, style);
        if (r.coin(15)) box = sys.box;
        if (r.coin(10)) { int i = r.below(n); double s = r.range(1, 8) / 8.0; box[i] = Interval(c[i] + s, c[i] + s + r.range(1, 8) / 8.0); }   // away from the zero
        double prec = r.coin() ? 1e-7 : (r.coin() ? 1e-3 : 0.0625), ratio = r.coin() ? 1e-4 : (r.coin() ? 0.5 : 0.01);
        // ---- the variables: all (square) or chosen by the library / at random (under-constrained)
        VarSet* vs = 0; string vt = all_vars(n);
        if (m < n) {
          try {
            if (r.coin(60)) vs = new VarSet(get_newton_vars(f, box.mid(), BitSet::empty(n)));
            else { BitSet b = BitSet::empty(n); while (b.size() < m) b.add(r.below(n)); vs = new VarSet(n, b); }
          } catch (SingularMatrixException&) { continue; }
          vt = vars_tok(*vs);
        }
        // ---- contracting Newton
        {
          IntervalVector b2 = box; bool ret; const char* variant;
          if (r.coin()) { variant = "newton"; ret = vs ? newton(f, *vs, b2, prec, ratio) : newton(f, b2, prec, ratio); }
          else { variant = "ctcnewton"; double ceil = r.coin(70) ? 5e8 : 0.5;
                 if (vs) { CtcNewton cn(f, *vs, ceil, prec, ratio); cn.contract(b2); } else { CtcNewton cn(f, ceil, prec, ratio); cn.contract(b2); } ret = b2 != box; }
          check_round_up("newton");
          EMIT("newtonctc %s %s %s %s => %s %d %s\n", dags.c_str(), vt.c_str(), tok(box).c_str(), zt.c_str(), tok(b2).c_str(), ret ? 1 : 0, variant);
        }
        // ---- inflating Newton
        {
          IntervalVector start = r.coin(40) ? IntervalVector(box.mid()) : box;
          if (vs && start.is_flat() && r.coin()) { start = box; }
          if (vs) { // parameters keep their range, variables possibly a point
            IntervalVector s2 = box; for (int k = 0; k < vs->nb_var; k++) s2[vs->var(k)] = start[vs->var(k)]; start = s2; }
          IntervalVector ex(n), un(n);
          bool ret = vs ? inflating_newton(f, *vs, start, ex, un) : inflating_newton(f, start, ex, un);
          check_round_up("inflating_newton");
          EMIT("newtoninfl %s %s %s %s => %d %s %s\n", dags.c_str(), vt.c_str(), tok(start).c_str(), zt.c_str(), ret ? 1 : 0, tok(ex).c_str(), tok(un).c_str());
        }
        // ---- Hansen feasibility test
        if (m <= n) {
          bool infl = r.coin();
          Function fcopy(f);
          PdcHansenFeasibility pdc(fcopy, infl);
          BoolInterval res = pdc.test(box);
          check_round_up("hansen");
          EMIT("hansenfeas %s %s %d %s => %s %s\n", dags.c_str(), tok(box).c_str(), infl ? 1 : 0, zt.c_str(),
               res == YES ? "YES" : (res == NO ? "NO" : "MAYBE"), res == YES ? tok(pdc.solution()).c_str() : "-");
        }
        if (vs) delete vs;
      }
      delete P.sys;
    } catch (VerifAbort& a) { string msg = a.what(); for (auto& ch : msg) if (ch == ' ' || ch == '\n') ch = '_'; EMIT("harnesserror c09 abort:%s => 0\n", msg.c_str()); }
      catch (std::exception& e) { EMIT("harnesserror c09 %s => 0\n", typeid(e).name()); }
  }
  fprintf(stderr, "emitted %ld\n", emitted);
  return 0;
}
