// C09: interval Newton (contracting and inflating), Hansen feasibility test.
//   newtonctc <dags> <vars> <box> <known zeros> => <contracted box> <returned flag> <variant>
//        contracting Newton on the variables `vars` (the other coordinates are parameters): no known zero of the box may be removed
//   newtoninfl <dags> <vars> <start box> <known zeros> => <0|1> <existence box> <unicity box>
//        success: for every parameter value of the existence box exactly one zero in it, no other in the unicity box
//   hansenfeas <dags> <box> <inflating> <known zeros> => <YES|NO|MAYBE> <solution box>
//        YES: the solution box contains a zero of the system
#include "sys_gen.h"

static long emitted = 0;
#define EMIT(...) do { printf(__VA_ARGS__); emitted++; } while (0)

static string pts_tok(const vector<Vector>& v) { if (v.empty()) return "-"; string s; for (size_t k = 0; k < v.size(); k++) { if (k) s += "|"; s += ptok(v[k]); } return s; }
static string eq_dags(const Problem& P) {   // the DAGs of the m equations (they come first)
  string s; size_t pos = 0; int cnt = 0; string d = P.dags;
  vector<string> parts; size_t a = 0; while (true) { size_t b = d.find('|', a); parts.push_back(d.substr(a, b == string::npos ? string::npos : b - a)); if (b == string::npos) break; a = b + 1; }
  for (int j = 0; j < P.m; j++) { if (j) s += "|"; s += parts[j]; }
  (void)pos; (void)cnt; return s;
}

// a box around the point p (or away from it), radii from a wide range
static IntervalVector box_around(Rng& r, const Vector& p, const IntervalVector& dom, int style) {
  int n = p.size(); IntervalVector b(n);
  for (int i = 0; i < n; i++) {
    double rl, ru;
    switch (style) {
      case 0: rl = r.range(1, 32) / 256.0; ru = r.range(1, 32) / 256.0; break;           // small
      case 1: rl = r.range(1, 16) / 16.0; ru = r.range(1, 16) / 16.0; break;             // medium
      case 2: rl = r.range(1, 6) * 0.5; ru = r.range(1, 6) * 0.5; break;                 // large (several zeros)
      case 3: rl = r.coin() ? 0 : r.range(1, 16) / 64.0; ru = (rl == 0 && r.coin(20)) ? r.range(1, 16) / 64.0 : (r.coin() ? 0 : r.range(1, 16) / 64.0); break;   // zero on the boundary
      default: rl = std::ldexp(1.0, -(int)r.range(8, 30)); ru = std::ldexp(1.0, -(int)r.range(8, 30)); }
    b[i] = Interval(p[i] - rl, p[i] + ru);
  }
  if (style == 5) { int i = r.below(n); double s = r.range(1, 8) / 8.0; b[i] = Interval(p[i] + s, p[i] + s + r.range(1, 8) / 8.0); }   // (unused index) away from the zero
  return b;
}

// a system WITHOUT zero: sum of squares + positive constant + tiny dependence on the other variables
static bool make_nozero(Rng& r, Problem& P) {
  int n = r.range(1, 3); int m = r.range(1, n); P.n = n; P.m = m; P.k = 0;
  Vector p(n); for (int i = 0; i < n; i++) p[i] = dyadic(r);
  SystemFactory fac;
  Array<const ExprSymbol> x(n); for (int i = 0; i < n; i++) x.set_ref(i, ExprSymbol::new_(("x" + to_string(i)).c_str(), Dim::scalar()));
  IntervalVector box(n); for (int i = 0; i < n; i++) box[i] = Interval(p[i] - 2, p[i] + 2);
  fac.add_var(x, box);
  P.dags = ""; P.specs = ""; P.planted.clear();
  for (int j = 0; j < m; j++) {
    const ExprNode* e = &(sqr(x[j] - p[j]) + std::ldexp(1.0, -(int)r.range(2, 8)));
    for (int i = 0; i < n; i++) if (i != j && r.coin(60)) e = &(*e + std::ldexp(1.0, -(int)r.range(10, 14)) * sqr(x[i]));
    if (j > 0) e = (j == 1 && r.coin()) ? &(x[j] - p[j] + 0.0 * x[0]) : e;    // (a regular equation next to the infeasible one)
    if (j) { P.dags += "|"; P.specs += "|"; }
    P.dags += dump_expr(*e, x); P.specs += "eq";
    fac.add_ctr(ExprCtr(*e, EQ));
  }
  P.sys = new System(fac);
  P.planted.push_back(p);      // NOT a zero: only used to place boxes
  return true;
}

static string vars_tok(const VarSet& v) { return varset_tok(v); }
static string all_vars(int n) { string all; for (int k = 0; k < n; k++) { if (k) all += "."; all += to_string(k); } return all; }

// ---------------------------------------------------------------------------------------------------
// LoupFinderCertify (rigor mode of the optimizer): a box returned as certified must contain a point that satisfies the
// equalities EXACTLY and every inequality, with goal <= the returned value.
//   certify <goal dag> <ctr dags |> <specs |> <declared box> <search box> <known zeros of the equalities> <finder mode> => FOUND <box> <loup> | NOTFOUND - -
// Systems: x0 is a root of a polynomial with 2-3 known dyadic roots, the other variables are affine in x0 (all zeros known
// exactly); inequalities cut some of the zeros off; constraints are declared as scalars or grouped into vector-valued
// constraints in every order (component index >= number of constraints for the trailing ones).
struct FakeFinder : public LoupFinder {
  bool have; Vector pt; double val;
  FakeFinder() : have(false), pt(1), val(0) {}
  std::pair<IntervalVector, double> find(const IntervalVector&, const IntervalVector&, double) { if (!have) throw NotFound(); return std::make_pair(IntervalVector(pt), val); }
};

static void wl_certify(Rng& r, long count) {
  for (long it = 0; it < count; it++) {
    try {
      int n = r.range(2, 3); int nr = r.range(2, 3);
      vector<double> roots; while ((int)roots.size() < nr) { double a = dyadic(r); bool dup = false; for (double b : roots) if (a == b) dup = true; if (!dup) roots.push_back(a); }
      Array<const ExprSymbol> x(n); for (int i = 0; i < n; i++) x.set_ref(i, ExprSymbol::new_(("x" + to_string(i)).c_str(), Dim::scalar()));
      vector<double> ca(n, 0.0), cb(n, 0.0); for (int j = 1; j < n; j++) { ca[j] = r.range(-4, 4) / 2.0; cb[j] = dyadic(r); }
      IntervalVector box(n); box[0] = Interval(-2.0 - r.range(1, 16) / 8.0, 2.0 + r.range(1, 16) / 8.0); for (int j = 1; j < n; j++) box[j] = Interval(-12, 12);
      vector<Vector> zeros; for (double a : roots) { Vector p(n); p[0] = a; for (int j = 1; j < n; j++) p[j] = ca[j] * a + cb[j]; zeros.push_back(p); }
      // scalar constraints
      vector<const ExprNode*> es; vector<CmpOp> ops;
      int m = r.coin(75) ? n : n - 1;           // (m = n-1: the last affine relation is dropped, the zeros form curves)
      for (int j = 0; j < m; j++) {
        const ExprNode* e;
        if (j == 0) { e = &(x[0] - roots[0]); for (int k = 1; k < nr; k++) e = &(*e * (x[0] - roots[k])); }
        else e = &(x[j] - ca[j] * x[0] - cb[j]);
        if (r.coin(30)) e = &(std::ldexp(1.0, -(int)r.range(3, 6)) * *e);      // a small gradient (the row is a candidate for being dropped by a pivoting strategy)
        es.push_back(e); ops.push_back(EQ);
      }
      int k = r.range(1, 3);
      for (int j = 0; j < k; j++) {
        const ExprNode* g;
        if (r.coin(35)) g = &(x[r.below(n)] + (double)r.range(40, 60));                                   // redundant: always satisfied
        else { // separates the zeros: s*(x_i - t) >= 0 with t strictly between the values of two zeros (or beyond all of them)
          int i = r.below(n); vector<double> v; for (auto& z : zeros) v.push_back(z[i]); std::sort(v.begin(), v.end());
          double t; int pos = r.below((int)v.size() + 1);
          if (pos == 0) t = v[0] - 0.5; else if (pos == (int)v.size()) t = v.back() + 0.5; else t = (v[pos - 1] + v[pos]) / 2;
          if (r.coin(15)) t = v[r.below(v.size())];                                                     // active at a zero
          g = r.coin() ? &(x[i] - t) : &(t - x[i]);
          if (r.coin(25)) g = &(*g * (1.0 + sqr(x[(i + 1) % n])));                                      // (non-linear variant, same sign)
        }
        es.push_back(g); ops.push_back(GEQ);
      }
      // declaration: groups (equalities / inequalities) in a random order, each group scalar by scalar or as one vector
      SystemFactory fac; fac.add_var(x, box);
      const ExprNode* goal = 0; for (int i = 0; i < n; i++) { double c = r.range(-4, 4) / 2.0; if (c == 0 && i == 0) c = 1; const ExprNode& t = c * x[i]; goal = goal ? &(*goal + t) : &t; }
      fac.add_goal(*goal);
      bool eq_first = r.coin(); bool vec_eq = m > 1 && r.coin(50), vec_in = k > 1 && r.coin(70);
      string dags, specs; vector<int> order;
      for (int pass = 0; pass < 2; pass++) {
        bool eqs_now = (pass == 0) == eq_first; int lo = eqs_now ? 0 : m, hi = eqs_now ? m : m + k; bool vec = eqs_now ? vec_eq : vec_in;
        if (vec) { Array<const ExprNode> comps(hi - lo); for (int j = lo; j < hi; j++) comps.set_ref(j - lo, *es[j]); fac.add_ctr(ExprCtr(ExprVector::new_col(comps), ops[lo])); }
        else for (int j = lo; j < hi; j++) fac.add_ctr(ExprCtr(*es[j], ops[j]));
        for (int j = lo; j < hi; j++) order.push_back(j);
      }
      for (size_t q = 0; q < order.size(); q++) { if (q) { dags += "|"; specs += "|"; } dags += dump_expr(*es[order[q]], x); specs += ops[order[q]] == EQ ? "eq" : "geq"; }
      System sys(fac);
      string goal_dag = dump_fun(*sys.goal);
      string zt = pts_tok(zeros);
      FakeFinder ff; LoupFinderCertify cert(sys, ff);
      for (int rep = 0; rep < 8; rep++) {
        const Vector& z = zeros[r.below(zeros.size())];
        Vector c = z; if (m < n && r.coin()) c[n - 1] += r.range(-8, 8) / 4.0;    // (another point of the curve of zeros)
        IntervalVector sb(n); int style = r.below(3);
        for (int i = 0; i < n; i++) { double rl = style == 0 ? std::ldexp(1.0, -(int)r.range(6, 20)) : r.range(1, 16) / 64.0, ru = style == 0 ? std::ldexp(1.0, -(int)r.range(6, 20)) : r.range(1, 16) / 64.0; sb[i] = Interval(c[i] - rl, c[i] + ru); }
        int mode = r.below(3);     // 0: the inner finder fails (the midpoint of the box is used); 1: it returns a point close to the zero; 2: the zero itself
        if (r.coin(22)) {          // 3: a VERTEX of the domain (as LP-based finders return): bounds are active together with the constraints
          mode = 3; c = Vector(n);
          for (int i = 0; i < n; i++) { double w = r.range(1, 16) / 8.0; if (r.coin()) { c[i] = box[i].lb(); sb[i] = Interval(c[i], c[i] + w); } else { c[i] = box[i].ub(); sb[i] = Interval(c[i] - w, c[i]); } }
        }
        ff.have = mode != 0;
        if (ff.have) { ff.pt = c; if (mode == 1) for (int i = 0; i < n; i++) ff.pt[i] += std::ldexp(1.0, -(int)r.range(28, 40)) * (r.coin() ? 1 : -1); Interval gv = sys.goal->eval(IntervalVector(ff.pt)); ff.val = gv.ub(); }
        string res = "NOTFOUND - -";
        try { std::pair<IntervalVector, double> p = cert.find(sb, IntervalVector(n), POS_INFINITY); res = "FOUND " + tok(p.first) + " " + hex(p.second); }
        catch (LoupFinder::NotFound&) { }
        check_round_up("certify");
        EMIT("certify %s %s %s %s %s %s %d => %s\n", goal_dag.c_str(), dags.c_str(), specs.c_str(), tok(box).c_str(), tok(sb).c_str(), zt.c_str(), mode, res.c_str());
      }
    } catch (VerifAbort& a) { string msg = a.what(); for (auto& ch : msg) if (ch == ' ' || ch == '\n') ch = '_'; EMIT("harnesserror certify abort:%s => 0\n", msg.c_str()); }
      catch (std::exception& e) { EMIT("harnesserror certify %s => 0\n", typeid(e).name()); }
  }
}

int main(int argc, char** argv) {
  string wl = argc > 1 ? argv[1] : "c09";
  uint64_t seed = argc > 2 ? strtoull(argv[2], 0, 10) : 1;
  long count = argc > 3 ? atol(argv[3]) : 50;
  Rng r(seed * 40503 + 7);
  if (wl == "certify") { std::ostringstream sink; std::streambuf* old = std::cerr.rdbuf(sink.rdbuf()); wl_certify(r, count); std::cerr.rdbuf(old); fprintf(stderr, "emitted %ld\n", emitted); return 0; }
  if (wl != "c09") { fprintf(stderr, "unknown workload\n"); return 2; }
  for (long it = 0; it < count; it++) {
    try {
      Problem P; bool nozero = false, wide = false;
      int fam = r.below(118);
      bool ok;
      if (fam >= 112) ok = make_quot(r, P);                           // quotient with a non-constant denominator independent of the variable
      else if (fam >= 106) { ok = make_domain(r, P); wide = true; }      // restricted domain of definition (midpoints outside the domain)
      else if (fam >= 100) { ok = make_pole(r, P); wide = true; }   // a pole between two zeros
      else if (fam < 38) ok = make_problem(r, P);
      else if (fam < 62) ok = make_multi(r, P);
      else if (fam < 74) ok = make_singular(r, P);
      else if (fam < 82) ok = make_param(r, P);
      else { ok = make_nozero(r, P); nozero = true; }
      if (!ok) continue;
      if (P.m == 0) { delete P.sys; continue; }
      System& sys = *P.sys; int n = P.n, m = P.m;
      // the equations only
      System eqs(sys, System::EQ_ONLY);
      const Function& f = eqs.f_ctrs;
      string dags = eq_dags(P);
      vector<Vector> zeros = nozero ? vector<Vector>() : P.planted;
      string zt = pts_tok(zeros);
      const Vector& c = P.planted[r.below(P.planted.size())];
      for (int rep = 0; rep < 6; rep++) {
        int style = r.below(5);
        IntervalVector box = box_around(r, c, sys.box, style);
        if (r.coin(wide ? 60 : 15)) box = sys.box;
        if (r.coin(10)) { int i = r.below(n); double s = r.range(1, 8) / 8.0; box[i] = Interval(c[i] + s, c[i] + s + r.range(1, 8) / 8.0); }   // away from the zero
        double prec = r.coin() ? 1e-7 : (r.coin() ? 1e-3 : 0.0625), ratio = r.coin() ? 1e-4 : (r.coin() ? 0.5 : 0.01);
        // ---- the variables: all (square) or chosen by the library / at random (under-constrained)
        VarSet* vs = 0; string vt = all_vars(n);
        if (m < n) {
          try {
            if (r.coin(60)) vs = new VarSet(get_newton_vars(f, box.mid(), BitSet::empty(n)));
            else { BitSet b = BitSet::empty(n); while (b.size() < m) b.add(r.below(n)); vs = new VarSet(n, b); }
          } catch (SingularMatrixException&) { continue; }
          vt = vars_tok(*vs);
        }
        // ---- contracting Newton
        {
          IntervalVector b2 = box; bool ret; const char* variant;
          if (r.coin()) { variant = "newton"; ret = vs ? newton(f, *vs, b2, prec, ratio) : newton(f, b2, prec, ratio); }
          else { variant = "ctcnewton"; double ceil = r.coin(70) ? 5e8 : 0.5;
                 if (vs) { CtcNewton cn(f, *vs, ceil, prec, ratio); cn.contract(b2); } else { CtcNewton cn(f, ceil, prec, ratio); cn.contract(b2); } ret = b2 != box; }
          check_round_up("newton");
          EMIT("newtonctc %s %s %s %s => %s %d %s\n", dags.c_str(), vt.c_str(), tok(box).c_str(), zt.c_str(), tok(b2).c_str(), ret ? 1 : 0, variant);
        }
        // ---- inflating Newton
        {
          IntervalVector start = r.coin(40) ? IntervalVector(box.mid()) : box;
          if (vs && start.is_flat() && r.coin()) { start = box; }
          if (vs) { // parameters keep their range, variables possibly a point
            IntervalVector s2 = box; for (int k = 0; k < vs->nb_var; k++) s2[vs->var(k)] = start[vs->var(k)]; start = s2; }
          IntervalVector ex(n), un(n);
          bool ret = vs ? inflating_newton(f, *vs, start, ex, un) : inflating_newton(f, start, ex, un);
          check_round_up("inflating_newton");
          EMIT("newtoninfl %s %s %s %s => %d %s %s\n", dags.c_str(), vt.c_str(), tok(start).c_str(), zt.c_str(), ret ? 1 : 0, tok(ex).c_str(), tok(un).c_str());
        }
        // ---- Hansen feasibility test
        if (m <= n) {
          bool infl = r.coin();
          Function fcopy(f);
          PdcHansenFeasibility pdc(fcopy, infl);
          BoolInterval res = pdc.test(box);
          check_round_up("hansen");
          EMIT("hansenfeas %s %s %d %s => %s %s\n", dags.c_str(), tok(box).c_str(), infl ? 1 : 0, zt.c_str(),
               res == YES ? "YES" : (res == NO ? "NO" : "MAYBE"), res == YES ? tok(pdc.solution()).c_str() : "-");
        }
        if (vs) delete vs;
      }
      delete P.sys;
    } catch (VerifAbort& a) { string msg = a.what(); for (auto& ch : msg) if (ch == ' ' || ch == '\n') ch = '_'; EMIT("harnesserror c09 abort:%s => 0\n", msg.c_str()); }
      catch (std::exception& e) { EMIT("harnesserror c09 %s => 0\n", typeid(e).name()); }
  }
  fprintf(stderr, "emitted %ld\n", emitted);
  return 0;
}
