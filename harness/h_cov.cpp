// Workloads for C18 (first half): the COV file format.
//   h_cov save    <seed> <count> [full] [dir]   random objects of every class: save, bytes, reload, cross-class loads
//   h_cov corrupt <seed> <count> [full] [dir]   small objects: truncations, single-field corruptions, byte flips
// Scratch files are written to <dir> (default: <directory of the binary>/runs). Every load runs in a forked
// child (a crash of the reader is reported as "crash <signal>", not as a crash of the harness).
//
// Lines:  covsave <kind> <tag> <hex of the file> <dump of the object built> => ok <dump reloaded> | error <msg> | crash <sig>
//         covload <kind> <tag> <hex of the file> => ok <dump of the object loaded> | error <msg> | crash <sig>
// tag = <z|p><digits>-<what>[.<field label>@<offset>[=<value>]]  (z: the base object has no box, p: at least one box)
#include "common.h"
#include <fstream>
#include <iostream>
#include <unistd.h>
#include <fcntl.h>
#include <signal.h>
#include <sys/wait.h>
#include <sys/resource.h>
#include <sys/stat.h>
using namespace ibex; using namespace vh; using namespace std;

typedef vector<unsigned char> Bytes;
enum Kind { K_COV, K_LIST, K_IU, K_IBU, K_MAN, K_SOL, K_OPT, K_NB };
static const char* KNAME[] = {"cov", "list", "iu", "ibu", "man", "sol", "opt"};

static long emitted = 0;
static string g_file;

// ------------------------------------------------------------------ printing
static string rawhex(double d) { char b[20]; snprintf(b, sizeof b, "%016llx", (unsigned long long)bits(d)); return b; }
static string hexbytes(const Bytes& v) {
  if (v.empty()) return "-";
  static const char* H = "0123456789abcdef"; string s; s.reserve(2 * v.size());
  for (unsigned char c : v) { s += H[c >> 4]; s += H[c & 15]; } return s;
}
static string join(const vector<string>& v, const char* sep, const char* empty = "-") {
  if (v.empty()) return empty; string s; for (size_t i = 0; i < v.size(); i++) { if (i) s += sep; s += v[i]; } return s;
}
static string d_itv(const Interval& x) { return rawhex(x.lb()) + ":" + rawhex(x.ub()); }
static string d_box(const IntervalVector& b) {
  vector<string> v; for (int i = 0; i < b.size(); i++) v.push_back(d_itv(b[i])); return join(v, ",", "_");
}
static string d_name(const string& s) {
  if (s.empty()) return "~"; string o; char b[4];
  for (unsigned char c : s) { snprintf(b, sizeof b, "%02x", c); o += b; } return o;
}
// index of the box `ref` (a reference returned by an accessor such as inner(j)) in the list
#include <unordered_map>
static const CovList* g_idx_of = 0; static unordered_map<const IntervalVector*, int> g_idx;
static int index_of(const CovList& c, const IntervalVector& ref) {
  if (g_idx_of != &c || g_idx.size() != c.size()) { g_idx.clear(); for (size_t i = 0; i < c.size(); i++) g_idx[&c[i]] = (int)i; g_idx_of = &c; }
  auto it = g_idx.find(&ref); return it == g_idx.end() ? -1 : it->second;
}
static string d_idx(const vector<int>& v) { vector<string> s; for (int i : v) s.push_back(to_string(i)); return join(s, ","); }
static string d_varset(const VarSet& vs) { vector<string> s; for (int i = 0; i < vs.nb_param; i++) s.push_back(to_string(vs.param(i))); return join(s, "."); }

// ------------------------------------------------------------------ dump of an object through its API
static void dump_cov(const Cov& c, vector<string>& t) { t.push_back("n=" + to_string(c.n)); }
static void dump_list(const CovList& c, vector<string>& t) {
  t.push_back("sz=" + to_string(c.size()));
  vector<string> b; for (size_t i = 0; i < c.size(); i++) b.push_back(d_box(c[i]));
  t.push_back("bx=" + join(b, "|"));
}
static void dump_iu(const CovIUList& c, vector<string>& t) {
  string st; for (size_t i = 0; i < c.size(); i++) st += c.CovIUList::status(i) == CovIUList::INNER ? 'I' : 'U';
  vector<int> in, un;
  for (size_t j = 0; j < c.CovIUList::nb_inner(); j++) in.push_back(index_of(c, c.CovIUList::inner(j)));
  for (size_t j = 0; j < c.CovIUList::nb_unknown(); j++) un.push_back(index_of(c, c.CovIUList::unknown(j)));
  t.push_back("iu=" + (st.empty() ? string("-") : st) + ";" + d_idx(in) + ";" + d_idx(un));
}
static void dump_ibu(const CovIBUList& c, vector<string>& t) {
  t.push_back("ibt=" + to_string((int)c.CovIBUList::boundary_type()));
  string st;
  for (size_t i = 0; i < c.size(); i++) { CovIBUList::BoxStatus s = c.CovIBUList::status(i); st += s == CovIBUList::INNER ? 'I' : s == CovIBUList::BOUNDARY ? 'B' : 'U'; }
  vector<int> bd, un;
  for (size_t j = 0; j < c.CovIBUList::nb_boundary(); j++) bd.push_back(index_of(c, c.CovIBUList::boundary(j)));
  for (size_t j = 0; j < c.CovIBUList::nb_unknown(); j++) un.push_back(index_of(c, c.CovIBUList::unknown(j)));
  t.push_back("ibu=" + (st.empty() ? string("-") : st) + ";" + d_idx(bd) + ";" + d_idx(un));
}
static void dump_man(const CovManifold& c, vector<string>& t) {
  size_t m = c.nb_eq();
  t.push_back("m=" + to_string(m)); t.push_back("q=" + to_string(c.nb_ineq())); t.push_back("mbt=" + to_string((int)c.CovManifold::boundary_type()));
  string st;
  for (size_t i = 0; i < c.size(); i++) { CovManifold::BoxStatus s = c.CovManifold::status(i); st += s == CovManifold::SOLUTION ? 'S' : s == CovManifold::BOUNDARY ? 'B' : 'U'; }
  vector<int> so, bd, un;
  for (size_t j = 0; j < c.CovManifold::nb_solution(); j++) so.push_back(index_of(c, c.CovManifold::solution(j)));
  for (size_t j = 0; j < c.CovManifold::nb_boundary(); j++) bd.push_back(index_of(c, c.CovManifold::boundary(j)));
  for (size_t j = 0; j < c.CovManifold::nb_unknown(); j++) un.push_back(index_of(c, c.CovManifold::unknown(j)));
  t.push_back("man=" + (st.empty() ? string("-") : st) + ";" + d_idx(so) + ";" + d_idx(bd) + ";" + d_idx(un));
  vector<string> sols, bnds;
  if (m > 0) for (size_t j = 0; j < c.CovManifold::nb_solution(); j++)
    sols.push_back(to_string(so[j]) + "/" + (m < c.n ? d_varset(c.solution_varset(j)) : string("-")) + "/" + d_box(c.unicity(j)));
  for (size_t j = 0; j < c.CovManifold::nb_boundary(); j++)
    bnds.push_back(to_string(bd[j]) + "/" + (m > 0 && m < c.n ? d_varset(c.boundary_varset(j)) : string("-")));
  t.push_back("sol=" + join(sols, "|")); t.push_back("bnd=" + join(bnds, "|"));
}
static void dump_sol(const CovSolverData& c, vector<string>& t) {
  vector<string> nm; const vector<string>& names = const_cast<CovSolverData&>(c).var_names();
  for (const string& s : names) nm.push_back(d_name(s));
  t.push_back("nm=" + join(nm, ",")); t.push_back("st=" + to_string(c.solver_status()));
  t.push_back("t=" + rawhex(c.time())); t.push_back("c=" + to_string(c.nb_cells()));
  string st;
  for (size_t i = 0; i < c.size(); i++) { CovSolverData::BoxStatus s = c.CovSolverData::status(i);
    st += s == CovSolverData::SOLUTION ? 'S' : s == CovSolverData::BOUNDARY ? 'B' : s == CovSolverData::PENDING ? 'P' : 'U'; }
  vector<int> pe, un;
  for (size_t j = 0; j < c.nb_pending(); j++) pe.push_back(index_of(c, c.pending(j)));
  for (size_t j = 0; j < c.CovSolverData::nb_unknown(); j++) un.push_back(index_of(c, c.CovSolverData::unknown(j)));
  t.push_back("slv=" + (st.empty() ? string("-") : st) + ";" + d_idx(pe) + ";" + d_idx(un));
}
static void dump_opt(const CovOptimData& c, vector<string>& t) {
  vector<string> nm; for (const string& s : c.var_names()) nm.push_back(d_name(s));
  t.push_back("nm=" + join(nm, ",")); t.push_back("st=" + to_string(c.optimizer_status()));
  t.push_back(string("ext=") + (c.is_extended_space() ? "1" : "0"));
  t.push_back("uplo=" + rawhex(c.uplo())); t.push_back("ueps=" + rawhex(c.uplo_of_epsboxes())); t.push_back("loup=" + rawhex(c.loup()));
  const IntervalVector& lp = c.loup_point();
  vector<string> v; for (int i = 0; i < lp.size(); i++) v.push_back(d_itv(lp[i]));
  t.push_back("lp=" + join(v, ","));
  t.push_back("t=" + rawhex(c.time())); t.push_back("c=" + to_string(c.nb_cells()));
}
struct BigList {};
static string dump_obj(int kind, const Cov& c) {
  g_idx_of = 0;
  if (kind >= K_LIST && static_cast<const CovList&>(c).size() > 20000) throw BigList();   // only reachable with corrupted counts
  vector<string> t; dump_cov(c, t);
  if (kind >= K_LIST) dump_list(static_cast<const CovList&>(c), t);
  if (kind >= K_IU && kind <= K_SOL) dump_iu(static_cast<const CovIUList&>(c), t);
  if (kind >= K_IBU && kind <= K_SOL) dump_ibu(static_cast<const CovIBUList&>(c), t);
  if (kind >= K_MAN && kind <= K_SOL) dump_man(static_cast<const CovManifold&>(c), t);
  if (kind == K_SOL) dump_sol(static_cast<const CovSolverData&>(c), t);
  if (kind == K_OPT) dump_opt(static_cast<const CovOptimData&>(c), t);
  return join(t, " ");
}
static string dump_file(int kind, const char* fn) {
  switch (kind) {
    case K_COV: { Cov c(fn); return dump_obj(kind, c); }
    case K_LIST: { CovList c(fn); return dump_obj(kind, c); }
    case K_IU: { CovIUList c(fn); return dump_obj(kind, c); }
    case K_IBU: { CovIBUList c(fn); return dump_obj(kind, c); }
    case K_MAN: { CovManifold c(fn); return dump_obj(kind, c); }
    case K_SOL: { CovSolverData c(fn); return dump_obj(kind, c); }
    default: { CovOptimData c(fn); return dump_obj(kind, c); }
  }
}
static void save_obj(int kind, const Cov& c, const char* fn) {
  switch (kind) {
    case K_COV: c.save(fn); break;
    case K_LIST: static_cast<const CovList&>(c).save(fn); break;
    case K_IU: static_cast<const CovIUList&>(c).save(fn); break;
    case K_IBU: static_cast<const CovIBUList&>(c).save(fn); break;
    case K_MAN: static_cast<const CovManifold&>(c).save(fn); break;
    case K_SOL: static_cast<const CovSolverData&>(c).save(fn); break;
    default: static_cast<const CovOptimData&>(c).save(fn);
  }
}

// ------------------------------------------------------------------ files, isolated loads
static Bytes slurp(const string& fn) { ifstream f(fn.c_str(), ios::binary); return Bytes((istreambuf_iterator<char>(f)), istreambuf_iterator<char>()); }
static void spit(const string& fn, const Bytes& b) { ofstream f(fn.c_str(), ios::binary | ios::trunc); if (!b.empty()) f.write((const char*)&b[0], b.size()); f.close(); }
static string slug(const char* w) {
  string s; for (const char* p = w; *p && s.size() < 70; p++) { char c = *p; s += (isalnum((unsigned char)c) ? c : '_'); }
  return s.empty() ? string("_") : s;
}
static void full_write(int fd, const string& s) { size_t o = 0; while (o < s.size()) { ssize_t k = write(fd, s.data() + o, s.size() - o); if (k <= 0) break; o += k; } }

// result of `CovXxx(filename)` + dump, computed in a child process
static string load_isolated(int kind, const string& fn) {
  int p[2]; if (pipe(p) != 0) { perror("pipe"); exit(3); }
  fflush(stdout); fflush(stderr);
  pid_t pid = fork();
  if (pid < 0) { perror("fork"); exit(3); }
  if (pid == 0) {
    close(p[0]);
    int nul = open("/dev/null", O_WRONLY); if (nul >= 0) { dup2(nul, 1); dup2(nul, 2); }
    struct rlimit rl; rl.rlim_cur = rl.rlim_max = (rlim_t)256 * 1024 * 1024; setrlimit(RLIMIT_AS, &rl);
    rl.rlim_cur = rl.rlim_max = 20; setrlimit(RLIMIT_CPU, &rl);
    rl.rlim_cur = rl.rlim_max = 0; setrlimit(RLIMIT_CORE, &rl);
    string res;
    try { res = "ok " + dump_file(kind, fn.c_str()); }
    catch (ibex::VerifAbort& e) { res = string("error ") + slug(e.what()); }
    catch (std::bad_alloc&) { res = "error resource_bad_alloc"; }
    catch (BigList&) { res = "error resource_big_list"; }
    catch (std::exception& e) { res = string("error std_exception_") + slug(e.what()); }
    catch (...) { res = "error other_exception"; }
    full_write(p[1], res); close(p[1]);
    VH_EXIT(0);
  }
  close(p[1]);
  string out; char buf[4096]; ssize_t k;
  while ((k = read(p[0], buf, sizeof buf)) > 0) out.append(buf, k);
  close(p[0]);
  int status = 0; waitpid(pid, &status, 0);
  if (WIFSIGNALED(status)) return "crash signal" + to_string(WTERMSIG(status));
  if (!WIFEXITED(status) || WEXITSTATUS(status) != 0) return "crash exit" + to_string(WEXITSTATUS(status));
  if (out.empty()) return "crash noresult";
  return out;
}

// ------------------------------------------------------------------ random contents through the API
static double special_double(Rng& r) {
  static const double S[] = {0.0, -0.0, 1.0, -1.0, DBL_MAX, -DBL_MAX, DBL_MIN, 4.9406564584124654e-324, 1e300, -1e300, 0.1, 3.0};
  return S[r.below(sizeof S / sizeof S[0])];
}
static Interval gen_itv(Rng& r) {
  switch (r.below(12)) {
    case 0: return Interval::all_reals();
    case 1: return Interval(NEG_INFINITY, special_double(r));
    case 2: return Interval(special_double(r), POS_INFINITY);
    case 3: { double a = special_double(r); return Interval(a, a); }                 // degenerate
    case 4: return Interval(-0.0, 0.0);
    case 5: return Interval(-0.0, -0.0);
    case 6: return Interval(-DBL_MAX, DBL_MAX);
    case 7: { double a = special_double(r), b = special_double(r); if (a > b) std::swap(a, b); return Interval(a, b); }
    default: { Interval x; do { x = rand_itv(r, 0); } while (x.is_empty()); return x; }
  }
}
static IntervalVector gen_box(Rng& r, int n, int pct_empty = 2) {
  IntervalVector b(n);
  for (int i = 0; i < n; i++) b[i] = gen_itv(r);
  if ((int)r.below(100) < pct_empty) { if (r.coin()) b.set_empty(); else b[r.below(n)] = Interval::empty_set(); }
  return b;
}
static string gen_name(Rng& r) {
  switch (r.below(8)) {
    case 0: return "";
    case 1: return "x";
    case 2: return "x[" + to_string(r.below(20)) + "]";
    case 3: { string s; int k = 1 + r.below(12); for (int i = 0; i < k; i++) s += (char)(1 + r.below(255)); return s; } // any non-NUL byte
    default: { string s; int k = 1 + r.below(6); for (int i = 0; i < k; i++) s += (char)('a' + r.below(26)); return s + to_string(r.below(10)); }
  }
}
static double gen_scalar(Rng& r) {
  switch (r.below(8)) {
    case 0: return POS_INFINITY; case 1: return NEG_INFINITY; case 2: return -1; case 3: return 0;
    case 4: return frombits(0x7ff8000000000000ULL | (r.next() & 0xffff));   // a NaN with a payload
    case 5: return -0.0;
    default: return rand_double(r);
  }
}
static int gen_count(Rng& r, bool small) {
  int c = r.below(100);
  if (c < 15) return 0;
  if (small) return 1 + r.below(4);
  if (c < 85) return 1 + r.below(7);
  return 10 + r.below(50);
}
static VarSet gen_varset(Rng& r, int n, int m) {   // n-m parameters among n
  BitSet b(BitSet::empty(n)); int need = n - m;
  while (b.size() < need) b.add((int)r.below(n));
  return VarSet(n, b, false);
}

// access to the protected data of CovOptimData (no public setter exists; the optimizer is a friend)
class OptAccess : public CovOptimData {
public:
  OptAccess(size_t n, bool ext) : CovOptimData(n, ext) {}
  void set(const vector<string>& names, unsigned int status, double uplo, double ueps, double loup, const IntervalVector& lp, double time, unsigned long cells) {
    CovOptimData::Data* d = this->CovOptimData::data;
    d->_optim_var_names = names; d->_optim_optimizer_status = status; d->_optim_uplo = uplo; d->_optim_uplo_of_epsboxes = ueps;
    d->_optim_loup = loup; d->_optim_loup_point = lp; d->_optim_time = time; d->_optim_nb_cells = cells;
  }
};

// rich: every kind of entry present (0<m<n, solutions with varsets, boundary, unknown, pending boxes; loup point)
static Cov* build(int kind, Rng& r, bool small, int force_count = -1, bool rich = false) {
  int n = small ? 1 + r.below(3) : 1 + r.below(5);
  int cnt = force_count >= 0 ? force_count : gen_count(r, small);
  if (rich) { n = 2 + r.below(2); cnt = 4 + r.below(3); }
  switch (kind) {
    case K_COV: return new Cov(n);
    case K_LIST: { CovList* c = new CovList(n); for (int i = 0; i < cnt; i++) c->add(gen_box(r, n)); return c; }
    case K_IU: { CovIUList* c = new CovIUList(n);
      for (int i = 0; i < cnt; i++) { IntervalVector b = gen_box(r, n); switch (rich ? i % 3 : (int)r.below(3)) { case 0: c->add_inner(b); break; case 1: c->add_unknown(b); break; default: c->add(b); } }
      return c; }
    case K_IBU: { CovIBUList* c = new CovIBUList(n, r.coin() ? CovIBUList::INNER_PT : CovIBUList::INNER_AND_OUTER_PT);
      for (int i = 0; i < cnt; i++) { IntervalVector b = gen_box(r, n); switch (rich ? i % 3 : (int)r.below(3)) { case 0: c->add_inner(b); break; case 1: c->add_boundary(b); break; default: c->add_unknown(b); } }
      return c; }
    case K_MAN: case K_SOL: {
      int m = rich ? 1 + r.below(n - 1) : r.below(n + 1); int q = r.below(4);
      CovManifold::BoundaryType bt = (CovManifold::BoundaryType)r.below(3);
      CovManifold* c; CovSolverData* s = 0;
      if (kind == K_MAN) c = new CovManifold(n, m, q, bt);
      else { vector<string> names; for (int i = 0; i < n; i++) names.push_back(gen_name(r)); c = s = new CovSolverData(n, m, q, bt, names); }
      for (int i = 0; i < cnt; i++) {
        IntervalVector b = gen_box(r, n);
        int op = rich ? i % (kind == K_SOL ? 4 : 3) : (int)r.below(kind == K_SOL ? 4 : 3);
        if (op == 0) {           // certified box: inner (m=0) or solution (m>0)
          if (m == 0) c->add_inner(b);
          else { IntervalVector u = r.coin(30) ? b : gen_box(r, n);
                 if (m < n) c->add_solution(b, u, gen_varset(r, n, m)); else if (r.coin()) c->add_solution(b, u); else c->add_solution(b); }
        } else if (op == 1) {    // boundary
          if (m > 0 && m < n) c->add_boundary(b, gen_varset(r, n, m)); else c->add_boundary(b);
        } else if (op == 2) { if (r.coin()) c->add_unknown(b); else c->add(b); }
        else s->add_pending(b);
      }
      if (s) { s->set_solver_status(r.below(6)); s->set_time(r.coin(20) ? -1.0 : gen_scalar(r)); s->set_nb_cells(r.coin(20) ? 0xFFFFFFFFUL : (unsigned long)r.below(1000000)); }
      return c; }
    default: {
      bool ext = rich || r.coin(40); if (ext) n += 1;   // extended space: n >= 2
      OptAccess* c = new OptAccess(n, ext);
      for (int i = 0; i < cnt; i++) c->add(gen_box(r, n, i == 0 ? 0 : 2));
      int nbvar = ext ? n - 1 : n;
      IntervalVector lp = IntervalVector::empty(nbvar);
      if (cnt > 0 && (rich || r.coin(65))) lp = (*c)[0].subvector(0, nbvar - 1);   // by convention the first box is the loup point
      vector<string> names; for (int i = 0; i < n; i++) names.push_back(r.coin() ? string("") : gen_name(r));
      c->set(names, r.below(6), gen_scalar(r), gen_scalar(r), gen_scalar(r), lp, r.coin(20) ? -1.0 : gen_scalar(r), r.coin(20) ? 0xFFFFFFFFUL : (unsigned long)r.below(1000000));
      return c; }
  }
}
static void destroy(int kind, Cov* c) {
  switch (kind) {
    case K_COV: delete c; break;
    case K_LIST: delete static_cast<CovList*>(c); break;
    case K_IU: delete static_cast<CovIUList*>(c); break;
    case K_IBU: delete static_cast<CovIBUList*>(c); break;
    case K_MAN: delete static_cast<CovManifold*>(c); break;
    case K_SOL: delete static_cast<CovSolverData*>(c); break;
    default: delete static_cast<OptAccess*>(c);
  }
}

// ------------------------------------------------------------------ layout of a file (for field corruptions)
struct Field { size_t off; int width; char type; const char* label; };   // type: 'u' u32, 'd' double, 's' string byte
// labels: lvl id ver n sz bx | ni ii | ibt nb bi | m q mbt ns si vs un nbb mbi | nm st t c np pi | ext uplo ueps loup lf
static vector<Field> layout(int kind, const Cov& c0, size_t file_size) {
  vector<Field> L; size_t off = 20;
  auto U = [&](const char* lab, int k = 1) { for (int i = 0; i < k; i++) { L.push_back({off, 4, 'u', lab}); off += 4; } };
  auto D = [&](const char* lab, int k = 1) { for (int i = 0; i < k; i++) { L.push_back({off, 8, 'd', lab}); off += 8; } };
  auto S = [&](const vector<string>& names) { for (const string& s : names) for (size_t i = 0; i <= s.size(); i++) { L.push_back({off, 1, 's', "nm"}); off += 1; } };
  int level = kind == K_OPT ? 2 : kind;
  U("lvl"); U("id", level + 1); U("ver", level + 1);
  size_t n = c0.n; U("n");
  if (kind >= K_LIST) { const CovList& c = static_cast<const CovList&>(c0); U("sz"); D("bx", 2 * n * c.size()); }
  if (kind >= K_IU && kind <= K_SOL) { const CovIUList& c = static_cast<const CovIUList&>(c0); U("ni"); U("ii", c.CovIUList::nb_inner()); }
  if (kind >= K_IBU && kind <= K_SOL) { const CovIBUList& c = static_cast<const CovIBUList&>(c0); U("ibt"); U("nb"); U("bi", c.CovIBUList::nb_boundary()); }
  if (kind >= K_MAN && kind <= K_SOL) { const CovManifold& c = static_cast<const CovManifold&>(c0); size_t m = c.nb_eq();
    U("m"); U("q"); U("mbt");
    if (m > 0) { U("ns"); for (size_t j = 0; j < c.CovManifold::nb_solution(); j++) { U("si"); if (m < n) U("vs", n - m); D("un", 2 * n); } }
    U("nbb"); for (size_t j = 0; j < c.CovManifold::nb_boundary(); j++) { U("mbi"); if (m > 0 && m < n) U("vs", n - m); } }
  if (kind == K_SOL) { CovSolverData& c = const_cast<CovSolverData&>(static_cast<const CovSolverData&>(c0)); S(c.var_names()); U("st"); D("t"); U("c"); U("np"); U("pi", c.nb_pending()); }
  if (kind == K_OPT) { const CovOptimData& c = static_cast<const CovOptimData&>(c0); S(c.var_names()); U("st"); U("ext"); D("uplo"); D("ueps"); D("loup"); U("lf"); D("t"); U("c"); }
  if (off != file_size) { fprintf(stderr, "h_cov: layout mismatch for kind %s: computed %zu, file has %zu bytes\n", KNAME[kind], off, file_size); exit(4); }
  return L;
}
static const char* label_at(const vector<Field>& L, size_t off) {
  if (off < 20) return "sig";
  for (const Field& f : L) if (off >= f.off && off < f.off + (size_t)f.width) return f.label;
  return "end";
}
static uint32_t get32(const Bytes& b, size_t o) { uint32_t x; memcpy(&x, &b[o], 4); return x; }
static void put32(Bytes& b, size_t o, uint32_t x) { memcpy(&b[o], &x, 4); }
static uint64_t get64(const Bytes& b, size_t o) { uint64_t x; memcpy(&x, &b[o], 8); return x; }
static void put64(Bytes& b, size_t o, uint64_t x) { memcpy(&b[o], &x, 8); }

static void emit_load(int kind, const string& tag, const Bytes& b) {
  spit(g_file, b);
  struct timespec t0, t1; clock_gettime(CLOCK_MONOTONIC, &t0);
  string res = load_isolated(kind, g_file);
  clock_gettime(CLOCK_MONOTONIC, &t1);
  double dt = (t1.tv_sec - t0.tv_sec) + 1e-9 * (t1.tv_nsec - t0.tv_nsec);
  if (dt > 0.1 && getenv("H_COV_SLOW")) fprintf(stderr, "slow %.2fs %s %s => %s\n", dt, KNAME[kind], tag.c_str(), res.substr(0, 60).c_str());
  printf("covload %s %s %s => %s\n", KNAME[kind], tag.c_str(), hexbytes(b).c_str(), res.c_str()); emitted++;
}

// ------------------------------------------------------------------ workloads
static bool reads(int reader, int saved) {   // does it make sense to load a file of class `saved` with constructor `reader`
  (void)reader; (void)saved; return true;   // every combination is allowed by the format ("common prefix" reading)
}
static void wl_save(Rng& r, long count, bool full) {
  for (long it = 0; it < count; it++) {
    int kind = it % K_NB;
    Cov* c = build(kind, r, false, it < 2 * K_NB ? (it < K_NB ? 0 : 1) : -1);   // first rounds: no box, one box
    save_obj(kind, *c, g_file.c_str());
    Bytes b = slurp(g_file);
    string built = dump_obj(kind, *c);
    size_t sz = kind >= K_LIST ? static_cast<CovList*>(c)->size() : 0;
    string base = string(sz == 0 ? "z" : "p") + to_string(it);
    string res = load_isolated(kind, g_file);
    printf("covsave %s %s %s %s => %s\n", KNAME[kind], (base + "-save").c_str(), hexbytes(b).c_str(), built.c_str(), res.c_str()); emitted++;
    // the same valid file through the constructor of every other class
    for (int rd = 0; rd < K_NB; rd++) if (rd != kind && reads(rd, kind) && (full || it < 3 * K_NB || r.coin(35)))
      emit_load(rd, base + "-x" + KNAME[kind], b);
    // a valid file followed by trailing bytes
    if (full || r.coin(25)) { Bytes t = b; int k = 1 + r.below(9); for (int i = 0; i < k; i++) t.push_back((unsigned char)r.below(256)); emit_load(kind, base + "-trail", t); }
    destroy(kind, c);
    check_round_up("c18save");
  }
}
static void wl_corrupt(Rng& r, long count, bool full) {
  for (long it = 0; it < count; it++) {
    int kind = it % K_NB;
    Cov* c = build(kind, r, true, it < K_NB ? 0 : -1, it >= K_NB && it < 3 * K_NB);   // round 0: no box; rounds 1-2: rich
    save_obj(kind, *c, g_file.c_str());
    Bytes b = slurp(g_file);
    size_t sz = kind >= K_LIST ? static_cast<CovList*>(c)->size() : 0;
    string base = string(sz == 0 ? "z" : "p") + to_string(it);
    vector<Field> L = layout(kind, *c, b.size());
    emit_load(kind, base + "-valid", b);
    // truncations: every byte boundary (sampled above 600 bytes unless full)
    for (size_t k = 0; k < b.size(); k++) {
      if (!full && b.size() > 300) {   // larger files: inside the doubles of boxes only a sample of the cut points
        const char* lab = label_at(L, k);
        if ((!strcmp(lab, "bx") || !strcmp(lab, "un")) && !r.coin(12)) continue;
      }
      emit_load(kind, base + "-trunc." + label_at(L, k) + "@" + to_string(k), Bytes(b.begin(), b.begin() + k));
    }
    // single-field corruptions
    for (const Field& f : L) {
      if (f.type == 'u') {
        uint32_t v = get32(b, f.off);
        uint32_t alts[] = {0u, 1u, 2u, 0xFFFFFFFFu, v + 1, v - 1, v + 2, 0x7FFFFFFFu, v ^ 0x80000000u, (uint32_t)__builtin_bswap32(v), 3u, 6u};
        int na = full ? 12 : 10;
        for (int a = 0; a < na; a++) { if (alts[a] == v) continue; bool dup = false; for (int a2 = 0; a2 < a; a2++) if (alts[a2] == alts[a]) dup = true; if (dup) continue;
          Bytes t = b; put32(t, f.off, alts[a]); emit_load(kind, base + "-u32." + f.label + "@" + to_string(f.off) + "=" + to_string(alts[a]), t); }
      } else if (f.type == 'd') {
        bool boxd = !strcmp(f.label, "bx") || !strcmp(f.label, "un");
        if (!full && boxd && b.size() > 300 && !r.coin(25)) continue;
        uint64_t v = get64(b, f.off);
        uint64_t alts[] = {0ULL, ~0ULL, v + 1, v ^ 0x8000000000000000ULL, 0x7ff0000000000000ULL, 0xfff0000000000000ULL, 0x7ff8000000000001ULL, (uint64_t)__builtin_bswap64(v)};
        for (int a = 0; a < 8; a++) { if (alts[a] == v) continue; if (!full && boxd && !r.coin(50)) continue;
          Bytes t = b; put64(t, f.off, alts[a]); char hx[20]; snprintf(hx, sizeof hx, "%016llx", (unsigned long long)alts[a]); emit_load(kind, base + "-f64." + f.label + "@" + to_string(f.off) + "=" + hx, t); }
      } else {
        unsigned char v = b[f.off];
        unsigned char alts[] = {0, 1, 255, (unsigned char)(v + 1)};
        for (int a = 0; a < 4; a++) { if (alts[a] == v) continue; Bytes t = b; t[f.off] = alts[a]; emit_load(kind, base + "-chr." + f.label + "@" + to_string(f.off) + "=" + to_string((int)alts[a]), t); }
        if (v == 0) { Bytes t = b; t.erase(t.begin() + f.off); emit_load(kind, base + "-delnul." + f.label + "@" + to_string(f.off), t); }   // a missing terminator
      }
    }
    // random byte flips / byte replacements
    int flips = full ? 200 : 40;
    for (int k = 0; k < flips && !b.empty(); k++) {
      Bytes t = b; size_t o = r.below(b.size());
      if (r.coin()) t[o] ^= (unsigned char)(1u << r.below(8)); else t[o] = (unsigned char)r.below(256);
      if (t == b) continue;
      emit_load(kind, base + "-flip." + label_at(L, o) + "@" + to_string(o), t);
    }
    // reader of another class on a corrupted file
    for (int k = 0; k < (full ? 60 : 10) && !L.empty(); k++) {
      const Field& f = L[r.below(L.size())]; Bytes t = b;
      if (f.type == 'u') put32(t, f.off, r.coin() ? get32(b, f.off) + 1 : (uint32_t)r.below(4)); else t[f.off + r.below(f.width)] ^= (unsigned char)(1u << r.below(8));
      if (t == b) continue;
      emit_load((int)r.below(K_NB), base + "-xfield." + f.label + "@" + to_string(f.off), t);
    }
    destroy(kind, c);
    check_round_up("c18corrupt");
  }
}

int main(int argc, char** argv) {
  string wl = argc > 1 ? argv[1] : "save";
  uint64_t seed = argc > 2 ? strtoull(argv[2], 0, 10) : 1;
  long n = argc > 3 ? atol(argv[3]) : 50;
  bool full = false; string dir;
  for (int i = 4; i < argc; i++) { if (string(argv[i]) == "full") full = true; else dir = argv[i]; }
  if (dir.empty()) { string a0 = argv[0]; size_t p = a0.rfind('/'); dir = (p == string::npos ? string(".") : a0.substr(0, p)) + "/runs"; }
  mkdir(dir.c_str(), 0777);
  g_file = dir + "/h_cov_" + wl + "_" + to_string(seed) + "_" + to_string((long)getpid()) + ".cov";
  Rng r(seed * 104729 + (wl == "save" ? 17 : 91));
  if (wl == "save") wl_save(r, n, full);
  else if (wl == "corrupt") wl_corrupt(r, n, full);
  else { fprintf(stderr, "unknown workload\n"); return 2; }
  unlink(g_file.c_str());
  fprintf(stderr, "emitted %ld\n", emitted);
  return 0;
}
