// C16 (bisectors that need a system): SmearMax, SmearSum, SmearSumRelative, SmearMaxRelative, LSmear (when usable
// without LP library), OptimLargestFirst.  The rule is the one of every bisector: the chosen variable is wider than
// its precision (and can be bisected); "none" only when no variable is.
//   bsc <class> <box> <prec;prec;...> => <var|none>
//   vbisect <box> <var> <ratio> => <left> <right>
#include "sys_gen.h"

static long emitted = 0;
#define EMIT(...) do { printf(__VA_ARGS__); emitted++; } while (0)
static string tokvec(const Vector& v) { string s; for (int i = 0; i < v.size(); i++) { if (i) s += ";"; s += hex(v[i]); } return s; }

static IntervalVector sub_box(Rng& r, const IntervalVector& root, const Vector& p) {
  int n = root.size(); IntervalVector b(n);
  for (int i = 0; i < n; i++) {
    switch (r.below(5)) {
      case 0: b[i] = root[i]; break;
      case 1: { double w = std::ldexp(1.0, -(int)r.range(1, 40)); b[i] = Interval(p[i] - w * r.range(0, 3), p[i] + w * r.range(0, 3)); break; }
      case 2: b[i] = Interval(p[i]); break;                                       // degenerate
      case 3: { double a = root[i].lb() + (root[i].diam()) * r.range(0, 8) / 8.0; b[i] = Interval(a, std::nextafter(a, POS_INFINITY)); break; }   // not bisectable: adjacent floats
      default: { double a = root[i].lb() + root[i].diam() * r.range(0, 4) / 8.0, c = a + root[i].diam() * r.range(0, 4) / 8.0; b[i] = Interval(a, c); } }
    if (b[i].is_empty()) b[i] = root[i];
  }
  return b;
}

// `prec`: precisions shown when a variable is chosen; `prec_none`: when none is (for OptimLargestFirst the objective is
// bisected only under special conditions even if it is allowed: "none" means that no OTHER variable can be bisected)
static void one(Bsc& b, const char* cls, const IntervalVector& x, const Vector& prec, double ratio, const Vector* prec_none = 0) {
  string res; const Vector& pn = prec_none ? *prec_none : prec;
  try {
    Cell c(x); b.add_property(x, c.prop);
    try { BisectionPoint bp = b.choose_var(c); res = to_string(bp.var); }
    catch (NoBisectableVariableException&) { res = "none"; }
    EMIT("bsc %s %s %s => %s\n", cls, tok(x).c_str(), tokvec(res == "none" ? pn : prec).c_str(), res.c_str());
    try { pair<IntervalVector, IntervalVector> p = b.bisect(x);
          int var = -1; for (int i = 0; i < x.size(); i++) if (p.first[i] != x[i]) { var = i; break; }
          if (var >= 0) { EMIT("vbisect %s %d %s => %s %s\n", tok(x).c_str(), var, hex(ratio).c_str(), tok(p.first).c_str(), tok(p.second).c_str());
                          EMIT("bsc %s.bisect %s %s => %d\n", cls, tok(x).c_str(), tokvec(prec).c_str(), var); }
    } catch (NoBisectableVariableException&) { EMIT("bsc %s.bisect %s %s => none\n", cls, tok(x).c_str(), tokvec(pn).c_str()); }
  } catch (VerifAbort& a) { /* (LSmear without LP library) */ }
  check_round_up(cls);
}

int main(int argc, char** argv) {
  string wl = argc > 1 ? argv[1] : "c16bsc";
  uint64_t seed = argc > 2 ? strtoull(argv[2], 0, 10) : 1;
  long count = argc > 3 ? atol(argv[3]) : 100;
  Rng r(seed * 15485863 + 5);
  if (wl != "c16bsc") { fprintf(stderr, "unknown workload\n"); return 2; }
  for (long it = 0; it < count; it++) {
    try {
      Problem P; VECTOR_INEQS = r.coin(30);
      bool ok = r.coin(70) ? make_problem(r, P) : (r.coin() ? make_multi(r, P) : make_param(r, P));
      if (!ok) continue;
      System& sys = *P.sys; int n = P.n;
      for (int rep = 0; rep < 6; rep++) {
        IntervalVector x = sub_box(r, sys.box, P.planted[0]);
        Vector prec(n); bool uniform = r.coin(40); double p0 = r.coin(30) ? 0.0 : std::ldexp(1.0, r.range(-40, 4));
        for (int i = 0; i < n; i++) prec[i] = uniform ? p0 : (r.coin(20) ? 0.0 : (r.coin(30) ? x[i].diam() : std::ldexp(1.0, r.range(-40, 4))));
        for (int i = 0; i < n; i++) if (!(prec[i] == prec[i]) || prec[i] == POS_INFINITY) prec[i] = 1.0;
        double ratio = r.coin() ? 0.45 : 0.5;
        { SmearMax b(sys, prec, ratio); one(b, "SmearMax", x, prec, ratio); }
        { SmearSum b(sys, prec, ratio); one(b, "SmearSum", x, prec, ratio); }
        { SmearSumRelative b(sys, prec, ratio); one(b, "SmearSumRelative", x, prec, ratio); }
        { SmearMaxRelative b(sys, prec, ratio); one(b, "SmearMaxRelative", x, prec, ratio); }
        if (uniform) { LargestFirst lf(p0, ratio); SmearSumRelative b(sys, p0, lf); one(b, "SmearSumRelative+lf", x, Vector(n, p0), ratio); }
        // extended box: the last variable is the objective
        { IntervalVector xe(n + 1); xe.put(0, x); xe[n] = r.coin() ? Interval(-1, 3) : Interval(r.range(-8, 8) / 4.0).inflate(r.coin(30) ? 0 : std::ldexp(1.0, -(int)r.range(0, 30)));
          Vector pe(n + 1); pe.put(0, prec); pe[n] = r.coin() ? prec[0] : std::ldexp(1.0, r.range(-40, 4));
          for (int co = 0; co < 2; co++) {
            OptimLargestFirst b(n, co == 1, pe, ratio);
            Vector noobj = pe; noobj[n] = POS_INFINITY;     // (the objective is not a candidate)
            if (co == 0) one(b, "OptimLargestFirst", xe, noobj, ratio);
            else one(b, "OptimLargestFirst+obj", xe, pe, ratio, &noobj);
          } }
      }
      delete P.sys;
    } catch (VerifAbort& a) { string m = a.what(); for (auto& ch : m) if (ch == ' ' || ch == '\n') ch = '_'; EMIT("harnesserror c16bsc abort:%s => 0\n", m.c_str()); }
      catch (std::exception& e) { EMIT("harnesserror c16bsc %s => 0\n", typeid(e).name()); }
  }
  fprintf(stderr, "emitted %ld\n", emitted);
  return 0;
}
