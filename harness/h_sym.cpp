// C08 (interval derivatives), C11 (symbolic rewriting), C12 (symbolic differentiation): exact point checks.
//   gradpt <dag> <pt> => <interval gradient / jacobian (matrix token)>     exact derivative at the point must be inside
//   jacrows <dag> <pt> <rows a.b.c> => <J restricted to the rows>
//   jaccol <dag> <pt> <v> => <column v of J as m x 1>
//   hansenpt <dag> <x0> <x> => <H>                                        f(x)-f(x0) in H (x-x0)
//   hansenrows <dag> <x0> <x> <rows> => <H>                               the same for the selected components
//   jaccolrows <dag> <pt> <v> <rows> => <column v of the Jacobian of the selected components>
//   diffpt <dag f> <dag df> <pt> => 1                                      exact derivative of f == exact value of df
//   equivpt <kind> <dag1> <dag2> <pt> => 1                                 same dimensions, same exact value where dag1 is defined
#include "common.h"
#include "expr_io.h"
#include "mp_dag.h"
#include "elem_gen.h"
#include <typeinfo>
#include <sys/resource.h>
#include <sys/wait.h>
#include <unistd.h>
#include <signal.h>
#include <new>
using namespace ibex; using namespace vh; using namespace std;

static long emitted = 0;
#define EMIT(...) do { printf(__VA_ARGS__); emitted++; } while (0)

static double dyadic(Rng& r) { return r.range(-24, 24) / 8.0; }
static IntervalVector box_around(Rng& r, const Vector& p) {
  IntervalVector b(p.size());
  for (int i = 0; i < p.size(); i++) {
    double lo = p[i] - r.range(0, 16) / 8.0, hi = p[i] + r.range(0, 16) / 8.0;
    if (r.coin(10)) lo = hi = p[i];
    b[i] = Interval(lo, hi);
  }
  return b;
}
static Vector point_in(Rng& r, const IntervalVector& b) {
  Vector p(b.size());
  for (int i = 0; i < b.size(); i++) { double t = r.range(0, 8) / 8.0; double v = b[i].lb() + t * (b[i].ub() - b[i].lb()); if (!b[i].contains(v)) v = b[i].lb(); p[i] = v; }
  return p;
}

struct Built { Function* f; Array<const ExprSymbol>* args; string dag; int nvar; int rows, cols; vector<const ExprNode*> scomps; /* scalar components (family with restricted domains) */ };
static Built build(Rng& r, GenCfg cfg, bool vec_image, bool mat_image = false) {
  Built b; ExprGen g(r, cfg);
  int ns = r.range(1, 3);
  b.args = new Array<const ExprSymbol>(ns); b.nvar = 0;
  for (int i = 0; i < ns; i++) {
    Dim d = Dim::scalar();
    if (cfg.allow_vec) switch (r.below(6)) { case 0: d = Dim::col_vec(r.range(2, 3)); break; case 1: d = Dim::row_vec(2); break; case 2: d = Dim::matrix(r.range(2, 3), r.range(2, 3)); break; default: break; }
    const ExprSymbol& s = ExprSymbol::new_(("x" + to_string(i)).c_str(), d);
    b.args->set_ref(i, s); g.syms.push_back(&s); b.nvar += d.size();
  }
  if (cfg.allow_apply) { int nf = r.below(3); for (int k = 0; k < nf; k++) {
      GenCfg c2 = cfg; c2.allow_vec = false; c2.allow_apply = false; ExprGen g2(r, c2); int na = r.range(1, 2);
      Array<const ExprSymbol>* a = new Array<const ExprSymbol>(na);
      for (int i = 0; i < na; i++) { const ExprSymbol& s = ExprSymbol::new_(("a" + to_string(k) + "_" + to_string(i)).c_str(), Dim::scalar()); a->set_ref(i, s); g2.syms.push_back(&s); }
      g.funs.push_back(new Function(*a, g2.gen(1, 1, 2), ("aux" + to_string(k)).c_str())); } }
  b.rows = 1; b.cols = 1;
  if (vec_image && r.coin(60)) { if (r.coin(70)) b.rows = r.range(2, 3); else b.cols = r.range(2, 3); }
  if (mat_image && r.coin(30)) { b.rows = 2; b.cols = r.range(2, 3); }
  const ExprNode& e = g.gen(b.rows, b.cols, cfg.max_depth);
  b.dag = dump_expr(e, *b.args);
  b.f = new Function(*b.args, e, "f");
  return b;
}


// a function with MUTABLE constants (ExprConstant::new_mutable: the value lives in a Domain owned by the caller and may change
// after the function, its simplified form or its derivative have been built).  The constants are set to `v0` (often 0 or 1,
// the values that rewriting rules treat specially) while the library works, then changed: what was derived must follow.
struct Mut { Domain* t; Domain* t2; Domain* tv; Mut() : t(0), t2(0), tv(0) {} };
static Built build_mutable(Rng& r, Mut& mu) {
  Built b; GenCfg cfg; cfg.differentiable = true; cfg.allow_vec = false; cfg.allow_apply = false; cfg.max_depth = r.range(1, 2);
  ExprGen g(r, cfg);
  int ns = r.range(1, 3); b.args = new Array<const ExprSymbol>(ns); b.nvar = 0; const ExprSymbol* vecsym = 0;
  for (int i = 0; i < ns; i++) {
    bool vec = (i == ns - 1) && r.coin(35);
    const ExprSymbol& s = ExprSymbol::new_(("x" + to_string(i)).c_str(), vec ? Dim::col_vec(2) : Dim::scalar());
    b.args->set_ref(i, s); b.nvar += s.dim.size(); if (vec) vecsym = &s; else g.syms.push_back(&s);
  }
  if (g.syms.empty()) { const ExprSymbol& s = ExprSymbol::new_("xs", Dim::scalar()); Array<const ExprSymbol>* a2 = new Array<const ExprSymbol>(ns + 1); for (int i = 0; i < ns; i++) a2->set_ref(i, (*b.args)[i]); a2->set_ref(ns, s); b.args = a2; g.syms.push_back(&s); b.nvar++; }
  static const double V0[] = {0.0, 0.0, 1.0, -1.0, 2.0, 0.5};
  mu.t = new Domain(Dim::scalar()); mu.t->i() = Interval(V0[r.below(6)]);
  mu.t2 = new Domain(Dim::scalar()); mu.t2->i() = r.coin(60) ? mu.t->i() : Interval(V0[r.below(6)]);   // (a DISTINCT constant that often holds the same value)
  mu.tv = new Domain(Dim::col_vec(2)); mu.tv->v()[0] = Interval(V0[r.below(6)]); mu.tv->v()[1] = Interval(V0[r.below(6)]);
  const ExprNode& t = ExprConstant::new_mutable(*mu.t);
  const ExprNode& tv = ExprConstant::new_mutable(*mu.tv);
  const ExprNode& t2 = ExprConstant::new_mutable(*mu.t2);
  int n = r.range(2, 3);
  auto colvec = [&](int k) -> const ExprNode& { Array<const ExprNode> c(k); for (int i = 0; i < k; i++) c.set_ref(i, g.gen(1, 1, cfg.max_depth)); return ExprVector::new_col(c); };
  const ExprNode* e;
  switch (r.below(13)) {
    case 12: { // a vector with a mutable component next to constant zeros: the component functions must stay distinct
      Array<const ExprNode> c(4); c.set_ref(0, t); c.set_ref(1, ExprConstant::new_scalar(0.0)); c.set_ref(2, *g.syms[0] + t2); c.set_ref(3, ExprConstant::new_scalar(0.0));
      e = &ExprVector::new_col(c); b.rows = 4; b.cols = 1; break; }
    case 9: { const ExprNode& q = g.gen(1, 1, 1); e = &(t * q - t2 * q + g.gen(1, 1, 1)); b.rows = b.cols = 1; break; }      // like monomials with two different mutable coefficients
    case 10: { const ExprSymbol& xs = *g.syms[r.below(g.syms.size())]; e = &(t * xs + t2 * xs + xs * t2 - t * sqr(xs)); b.rows = b.cols = 1; break; }
    case 11: { const ExprNode& q = g.gen(1, 1, 1); e = &((t - t2) * q + (t2 * t) * g.gen(1, 1, 1)); b.rows = b.cols = 1; break; }
    case 0: e = &(t * colvec(n) + colvec(n)); b.rows = n; b.cols = 1; break;
    case 1: e = &(t * g.gen(1, 1, 2) + g.gen(1, 1, 2)); b.rows = b.cols = 1; break;
    case 2: e = &(g.gen(1, 1, 2) * t + sqr(t) * g.gen(1, 1, 1)); b.rows = b.cols = 1; break;
    case 3: e = &(transpose(tv) * colvec(2) + g.gen(1, 1, 1)); b.rows = b.cols = 1; break;
    case 4: e = &(g.gen(1, 1, 1) * tv + colvec(2)); b.rows = 2; b.cols = 1; break;
    case 5: if (vecsym) { e = &(t * *vecsym + colvec(2)); b.rows = 2; b.cols = 1; break; }   // falls through
    case 6: e = &((t + g.gen(1, 1, 1)) * (g.gen(1, 1, 1) - t)); b.rows = b.cols = 1; break;
    case 7: e = &(pow(g.gen(1, 1, 1), 2) * t - t * g.gen(1, 1, 2) + t); b.rows = b.cols = 1; break;
    default: e = &(t * (t * colvec(n)) - colvec(n) * t); b.rows = n; b.cols = 1; break;
  }
  b.f = new Function(*b.args, *e, "f");
  b.dag = "";      // (dumped by the caller AFTER the constants have been changed)
  return b;
}
static void change(Rng& r, Mut& mu) {
  static const double V1[] = {3.0, -2.0, 0.5, 1.5, 0.0, 1.0, -0.25};
  mu.t->i() = Interval(V1[r.below(4)]);            // (never 0 or 1 after the change)
  do { mu.t2->i() = Interval(V1[r.below(4)]); } while (mu.t2->i() == mu.t->i());   // (and the two scalars differ)
  mu.tv->v()[0] = Interval(V1[r.below(7)]); mu.tv->v()[1] = Interval(V1[r.below(4)]);
}


// scalar * NON-SQUARE matrix products with a variable scalar (reverse rules mul_SM / mul_SV of the gradient, differentiation of
// scalar-matrix products): f = w'((s A) x), (s A) x, ((s+x_0) A) x ...
static Built build_sm(Rng& r) {
  Built b; int p = r.range(2, 3), q = r.range(2, 3); if (p == q) { if (r.coin()) p = 5 - q; else q = 5 - p; if (p == q) q = p == 2 ? 3 : 2; }
  b.args = new Array<const ExprSymbol>(3);
  const ExprSymbol& sc = ExprSymbol::new_("x0", Dim::scalar()); const ExprSymbol& A = ExprSymbol::new_("x1", Dim::matrix(p, q)); const ExprSymbol& x = ExprSymbol::new_("x2", Dim::col_vec(q));
  b.args->set_ref(0, sc); b.args->set_ref(1, A); b.args->set_ref(2, x); b.nvar = 1 + p * q + q;
  Vector wv(p); for (int i = 0; i < p; i++) wv[i] = (double)r.range(-3, 3); if (wv[0] == 0) wv[0] = 1;
  const ExprNode& w = ExprConstant::new_vector(wv, true);      // row vector
  const ExprNode* s1;
  switch (r.below(4)) { case 0: s1 = &sc; break; case 1: s1 = &(sc + x[0]); break; case 2: s1 = &sqr(sc); break; default: s1 = &(sc * x[q - 1] - 1.0); }
  const ExprNode& sa = r.coin(80) ? (const ExprNode&)(*s1 * A) : (const ExprNode&)(*s1 * (A + A));
  const ExprNode* e;
  switch (r.below(4)) {
    case 0: e = &(w * (sa * x)); b.rows = b.cols = 1; break;
    case 1: e = &(sa * x); b.rows = p; b.cols = 1; break;
    case 2: e = &(w * (sa * x) + sqr(sc)); b.rows = b.cols = 1; break;
    default: e = &((w * sa) * x); b.rows = b.cols = 1; break;
  }
  b.dag = dump_expr(*e, *b.args);
  b.f = new Function(*b.args, *e, "f");
  return b;
}


// products of DIFFERENT powers of the same dot product of vector symbols (u'v and v'u are the same term of the polynomial normal form)
static Built build_dotpow(Rng& r) {
  Built b; int n = r.range(2, 3); int ns = r.range(2, 3);
  b.args = new Array<const ExprSymbol>(ns); b.nvar = ns * n;
  for (int i = 0; i < ns; i++) b.args->set_ref(i, ExprSymbol::new_(("x" + to_string(i)).c_str(), Dim::col_vec(n)));
  auto dot = [&]() -> const ExprNode& { int i = r.below(ns), j = r.below(ns); if (ns > 1 && i == j && r.coin(70)) j = (i + 1) % ns; return transpose((*b.args)[i]) * (*b.args)[j]; };
  auto dotij = [&](int i, int j) -> const ExprNode& { return transpose((*b.args)[i]) * (*b.args)[j]; };
  auto pw = [&](const ExprNode& d, int k) -> const ExprNode& { if (k == 1) return d; if (k == 2 && r.coin()) return sqr(d); return pow(d, k); };
  int i = r.below(ns), j = (i + 1 + r.below(ns - 1)) % ns;
  const ExprNode* e;
  switch (r.below(5)) {
    case 0: e = &(pw(dotij(i, j), r.range(1, 3)) * pw(dotij(j, i), r.range(1, 3))); break;
    case 1: e = &(pw(dotij(i, j), r.range(1, 2)) * pw(dotij(j, i), r.range(2, 3)) - pw(dot(), r.range(1, 2))); break;
    case 2: e = &(dotij(i, j) * (dotij(j, i) * dotij(i, j)) + dot()); break;
    case 3: e = &(pw(dotij(i, j), 2) * dotij(j, i) * pw(dot(), r.range(1, 2))); break;
    default: e = &((dotij(i, j) + 1.0) * pw(dotij(j, i), r.range(1, 3))); break;
  }
  b.rows = b.cols = 1;
  b.dag = dump_expr(*e, *b.args);
  b.f = new Function(*b.args, *e, "f");
  return b;
}


// vector of scalar expressions some of which have a restricted domain (sqrt): with the history "a call on a box outside the
// domain, then calls on boxes inside" the flags left by the first call must not survive
static Built build_dom(Rng& r) {
  Built b; int nv = r.range(2, 3); b.args = new Array<const ExprSymbol>(nv); b.nvar = nv;
  for (int i = 0; i < nv; i++) b.args->set_ref(i, ExprSymbol::new_(("x" + to_string(i)).c_str(), Dim::scalar()));
  const Array<const ExprSymbol>& x = *b.args;
  int m = r.range(2, 4); Array<const ExprNode> comps(m);
  for (int j = 0; j < m; j++) {
    const ExprSymbol& a = x[r.below(nv)]; const ExprSymbol& c = x[r.below(nv)];
    switch (r.below(5)) {
      case 0: comps.set_ref(j, sqrt(a + (double)r.range(0, 8)) * c); break;                 // defined for a >= -k only; perfect squares at integer points
      case 1: comps.set_ref(j, a * sqr(c) + (double)r.range(-3, 3)); break;
      case 2: comps.set_ref(j, a + 2.0 * c); break;
      case 3: comps.set_ref(j, sqrt(sqr(a) + (double)(1 + r.range(0, 3) * r.range(0, 3))) - c); break;      // (never sqrt(a^2): not differentiable at 0, 0/0 in the chain rule)
      default: comps.set_ref(j, sqrt(a) + sqrt(c + 1.0)); break;
    }
    b.scomps.push_back(&comps[j]);
  }
  const ExprNode& e = r.coin(80) ? (const ExprNode&)ExprVector::new_col(comps) : (const ExprNode&)ExprVector::new_row(comps);
  b.rows = r.coin(80) ? m : 1; b.cols = b.rows == 1 ? m : 1; if (&e.dim && e.dim.type() == Dim::ROW_VECTOR) { b.rows = 1; b.cols = m; } else { b.rows = m; b.cols = 1; }
  b.dag = dump_expr(e, x);
  b.f = new Function(x, e, "f");
  return b;
}


// the square of a SUM of matrix terms written with the same node (S*S): the expansion must keep both A*B and B*A
static Built build_matsq(Rng& r) {
  Built b; int n = r.range(2, 3); int ns = r.range(2, 3);
  b.args = new Array<const ExprSymbol>(ns); b.nvar = ns * n * n;
  for (int i = 0; i < ns; i++) b.args->set_ref(i, ExprSymbol::new_(("x" + to_string(i)).c_str(), Dim::matrix(n, n)));
  const Array<const ExprSymbol>& x = *b.args;
  const ExprNode* S;
  switch (r.below(5)) { case 0: S = &(x[0] + x[1]); break; case 1: S = &(x[0] - x[1]); break; case 2: S = &(x[0] + 2.0 * x[1]); break; case 3: S = &(x[0] + transpose(x[1])); break; default: S = &((x[0] + x[1]) - x[ns - 1] * x[0]); }
  const ExprNode* e;
  switch (r.below(4)) { case 0: e = &(*S * *S); break; case 1: e = &((*S * *S) + x[0]); break; case 2: e = &((*S * *S) * x[ns - 1]); break; default: e = &(x[0] * (*S * *S)); }
  b.rows = n; b.cols = n;
  b.dag = dump_expr(*e, x);
  b.f = new Function(x, *e, "f");
  return b;
}

// a function over vector / matrix symbols built by the symbolic linear algebra generator
// (transdiff: the top of the expression is a transposed difference / sum applied to a vector, so that the derivative contains the
//  transpose of a difference, which the final simplification of ExprDiff distributes)
static Built build_linalg(Rng& r, bool outer = true, bool transdiff = false) {
  Built b; int n = r.range(2, 3); LinAlgGen g(r, n); g.outer = outer;
  int nc = transdiff ? r.range(2, 3) : r.range(1, 3), nr = r.below(2), nm = r.below(3), nsc = r.below(2);
  int ns = nc + nr + nm + nsc; b.args = new Array<const ExprSymbol>(ns); b.nvar = 0; int k = 0;
  for (int i = 0; i < nc; i++) { const ExprSymbol& s = ExprSymbol::new_(("x" + to_string(k)).c_str(), Dim::col_vec(n)); b.args->set_ref(k++, s); g.cols.push_back(&s); b.nvar += n; }
  for (int i = 0; i < nr; i++) { const ExprSymbol& s = ExprSymbol::new_(("x" + to_string(k)).c_str(), Dim::row_vec(n)); b.args->set_ref(k++, s); g.rows.push_back(&s); b.nvar += n; }
  for (int i = 0; i < nm; i++) { const ExprSymbol& s = ExprSymbol::new_(("x" + to_string(k)).c_str(), Dim::matrix(n, n)); b.args->set_ref(k++, s); g.mats.push_back(&s); b.nvar += n * n; }
  for (int i = 0; i < nsc; i++) { const ExprSymbol& s = ExprSymbol::new_(("x" + to_string(k)).c_str(), Dim::scalar()); b.args->set_ref(k++, s); g.scals.push_back(&s); b.nvar += 1; }
  int d = r.range(1, 3); const ExprNode* e;
  if (transdiff) {
    const ExprNode& A = g.col(r.below(2)); const ExprNode& B = g.col(r.below(2)); const ExprNode& C = g.col(r.below(2));
    const ExprNode& D = r.coin(70) ? (const ExprNode&)(A - B) : (r.coin() ? (const ExprNode&)(A + B) : (const ExprNode&)(A - (B + C)));
    switch (r.below(5)) {
      case 0: e = &(transpose(D) * C); b.rows = 1; b.cols = 1; break;
      case 1: e = &sqr(transpose(D) * C); b.rows = 1; b.cols = 1; break;
      case 2: e = &(transpose(D) * D); b.rows = 1; b.cols = 1; break;
      case 3: e = &transpose(D); b.rows = 1; b.cols = n; break;
      default: e = &((transpose(D) * C) * A); b.rows = n; b.cols = 1; break;
    }
  } else
  switch (r.below(4)) { case 0: e = &g.scal(d + 1); b.rows = 1; b.cols = 1; break; case 1: e = &g.col(d); b.rows = n; b.cols = 1; break;
                        case 2: e = &g.row(d); b.rows = 1; b.cols = n; break; default: e = &g.mat(d); b.rows = n; b.cols = n; }
  b.dag = dump_expr(*e, *b.args);
  b.f = new Function(*b.args, *e, "f");
  return b;
}

// ---- gradients / symbolic derivatives of expressions with elementary functions, judged by MPFR forward differentiation (mp_dag.h)
//   gradt <dag> <box> <pt> <oracle enclosures of the partial derivatives at pt, ';'-separated> => <gradient over the box>
//   difft <dag> <pt> <oracle enclosures (derivative of f at pt)> => <MPFR enclosures of the library's symbolic derivative at pt | U>
static string enc_tok(const vector<double>& lo, const vector<double>& hi) { string s; for (size_t i = 0; i < lo.size(); i++) { if (i) s += ";"; s += hex(lo[i]) + ":" + hex(hi[i]); } return s; }
static void wl_elem(Rng& r, long n, bool symbolic) {
  for (long it = 0; it < n; it++) {
    try {
      int nv = r.range(1, 3);
      GenCfg cfg; cfg.allow_vec = false; cfg.allow_apply = false; cfg.allow_div = r.coin(40); cfg.max_depth = 2; cfg.differentiable = true;
      ExprGen g(r, cfg);
      Array<const ExprSymbol> args(nv);
      for (int i = 0; i < nv; i++) { const ExprSymbol& s = ExprSymbol::new_(("x" + to_string(i)).c_str(), Dim::scalar()); args.set_ref(i, s); g.syms.push_back(&s); }
      const ExprNode& e = gen_elem(r, g, r.range(1, 3));
      string dag = dump_expr(e, args);
      Function f(args, e, "f");
      if (!symbolic) {
        for (int k = 0; k < 3; k++) {
          IntervalVector box(nv);
          for (int i = 0; i < nv; i++) { double c = r.coin(70) ? r.range(-16, 16) / 8.0 : r.range(-200, 200) / 8.0; double w = r.coin(30) ? 0 : (r.coin() ? std::ldexp(1.0, -(int)r.range(1, 30)) : r.range(1, 8) / 8.0); box[i] = Interval(c - w, c + (r.coin(20) ? 0 : w)); }
          if (r.coin(40)) { IntervalVector other(nv); for (int i = 0; i < nv; i++) other[i] = Interval(r.range(-64, 0) / 4.0, r.range(0, 64) / 4.0); try { f.gradient(other); } catch (...) {} }   // history
          IntervalVector gr = f.gradient(box);
          check_round_up("gradient-elementary");
          IntervalMatrix J = f.jacobian(box);
          for (int j = 0; j < 4; j++) {
            Vector p = j < 3 ? point_in(r, box) : box.mid(); bool fin = true; for (int i = 0; i < nv; i++) if (!(std::fabs(p[i]) <= DBL_MAX) || !box[i].contains(p[i])) fin = false; if (!fin) continue;
            vector<double> lo, hi; if (!mp_grad(e, args, p, lo, hi)) { EMIT("gradt %s %s %s U => -\n", dag.c_str(), tok(box).c_str(), ptok(p).c_str()); continue; }
            EMIT("gradt %s %s %s %s => %s\n", dag.c_str(), tok(box).c_str(), ptok(p).c_str(), enc_tok(lo, hi).c_str(), gr.is_empty() ? "E" : tok(gr).c_str());
            EMIT("gradt %s %s %s %s => %s\n", dag.c_str(), tok(box).c_str(), ptok(p).c_str(), enc_tok(lo, hi).c_str(), J.is_empty() ? "E" : tok(IntervalVector(J[0])).c_str());
          }
        }
      } else {
        const Function& df = f.diff();
        for (int j = 0; j < 5; j++) {
          Vector p(nv); for (int i = 0; i < nv; i++) p[i] = r.coin(70) ? r.range(-32, 32) / 16.0 : r.range(-400, 400) / 16.0;
          vector<double> lo, hi; if (!mp_grad(e, args, p, lo, hi)) { EMIT("difft %s %s U => -\n", dag.c_str(), ptok(p).c_str()); continue; }
          // the library's derivative, evaluated with the same oracle arithmetic, component by component
          vector<double> dlo, dhi; bool okd = true;
          for (int i = 0; i < nv && okd; i++) { const ExprNode& ci = nv == 1 ? df.expr() : (df.expr().dim.is_scalar() ? df.expr() : df[i].expr()); const Array<const ExprSymbol>& ai = (nv == 1 || df.expr().dim.is_scalar()) ? df.args() : df[i].args();
            double a, b2; if (!mp_eval(ci, ai, p, a, b2)) okd = false; else { dlo.push_back(a); dhi.push_back(b2); } }
          EMIT("difft %s %s %s => %s\n", dag.c_str(), ptok(p).c_str(), enc_tok(lo, hi).c_str(), okd ? enc_tok(dlo, dhi).c_str() : "U");
        }
      }
    } catch (ExprDiffException& ex) { EMIT("diffunsupported x => 0\n"); }
      catch (VerifAbort& a) { EMIT("harnesserror elem abort => 0\n"); }
      catch (std::exception& ex) { EMIT("harnesserror elem %s => 0\n", typeid(ex).name()); }
  }
}

int main(int argc, char** argv) {
  { struct rlimit rl; rl.rlim_cur = rl.rlim_max = (rlim_t)6 << 30; setrlimit(RLIMIT_AS, &rl); }   // a blow-up of the symbolic layer ends with bad_alloc, not with swapping
  string wl = argc > 1 ? argv[1] : "c08";
  uint64_t seed = argc > 2 ? strtoull(argv[2], 0, 10) : 1;
  long n = argc > 3 ? atol(argv[3]) : 200;
  Rng r0(seed * 86028121 + 9);
  if (wl == "c08t" || wl == "c12t") { Rng rr(seed * 86028121 + (wl == "c08t" ? 21 : 23)); wl_elem(rr, n, wl == "c12t"); fprintf(stderr, "emitted %ld\n", emitted); return 0; }
  string cur;
  // the symbolic workloads run each iteration in a forked child with a CPU-time limit: the polynomial expansion of the
  // simplification levels 2-3 is documented to blow up (time or memory) on some expressions; such a case is reported
  // as a resource limit (no claim), a crash of the library as a failure
  bool forked = (wl == "c08" || wl == "c11" || wl == "c12");   // one child per iteration: a crash of the library is one line, the other iterations go on
  for (long it = 0; it < n; it++) {
    cur = "-";
    Rng r(r0.next() ^ (uint64_t)it * 0x9E3779B97F4A7C15ull);     // one stream per iteration (the child's draws are not seen by the parent)
    if (getenv("H_SYM_ONLY") && atol(getenv("H_SYM_ONLY")) != it) continue;     // (debugging: a single iteration, in this process)
    if (forked && !getenv("H_SYM_ONLY")) {
      fflush(stdout);
      pid_t pid = fork();
      if (pid > 0) {
        int st = 0; waitpid(pid, &st, 0);
        if (WIFSIGNALED(st)) {
          if (WTERMSIG(st) == SIGXCPU || WTERMSIG(st) == SIGKILL || WTERMSIG(st) == SIGALRM) EMIT("resourcelimit %s cpu-time it=%ld => 0\n", wl.c_str(), it);
          else EMIT("harnesserror %s crash-signal-%d it=%ld => 0\n", wl.c_str(), WTERMSIG(st), it);
        } else emitted += WEXITSTATUS(st) == 0 ? 0 : 0;
        continue;
      }
      if (pid == 0) { struct rlimit rl; rl.rlim_cur = 25; rl.rlim_max = 30; setrlimit(RLIMIT_CPU, &rl);
                      static char* big = 0; if (!big) big = (char*)malloc(1 << 24); setvbuf(stdout, big, _IOFBF, 1 << 24); }   // nothing is written before the final flush: a crash leaves no partial line
      if (pid < 0) forked = false;   // (fork failed: go on in this process)
    }
    do {     // (a `continue` in the body leaves this block, not the iteration: the child must reach its _exit)
    try {
      if (wl == "c08") {
        GenCfg cfg; cfg.differentiable = r.coin(75); cfg.allow_vec = r.coin(60); cfg.allow_apply = r.coin(40); cfg.max_depth = r.range(1, 4);
        bool dom = r.coin(8);
        Built b = dom ? build_dom(r) : (r.coin(8) ? build_sm(r) : (r.coin(20) ? build_linalg(r, false) : build(r, cfg, true)));
        if (b.rows > 1 && b.cols > 1) { delete b.f; continue; }   // (matrix-valued images: not in this workload)
        Function& f = *b.f; int m = b.rows * b.cols;
        for (int k = 0; k < 3; k++) {
          Vector c(b.nvar); for (int i = 0; i < b.nvar; i++) c[i] = dyadic(r);
          IntervalVector box = box_around(r, c);
          if (r.coin(40)) { IntervalVector other = box_around(r, c); try { f.jacobian(other); } catch (...) {} } // history
          if (dom) for (int i = 0; i < b.nvar; i++) { double lo = (double)r.range(1, 9), w = r.range(0, 8) / 4.0; box[i] = Interval(lo, lo + w); }   // (strictly inside the domain: every square root is differentiable on the box)
          if (dom ? r.coin(75) : r.coin(35)) { // history: a call on a box that leaves the definition domain (sqrt of negative values, division by 0): empty results, early exits
            IntervalVector bad(b.nvar); double cc = r.coin(70) ? -64.0 : 0.0; for (int i = 0; i < b.nvar; i++) bad[i] = Interval(cc - r.range(0, 4), cc + (r.coin() ? 0 : r.range(0, 4)));
            try { switch (r.below(4)) { case 0: f.jacobian(bad); break; case 1: f.eval_vector(bad); break; case 2: { IntervalMatrix Hb(m, b.nvar); f.hansen_matrix(bad, bad.mid(), Hb); break; }
                                         default: { BitSet one = BitSet::singleton(m, r.below(m)); f.jacobian(bad, one); } } } catch (...) {} }
          IntervalMatrix J = f.jacobian(box);
          check_round_up("jacobian");
          for (int j = 0; j < 3; j++) { Vector p = point_in(r, box); EMIT("gradpt %s %s => %s\n", b.dag.c_str(), ptok(p).c_str(), J.is_empty() ? "E" : mtok(J).c_str()); }
          // (restricted-domain family: square roots have no exact rational value: each row is judged by MPFR forward differentiation)
          for (size_t q = 0; q < b.scomps.size(); q++) for (int j = 0; j < 2; j++) { Vector p = point_in(r, box); vector<double> lo, hi;
            bool alldef = true; for (auto cq : b.scomps) { vector<double> l0, h0; if (!mp_grad(*cq, *b.args, p, l0, h0)) alldef = false; } if (!alldef) continue;   // (every component must be differentiable at the point)
            if (!mp_grad(*b.scomps[q], *b.args, p, lo, hi)) continue;
            EMIT("gradt %s#%zu %s %s %s => %s\n", b.dag.c_str(), q, tok(box).c_str(), ptok(p).c_str(), enc_tok(lo, hi).c_str(), J.is_empty() ? "E" : tok(IntervalVector(J[q])).c_str()); }
          if (m == 1) { IntervalVector g = f.gradient(box); Vector p = point_in(r, box); EMIT("gradpt %s %s => %s\n", b.dag.c_str(), ptok(p).c_str(), g.is_empty() ? "E" : mtok(g, true).c_str()); }
          if (m > 1) { // some rows only
            BitSet rows = BitSet::empty(m); string sel; for (int q = 0; q < m; q++) if (r.coin()) { if (!sel.empty()) sel += "."; sel += to_string(q); rows.add(q); }
            if (!sel.empty()) { IntervalMatrix Jr = f.jacobian(box, rows); Vector p = point_in(r, box); EMIT("jacrows %s %s %s => %s\n", b.dag.c_str(), ptok(p).c_str(), sel.c_str(), Jr.is_empty() ? "E" : mtok(Jr).c_str()); }
          }
          { int v = r.below(b.nvar); IntervalMatrix Jv(m, b.nvar); f.jacobian(box, Jv, v); Vector p = point_in(r, box);
            IntervalVector col = Jv.col(v); EMIT("jaccol %s %s %d => %s\n", b.dag.c_str(), ptok(p).c_str(), v, col.is_empty() ? "E" : mtok(col, false).c_str()); }
          bool smooth = true; // no pole inside the box: the enclosure of f over the box is bounded
          { Domain y = f.eval_domain(box); if (y.is_empty()) smooth = false; else switch (y.dim.type()) { case Dim::SCALAR: smooth = !y.i().is_unbounded(); break; case Dim::ROW_VECTOR: case Dim::COL_VECTOR: smooth = !y.v().is_unbounded(); break; default: smooth = !y.m().is_unbounded(); } }
          if (smooth) { // Hansen matrix with an explicit centre
            Vector x0 = point_in(r, box); IntervalMatrix H(m, b.nvar); f.hansen_matrix(box, IntervalVector(x0), H);
            for (int j = 0; j < 3; j++) { Vector x = point_in(r, box); EMIT("hansenpt %s %s %s => %s\n", b.dag.c_str(), ptok(x0).c_str(), ptok(x).c_str(), H.is_empty() ? "E" : mtok(H).c_str()); }
            IntervalMatrix H2(m, b.nvar); f.hansen_matrix(box, H2); Vector mid = box.mid();
            Vector x = point_in(r, box); EMIT("hansenpt %s %s %s => %s\n", b.dag.c_str(), ptok(mid).c_str(), ptok(x).c_str(), H2.is_empty() ? "E" : mtok(H2).c_str()); }
          if (smooth && m > 1) { // Hansen matrix of some components only
            BitSet rows = BitSet::empty(m); string sel; for (int q = 0; q < m; q++) if (r.coin()) { if (!sel.empty()) sel += "."; sel += to_string(q); rows.add(q); }
            if (!sel.empty()) { Vector x0 = point_in(r, box); IntervalMatrix H(rows.size(), b.nvar); f.hansen_matrix(box, IntervalVector(x0), H, rows);
              for (int j = 0; j < 2; j++) { Vector x = point_in(r, box); EMIT("hansenrows %s %s %s %s => %s\n", b.dag.c_str(), ptok(x0).c_str(), ptok(x).c_str(), sel.c_str(), H.is_empty() ? "E" : mtok(H).c_str()); } }
          }
          if (smooth && b.nvar > 1) { // Hansen matrix w.r.t. some variables, Jacobian w.r.t. the parameters
            BitSet vb = BitSet::empty(b.nvar); while (vb.size() == 0 || vb.size() == b.nvar) { vb = BitSet::empty(b.nvar); for (int q = 0; q < b.nvar; q++) if (r.coin()) vb.add(q); }
            VarSet vs(b.nvar, vb);
            Vector x0f = point_in(r, box);
            IntervalMatrix Hv(m, vs.nb_var), Jp(m, vs.nb_param);
            bool with_centre = r.coin(70);
            Vector x0v = with_centre ? vs.var_box(IntervalVector(x0f)).mid() : vs.var_box(box).mid();
            if (with_centre) f.hansen_matrix(box, IntervalVector(x0v), Hv, Jp, vs); else f.hansen_matrix(box, Hv, Jp, vs);
            if (!with_centre) for (int q = 0; q < vs.nb_var; q++) x0f[vs.var(q)] = x0v[q];
            // the full matrix: columns of the variables from H_var, columns of the parameters from J_param
            IntervalMatrix M(m, b.nvar); bool empty = Hv.is_empty() || Jp.is_empty();
            if (!empty) { for (int q = 0; q < vs.nb_var; q++) M.set_col(vs.var(q), Hv.col(q)); for (int q = 0; q < vs.nb_param; q++) M.set_col(vs.param(q), Jp.col(q)); }
            for (int j = 0; j < 3; j++) { Vector x = point_in(r, box); EMIT("hansenpt %s %s %s => %s\n", b.dag.c_str(), ptok(x0f).c_str(), ptok(x).c_str(), empty ? "E" : mtok(M).c_str()); }
          }
          if (m > 1) { // projection on some components (FncProj), with and without the symbolic derivative
            BitSet comps = BitSet::empty(m); vector<int> cl; for (int q = 0; q < m; q++) if (r.coin(60)) { comps.add(q); cl.push_back(q); }
            if (!cl.empty()) {
              Function* df = 0; if (cfg.differentiable && b.rows * b.cols == m && (b.cols == 1) && r.coin()) { try { df = new Function(f, Function::DIFF); } catch (...) { df = 0; } }
              FncProj pj(f, comps, df);
              int mp = (int)cl.size();
              // all the components of the projection
              { IntervalMatrix Jp2(mp, b.nvar); pj.jacobian(box, Jp2, BitSet::all(mp), -1); string sel; for (int q = 0; q < mp; q++) { if (q) sel += "."; sel += to_string(cl[q]); }
                Vector p = point_in(r, box); EMIT("jacrows %s %s %s => %s\n", b.dag.c_str(), ptok(p).c_str(), sel.c_str(), Jp2.is_empty() ? "E" : mtok(Jp2).c_str()); }
              // some of them, one column
              { BitSet c2 = BitSet::empty(mp); vector<int> sub; for (int q = 0; q < mp; q++) if (r.coin(70)) { c2.add(q); sub.push_back(cl[q]); }
                if (!sub.empty()) { int v = r.below(b.nvar); IntervalMatrix Jc((int)sub.size(), b.nvar); pj.jacobian(box, Jc, c2, v);
                  // only column v is specified: check it through the sub-matrix made of this column
                  IntervalVector col = Jc.col(v); Vector p = point_in(r, box);
                  string sel; for (size_t q = 0; q < sub.size(); q++) { if (q) sel += "."; sel += to_string(sub[q]); }
                  EMIT("jaccolrows %s %s %d %s => %s\n", b.dag.c_str(), ptok(p).c_str(), v, sel.c_str(), col.is_empty() ? "E" : mtok(col, false).c_str()); } }
              if (df) delete df;
            }
          }
        }
      } else if (wl == "c12" && r.coin(10)) {
        // one ExprDiff object for a batch of expressions over the same symbols, one of which cannot be differentiated (saw / chi raise
        // ExprDiffException): the derivatives computed AFTER the failure must not be polluted by it
        int nv = r.range(2, 3);
        Array<const ExprSymbol> x(nv), xn(nv); for (int i = 0; i < nv; i++) { x.set_ref(i, ExprSymbol::new_(("x" + to_string(i)).c_str(), Dim::scalar())); xn.set_ref(i, ExprSymbol::new_(("x" + to_string(i)).c_str(), Dim::scalar())); }
        GenCfg cfg; cfg.differentiable = true; cfg.allow_vec = false; cfg.allow_apply = false; cfg.max_depth = 2;
        ExprGen g(r, cfg); for (int i = 0; i < nv; i++) g.syms.push_back(&x[i]);
        ExprDiff D(x, xn);
        for (int k = 0; k < 4; k++) {
          const ExprNode* e = &g.gen(1, 1, 2);
          bool poison = (k == 1) || r.coin(25);
          if (poison) e = r.coin() ? &(*e * saw(x[r.below(nv)]) + x[0]) : &(chi(x[0], *e, x[nv - 1]) + *e);
          try {
            const ExprNode& de = D.diff(*e, x);
            string fd = dump_expr(*e, x), dd = dump_expr(de, xn);
            EMIT("diffnf %s %s %d => 1\n", fd.c_str(), dd.c_str(), nv);
            for (int q = 0; q < 2; q++) { Vector p(nv); for (int i = 0; i < nv; i++) p[i] = dyadic(r); EMIT("diffpt %s %s %s => 1\n", fd.c_str(), dd.c_str(), ptok(p).c_str()); }
          } catch (ExprDiffException&) { EMIT("diffunsupported x => 0\n"); }
        }
      } else if (wl == "c12" && r.coin(12)) {
        // mutable constants: differentiate while they hold special values, change them, then compare
        Mut mu; Built b = build_mutable(r, mu);
        const Function& df = b.f->diff();
        const Function* ddf = (b.rows * b.cols == 1 && r.coin(40)) ? &df.diff() : 0;
        change(r, mu);
        string fd = dump_fun(*b.f), ddag = dump_fun(df);
        EMIT("diffnf %s %s %d => 1\n", fd.c_str(), ddag.c_str(), b.nvar);
        for (int k = 0; k < 3; k++) { Vector p(b.nvar); for (int i = 0; i < b.nvar; i++) p[i] = dyadic(r); EMIT("diffpt %s %s %s => 1\n", fd.c_str(), ddag.c_str(), ptok(p).c_str()); }
        if (ddf) { string d2 = dump_fun(*ddf); EMIT("diffnf %s %s %d => 1\n", ddag.c_str(), d2.c_str(), b.nvar); }
      } else if (wl == "c12") {
        GenCfg cfg; cfg.differentiable = true; cfg.allow_vec = r.coin(60); cfg.allow_apply = r.coin(40); cfg.max_depth = r.range(1, 4);
        Built b = r.coin(6) ? build_sm(r) : (r.coin(30) ? build_linalg(r, true, r.coin(25)) : build(r, cfg, true));
        if (b.rows > 1 && b.cols > 1) { delete b.f; continue; }   // (differentiation of matrix-valued functions is not supported)
        cur = b.dag;
        if (getenv("VERIF_TRACE")) { fprintf(stderr, "TRACE %s\n", cur.c_str()); fflush(stderr); }
        const Function& df = b.f->diff();
        string ddag = dump_fun(df);
        EMIT("diffnf %s %s %d => 1\n", b.dag.c_str(), ddag.c_str(), b.nvar);
        for (int k = 0; k < 4; k++) { Vector p(b.nvar); for (int i = 0; i < b.nvar; i++) p[i] = dyadic(r); EMIT("diffpt %s %s %s => 1\n", b.dag.c_str(), ddag.c_str(), ptok(p).c_str()); }
        if (b.rows * b.cols == 1 && r.coin(50)) { // second order: jacobian of the gradient
          const Function& ddf = df.diff(); string d2 = dump_fun(ddf);
          EMIT("diffnf %s %s %d => 1\n", ddag.c_str(), d2.c_str(), b.nvar);
          for (int k = 0; k < 2; k++) { Vector p(b.nvar); for (int i = 0; i < b.nvar; i++) p[i] = dyadic(r); EMIT("diffpt %s %s %s => 1\n", ddag.c_str(), d2.c_str(), ptok(p).c_str()); }
        }
      } else if (wl == "c11" && r.coin(10)) {
        // mutable constants: simplify / copy / convert while they hold special values (0, 1, -1), change them, then compare
        Mut mu; Built b = build_mutable(r, mu); Function& f = *b.f;
        vector<pair<string, pair<const ExprNode*, Array<const ExprSymbol>*> > > derived;
        for (int level = 1; level <= 3; level++) {
          Array<const ExprSymbol>* a2 = new Array<const ExprSymbol>(f.nb_arg()); for (int i = 0; i < f.nb_arg(); i++) a2->set_ref(i, ExprSymbol::new_(f.arg(i).name, f.arg(i).dim));
          const ExprNode& cp = ExprCopy().copy(f.args(), *a2, f.expr());
          derived.push_back(make_pair("simplify" + to_string(level) + "-mutable", make_pair(&cp.simplify(level), a2)));
        }
        Function g(f, Function::COPY);
        vector<Function*> comps; if (b.rows * b.cols > 1) for (int i = 0; i < b.rows * b.cols; i++) comps.push_back(&f[i]);      // (built while the constants hold their first values)
        change(r, mu);
        string fd = dump_fun(f); cur = fd;
        auto pts2 = [&](const char* kind, const string& d1, const string& d2) { EMIT("equivnf %s %s %s %d => 1\n", kind, d1.c_str(), d2.c_str(), b.nvar); for (int k = 0; k < 2; k++) { Vector p(b.nvar); for (int i = 0; i < b.nvar; i++) p[i] = dyadic(r); EMIT("equivpt %s %s %s %s => 1\n", kind, d1.c_str(), d2.c_str(), ptok(p).c_str()); } };
        for (auto& d : derived) pts2(d.first.c_str(), fd, dump_expr(*d.second.first, *d.second.second));
        pts2("copy-mutable", fd, dump_fun(g));
        for (size_t i = 0; i < comps.size(); i++) { string d2 = dump_fun(*comps[i]); EMIT("equivcompnf %s %s %d %d => 1\n", fd.c_str(), d2.c_str(), (int)i, b.nvar); }
      } else if (wl == "c11") {
        GenCfg cfg; cfg.differentiable = r.coin(30); cfg.allow_vec = r.coin(70); cfg.allow_apply = false; cfg.max_depth = r.range(1, 4);
        Built b = r.coin(4) ? build_matsq(r) : (r.coin(6) ? build_dotpow(r) : (r.coin(30) ? build_linalg(r) : build(r, cfg, true, true)));
        Function& f = *b.f;
        cur = b.dag;
        auto trace = [&](const char* what) { if (getenv("VERIF_TRACE")) { fprintf(stderr, "TRACE %s %s\n", what, cur.c_str()); fflush(stderr); } };
        auto pts = [&](const char* kind, const string& d1, const string& d2) { EMIT("equivnf %s %s %s %d => 1\n", kind, d1.c_str(), d2.c_str(), b.nvar); for (int k = 0; k < 3; k++) { Vector p(b.nvar); for (int i = 0; i < b.nvar; i++) p[i] = dyadic(r); EMIT("equivpt %s %s %s %s => 1\n", kind, d1.c_str(), d2.c_str(), ptok(p).c_str()); } };
        // simplification at each level, on a copy
        for (int level = 1; level <= 3; level++) {
          Array<const ExprSymbol> a2(f.nb_arg()); for (int i = 0; i < f.nb_arg(); i++) a2.set_ref(i, ExprSymbol::new_(f.arg(i).name, f.arg(i).dim));
          trace(("simplify" + to_string(level)).c_str());
          const ExprNode& cp = ExprCopy().copy(f.args(), a2, f.expr());
          const ExprNode& s = cp.simplify(level);
          pts(("simplify" + to_string(level)).c_str(), b.dag, dump_expr(s, a2));
        }
        trace("copy");
        { Function g(f, Function::COPY); pts("copy", b.dag, dump_fun(g)); }
        trace("dag");
        { // DAG conversion
          Array<const ExprSymbol> a2(f.nb_arg()); for (int i = 0; i < f.nb_arg(); i++) a2.set_ref(i, ExprSymbol::new_(f.arg(i).name, f.arg(i).dim));
          Array<const ExprNode> a2n(f.nb_arg()); for (int i = 0; i < f.nb_arg(); i++) a2n.set_ref(i, a2[i]);
          const ExprNode& d = Expr2DAG().transform(f.args(), a2n, f.expr());
          pts("dag", b.dag, dump_expr(d, a2)); }
        // components f[i]
        int m = b.rows * b.cols;
        trace("comp");
        if (m > 1 && (b.rows == 1 || b.cols == 1)) { int i = r.below(m); Function& fi = f[i]; string d2 = dump_fun(fi);
          EMIT("equivcompnf %s %s %d %d => 1\n", b.dag.c_str(), d2.c_str(), i, b.nvar);
          for (int k = 0; k < 3; k++) { Vector p(b.nvar); for (int q = 0; q < b.nvar; q++) p[q] = dyadic(r); EMIT("equivcomp %s %s %d %s => 1\n", b.dag.c_str(), d2.c_str(), i, ptok(p).c_str()); } }
      } else { fprintf(stderr, "unknown workload\n"); return 2; }
    } catch (ExprDiffException& e) { EMIT("diffunsupported x => 0\n"); }
      catch (std::bad_alloc&) { EMIT("resourcelimit %s bad_alloc %s => 0\n", wl.c_str(), cur.c_str()); }   // (polynomial expansion of simplification levels 2-3: documented blow-up)
      catch (std::exception& e) { EMIT("harnesserror %s %s %s => 0\n", wl.c_str(), typeid(e).name(), cur.c_str()); }
    } while (0);
    if (forked && !getenv("H_SYM_ONLY")) { fflush(stdout); VH_EXIT(0); }
  }
  fprintf(stderr, "emitted %ld\n", emitted);
  return 0;
}
