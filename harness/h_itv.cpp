// Workloads for C01 (forward operators) and C16 (scalar set algebra).
#include "common.h"
using namespace ibex; using namespace vh; using namespace std;

static long emitted = 0;
#define EMIT(...) do { printf(__VA_ARGS__); emitted++; } while (0)

static void un_ops(const Interval& x) {
  EMIT("neg %s => %s\n", tok(x).c_str(), rawtok(-x).c_str());
  EMIT("sqr %s => %s\n", tok(x).c_str(), rawtok(sqr(x)).c_str());
  EMIT("sqrt %s => %s\n", tok(x).c_str(), rawtok(sqrt(x)).c_str());
  EMIT("abs %s => %s\n", tok(x).c_str(), rawtok(abs(x)).c_str());
  EMIT("sign %s => %s\n", tok(x).c_str(), rawtok(sign(x)).c_str());
  EMIT("floor %s => %s\n", tok(x).c_str(), rawtok(floor(x)).c_str());
  EMIT("ceil %s => %s\n", tok(x).c_str(), rawtok(ceil(x)).c_str());
  EMIT("integer %s => %s\n", tok(x).c_str(), rawtok(integer(x)).c_str());
}
static void pow_ops(const Interval& x, int n) {
  EMIT("pow %s %d => %s\n", tok(x).c_str(), n, rawtok(pow(x, n)).c_str());
}
static void bin_ops(const Interval& x, const Interval& y) {
  EMIT("add %s %s => %s\n", tok(x).c_str(), tok(y).c_str(), rawtok(x + y).c_str());
  EMIT("sub %s %s => %s\n", tok(x).c_str(), tok(y).c_str(), rawtok(x - y).c_str());
  EMIT("mul %s %s => %s\n", tok(x).c_str(), tok(y).c_str(), rawtok(x * y).c_str());
  EMIT("div %s %s => %s\n", tok(x).c_str(), tok(y).c_str(), rawtok(x / y).c_str());
  EMIT("max %s %s => %s\n", tok(x).c_str(), tok(y).c_str(), rawtok(max(x, y)).c_str());
  EMIT("min %s %s => %s\n", tok(x).c_str(), tok(y).c_str(), rawtok(min(x, y)).c_str());
}
static string toklist(int n, const Interval& c1, const Interval& c2) {
  if (n == 0) return "-";
  if (n == 1) return tok(c1);
  return tok(c1) + ";" + tok(c2);
}
static void set_ops(const Interval& x, const Interval& y) {
  EMIT("inter %s %s => %s\n", tok(x).c_str(), tok(y).c_str(), tok(x & y).c_str());
  { Interval z(x); z &= y; EMIT("inter %s %s => %s\n", tok(x).c_str(), tok(y).c_str(), tok(z).c_str()); }
  EMIT("hull %s %s => %s\n", tok(x).c_str(), tok(y).c_str(), tok(x | y).c_str());
  EMIT("is_subset %s %s => %s\n", tok(x).c_str(), tok(y).c_str(), tok(x.is_subset(y)).c_str());
  EMIT("is_strict_subset %s %s => %s\n", tok(x).c_str(), tok(y).c_str(), tok(x.is_strict_subset(y)).c_str());
  EMIT("is_interior_subset %s %s => %s\n", tok(x).c_str(), tok(y).c_str(), tok(x.is_interior_subset(y)).c_str());
  EMIT("is_subset %s %s => %s\n", tok(y).c_str(), tok(x).c_str(), tok(x.is_superset(y)).c_str());
  EMIT("intersects %s %s => %s\n", tok(x).c_str(), tok(y).c_str(), tok(x.intersects(y)).c_str());
  EMIT("overlaps %s %s => %s\n", tok(x).c_str(), tok(y).c_str(), tok(x.overlaps(y)).c_str());
  EMIT("is_disjoint %s %s => %s\n", tok(x).c_str(), tok(y).c_str(), tok(x.is_disjoint(y)).c_str());
  { Interval c1, c2; int n = x.diff(y, c1, c2); EMIT("diff %s %s => %s\n", tok(x).c_str(), tok(y).c_str(), toklist(n, c1, c2).c_str()); }
}
static void set_un(const Interval& x, double d) {
  { Interval c1, c2; int n = x.complementary(c1, c2, false); EMIT("compl %s => %s\n", tok(x).c_str(), toklist(n, c1, c2).c_str()); }
  EMIT("contains %s %s => %s\n", tok(x).c_str(), hex(d).c_str(), tok(x.contains(d)).c_str());
}

int main(int argc, char** argv) {
  string wl = argc > 1 ? argv[1] : "c01";
  uint64_t seed = argc > 2 ? strtoull(argv[2], 0, 10) : 1;
  long n = argc > 3 ? atol(argv[3]) : 1000;
  bool full = argc > 4 && string(argv[4]) == "full";
  Rng r(seed * 7919 + 13);
  auto LI = lattice_itvs();
  if (wl == "c01") {
    for (auto& x : LI) { un_ops(x); for (int k = -7; k <= 7; k++) if (full || r.coin(20)) pow_ops(x, k); }
    // lattice pairs: exhaustive when full, sampled otherwise
    for (auto& x : LI) for (auto& y : LI) if (full || r.below(LI.size()) < 12) bin_ops(x, y);
    for (long i = 0; i < n; i++) {
      Interval x = rand_itv(r), y = rand_itv(r);
      un_ops(x); bin_ops(x, y); pow_ops(x, r.range(-9, 9));
      check_round_up("c01");
    }
  } else if (wl == "c16") {
    for (auto& x : LI) for (double d : lattice()) if (full || r.coin(10)) set_un(x, d);
    for (auto& x : LI) for (auto& y : LI) if (full || r.below(LI.size()) < 12) set_ops(x, y);
    for (long i = 0; i < n; i++) {
      Interval x = rand_itv(r), y = rand_itv(r);
      if (r.coin(30) && !x.is_empty()) { // make related intervals: share a bound
        y = r.coin() ? Interval(x.lb(), std::max(x.lb(), rand_double(r))) : Interval(std::min(x.ub(), rand_double(r)), x.ub());
        if (y.lb() == POS_INFINITY || y.ub() == NEG_INFINITY) y = x;
      }
      set_ops(x, y); set_un(x, r.coin() ? rand_double(r) : (x.is_empty() ? 0.0 : (r.coin() ? x.lb() : x.ub())));
    }
  } else { fprintf(stderr, "unknown workload\n"); return 2; }
  fprintf(stderr, "emitted %ld\n", emitted);
  return 0;
}
