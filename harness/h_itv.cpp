// Workloads for C01 (forward operators) and C16 (scalar set algebra).
#include "common.h"
#include "expr_io.h"
using namespace ibex; using namespace vh; using namespace std;

static long emitted = 0;
#define EMIT(...) do { printf(__VA_ARGS__); emitted++; } while (0)

static void un_ops(const Interval& x) {
  EMIT("neg %s => %s\n", tok(x).c_str(), rawtok(-x).c_str());
  EMIT("sqr %s => %s\n", tok(x).c_str(), rawtok(sqr(x)).c_str());
  EMIT("sqrt %s => %s\n", tok(x).c_str(), rawtok(sqrt(x)).c_str());
  EMIT("abs %s => %s\n", tok(x).c_str(), rawtok(abs(x)).c_str());
  EMIT("sign %s => %s\n", tok(x).c_str(), rawtok(sign(x)).c_str());
  EMIT("floor %s => %s\n", tok(x).c_str(), rawtok(floor(x)).c_str());
  EMIT("ceil %s => %s\n", tok(x).c_str(), rawtok(ceil(x)).c_str());
  EMIT("integer %s => %s\n", tok(x).c_str(), rawtok(integer(x)).c_str());
}
static void pow_ops(const Interval& x, int n) {
  EMIT("pow %s %d => %s\n", tok(x).c_str(), n, rawtok(pow(x, n)).c_str());
}
static void rm(const char* w) { if (fegetround() != FE_UPWARD) { EMIT("roundmode %s => 0\n", w); fesetround(FE_UPWARD); } }
static void extra_ops(Rng& r, const Interval& x, const Interval& y) {
  { Interval o1, o2; div2(x, y, o1, o2); rm("div2"); EMIT("div2 %s %s => %s %s\n", tok(x).c_str(), tok(y).c_str(), rawtok(o1).c_str(), rawtok(o2).c_str()); }
  { Interval o2, z(r.coin() ? Interval::all_reals() : rand_itv(r, 0)); Interval z0 = z; z.div2_inter(x, y, o2); rm("div2_inter");
    // div2_inter: z0 & (x/y), in two parts: each quotient piece met with z0 must be inside one of the two answers
    EMIT("div2i %s %s %s => %s %s\n", tok(x).c_str(), tok(y).c_str(), tok(z0).c_str(), rawtok(z).c_str(), rawtok(o2).c_str()); }
  // saw(p) = p - round(p), exact for |p| < 2^51; point rule on samples of x
  if (!x.is_empty()) {
    Interval s = saw(x); rm("saw");
    double pts[5] = {x.lb(), x.ub(), x.is_unbounded() ? 0.25 : x.mid(), std::nextafter(x.lb(), INFINITY), std::nextafter(x.ub(), -INFINITY)};
    double lo = 0, hi = 0, am = 0, aM = 0; bool any = false;
    for (double p : pts) { if (!(p == p) || !x.contains(p) || std::fabs(p) >= 2251799813685248.0) continue;
      // exact: p - rint(p) with ties to even, as documented (round to nearest integer)
      double rp = std::nearbyint(p); int old = fegetround(); fesetround(FE_TONEAREST); rp = std::nearbyint(p); fesetround(old);
      if (std::fabs(p - rp) == 0.5) continue; // the two conventions for halves: skipped
      double v = p - rp; if (!any) { any = true; lo = hi = v; am = aM = p; } else { if (v < lo) { lo = v; am = p; } if (v > hi) { hi = v; aM = p; } } }
    if (any) EMIT("encl saw %s %s %s %s:%s => %s\n", tok(x).c_str(), hex(am).c_str(), hex(aM).c_str(), hex(lo).c_str(), hex(hi).c_str(), rawtok(s).c_str());
    Interval c = chi(x, y, s); rm("chi");
    // chi(a,b,c) = b if a<=0, c otherwise: the result must contain b (if some a<=0) and c (if some a>0)
    Interval need = Interval::empty_set(); if (x.lb() <= 0) need |= y; if (x.ub() > 0) need |= s;
    if (!y.is_empty() && !s.is_empty()) EMIT("encl chi %s %s %s %s => %s\n", tok(x).c_str(), tok(y).c_str(), tok(s).c_str(), tok(need).c_str(), rawtok(c).c_str());
  }
}
static void bin_ops(const Interval& x, const Interval& y) {
  EMIT("add %s %s => %s\n", tok(x).c_str(), tok(y).c_str(), rawtok(x + y).c_str());
  EMIT("sub %s %s => %s\n", tok(x).c_str(), tok(y).c_str(), rawtok(x - y).c_str());
  EMIT("mul %s %s => %s\n", tok(x).c_str(), tok(y).c_str(), rawtok(x * y).c_str());
  EMIT("div %s %s => %s\n", tok(x).c_str(), tok(y).c_str(), rawtok(x / y).c_str());
  EMIT("max %s %s => %s\n", tok(x).c_str(), tok(y).c_str(), rawtok(max(x, y)).c_str());
  EMIT("min %s %s => %s\n", tok(x).c_str(), tok(y).c_str(), rawtok(min(x, y)).c_str());
}
static string toklist(int n, const Interval& c1, const Interval& c2) {
  if (n == 0) return "-";
  if (n == 1) return tok(c1);
  return tok(c1) + ";" + tok(c2);
}
static void set_ops(const Interval& x, const Interval& y) {
  EMIT("inter %s %s => %s\n", tok(x).c_str(), tok(y).c_str(), tok(x & y).c_str());
  { Interval z(x); z &= y; EMIT("inter %s %s => %s\n", tok(x).c_str(), tok(y).c_str(), tok(z).c_str()); }
  EMIT("hull %s %s => %s\n", tok(x).c_str(), tok(y).c_str(), tok(x | y).c_str());
  EMIT("is_subset %s %s => %s\n", tok(x).c_str(), tok(y).c_str(), tok(x.is_subset(y)).c_str());
  EMIT("is_strict_subset %s %s => %s\n", tok(x).c_str(), tok(y).c_str(), tok(x.is_strict_subset(y)).c_str());
  EMIT("is_interior_subset %s %s => %s\n", tok(x).c_str(), tok(y).c_str(), tok(x.is_interior_subset(y)).c_str());
  EMIT("is_strict_interior_subset %s %s => %s\n", tok(x).c_str(), tok(y).c_str(), tok(x.is_strict_interior_subset(y)).c_str());
  EMIT("is_relative_interior_subset %s %s => %s\n", tok(x).c_str(), tok(y).c_str(), tok(x.is_relative_interior_subset(y)).c_str());
  EMIT("is_strict_subset %s %s => %s\n", tok(y).c_str(), tok(x).c_str(), tok(x.is_strict_superset(y)).c_str());
  EMIT("is_subset %s %s => %s\n", tok(y).c_str(), tok(x).c_str(), tok(x.is_superset(y)).c_str());
  EMIT("intersects %s %s => %s\n", tok(x).c_str(), tok(y).c_str(), tok(x.intersects(y)).c_str());
  EMIT("overlaps %s %s => %s\n", tok(x).c_str(), tok(y).c_str(), tok(x.overlaps(y)).c_str());
  EMIT("is_disjoint %s %s => %s\n", tok(x).c_str(), tok(y).c_str(), tok(x.is_disjoint(y)).c_str());
  { Interval c1, c2; int n = x.diff(y, c1, c2); EMIT("diff %s %s => %s\n", tok(x).c_str(), tok(y).c_str(), toklist(n, c1, c2).c_str()); }
}
static void set_un(const Interval& x, double d) {
  { Interval c1, c2; int n = x.complementary(c1, c2, false); EMIT("compl %s => %s\n", tok(x).c_str(), toklist(n, c1, c2).c_str()); }
  EMIT("contains %s %s => %s\n", tok(x).c_str(), hex(d).c_str(), tok(x.contains(d)).c_str());
}

static string tokboxes(int n, IntervalVector* res) {
  string s; int k = 0;
  for (int i = 0; i < n; i++) { if (res[i].is_empty()) continue; if (k++) s += "|"; s += tok(res[i]); }
  return k ? s : "-";
}
static IntervalVector related_box(Rng& r, const IntervalVector& x) {
  IntervalVector y(x.size());
  if (x.is_empty()) return rand_box(r, x.size());
  for (int i = 0; i < x.size(); i++) {
    switch (r.below(7)) {
      case 0: y[i] = x[i]; break;
      case 1: y[i] = Interval(x[i].lb(), x[i].lb()); break;
      case 2: y[i] = Interval(x[i].ub(), x[i].ub()); break;
      case 3: y[i] = x[i].is_unbounded() ? x[i] : Interval(x[i].mid(), x[i].ub()); break;
      case 4: y[i] = Interval(x[i].ub(), std::max(x[i].ub(), rand_double(r))); break;
      case 5: y[i] = Interval::all_reals(); break;
      default: do { y[i] = rand_itv(r, 0); } while (y[i].is_empty());
    }
    if (y[i].is_empty() || y[i].lb() == POS_INFINITY || y[i].ub() == NEG_INFINITY) y[i] = x[i];
  }
  return y;
}
static void box_ops(const IntervalVector& x, const IntervalVector& y) {
  const char* X = 0; string sx = tok(x), sy = tok(y); (void)X;
  EMIT("vinter %s %s => %s\n", sx.c_str(), sy.c_str(), tok(x & y).c_str());
  EMIT("vhull %s %s => %s\n", sx.c_str(), sy.c_str(), tok(x | y).c_str());
  EMIT("vis_subset %s %s => %s\n", sx.c_str(), sy.c_str(), tok(x.is_subset(y)).c_str());
  EMIT("vis_strict_subset %s %s => %s\n", sx.c_str(), sy.c_str(), tok(x.is_strict_subset(y)).c_str());
  EMIT("vis_interior_subset %s %s => %s\n", sx.c_str(), sy.c_str(), tok(x.is_interior_subset(y)).c_str());
  EMIT("vis_strict_interior_subset %s %s => %s\n", sx.c_str(), sy.c_str(), tok(x.is_strict_interior_subset(y)).c_str());
  EMIT("vis_relative_interior_subset %s %s => %s\n", sx.c_str(), sy.c_str(), tok(x.is_relative_interior_subset(y)).c_str());
  EMIT("vis_strict_subset %s %s => %s\n", sy.c_str(), sx.c_str(), tok(x.is_strict_superset(y)).c_str());
  EMIT("vintersects %s %s => %s\n", sx.c_str(), sy.c_str(), tok(x.intersects(y)).c_str());
  EMIT("voverlaps %s %s => %s\n", sx.c_str(), sy.c_str(), tok(x.overlaps(y)).c_str());
  EMIT("vis_disjoint %s %s => %s\n", sx.c_str(), sy.c_str(), tok(x.is_disjoint(y)).c_str());
  { IntervalVector* res; int n = x.diff(y, res); EMIT("vdiff %s %s => %s\n", sx.c_str(), sy.c_str(), tokboxes(n, res).c_str()); delete[] res; }
  if (x.size() <= 3) { IntervalVector* res; int n = x.diff(y, res, false); EMIT("vdiffnc %s %s => %s\n", sx.c_str(), sy.c_str(), tokboxes(n, res).c_str()); delete[] res; }     // compactness = false: flat pieces are kept
  if (!y.is_empty()) { IntervalVector* res; int n = y.complementary(res); EMIT("vcompl %s => %s\n", sy.c_str(), tokboxes(n, res).c_str()); delete[] res; }
  EMIT("cart_prod %s %s => %s\n", sx.c_str(), sy.c_str(), tok(cart_prod(x, y)).c_str());
}
static void bisect_ops(Rng& r, const Interval& x) {
  EMIT("is_bisectable %s => %s\n", tok(x).c_str(), tok(x.is_bisectable()).c_str());
  if (!x.is_bisectable()) return;
  static const double ratios[] = {0.5, 0.45, 0.1, 0.9, 0.999999999, 1e-9, 0.3, 0.75, 1e-300, 0.9999999999999999};
  for (double ratio : ratios) { if (!r.coin(40)) continue;
    pair<Interval, Interval> p = x.bisect(ratio);
    EMIT("bisect %s %s => %s %s\n", tok(x).c_str(), hex(ratio).c_str(), tok(p.first).c_str(), tok(p.second).c_str()); }
}
static void vbisect_ops(Rng& r, const IntervalVector& x) {
  if (x.is_empty()) return;
  int i = r.below(x.size());
  if (!x[i].is_bisectable()) return;
  double ratio = r.coin() ? 0.5 : (r.coin() ? 0.45 : (1 + r.below(98)) / 100.0);
  pair<IntervalVector, IntervalVector> p = x.bisect(i, ratio);
  EMIT("vbisect %s %d %s => %s %s\n", tok(x).c_str(), i, hex(ratio).c_str(), tok(p.first).c_str(), tok(p.second).c_str());
}
static string tokvec(const Vector& v) { string s; for (int i = 0; i < v.size(); i++) { if (i) s += ";"; s += hex(v[i]); } return s; }
static void bsc_ops(Rng& r, const IntervalVector& x) {
  if (x.is_empty()) return;
  int n = x.size();
  Vector prec(n);
  bool uniform = r.coin(40);
  double p0 = r.coin(30) ? 0.0 : std::ldexp(1.0, r.range(-40, 12));
  for (int i = 0; i < n; i++) prec[i] = uniform ? p0 : (r.coin(20) ? 0.0 : (r.coin(30) ? x[i].diam() : std::ldexp(1.0, r.range(-40, 12))));
  for (int i = 0; i < n; i++) if (!(prec[i] == prec[i]) || prec[i] == POS_INFINITY) prec[i] = 1.0;
  for (int cls = 0; cls < 2; cls++) {
    Bsc* b = cls == 0 ? (Bsc*)new LargestFirst(prec, 0.45) : (Bsc*)new RoundRobin(prec, 0.45);
    string res;
    Cell c(x);
    b->add_property(x, c.prop);
    int calls = cls == 1 ? 3 : 1; // RoundRobin: successive calls move the last variable
    for (int k = 0; k < calls; k++) {
      try { BisectionPoint bp = b->choose_var(c); res = to_string(bp.var);
            if (cls == 1) c.bisected_var = bp.var; }
      catch (NoBisectableVariableException&) { res = "none"; }
      EMIT("bsc %s %s %s => %s\n", cls == 0 ? "LargestFirst" : "RoundRobin", tok(x).c_str(), tokvec(prec).c_str(), res.c_str());
    }
    // the public entry point: bisect(box) must split the chosen variable into a strict cover
    try { pair<IntervalVector, IntervalVector> p = b->bisect(x);
          int var = -1; for (int i = 0; i < n; i++) if (p.first[i] != x[i]) { var = i; break; }
          if (var >= 0) { EMIT("vbisect %s %d %s => %s %s\n", tok(x).c_str(), var, hex(0.45).c_str(), tok(p.first).c_str(), tok(p.second).c_str());
                          EMIT("bsc %s %s %s => %d\n", cls == 0 ? "LargestFirst.bisect" : "RoundRobin.bisect", tok(x).c_str(), tokvec(prec).c_str(), var); }
          else EMIT("vbisect %s 0 %s => %s %s\n", tok(x).c_str(), hex(0.45).c_str(), tok(p.first).c_str(), tok(p.second).c_str());
    } catch (NoBisectableVariableException&) { EMIT("bsc %s %s %s => none\n", cls == 0 ? "LargestFirst.bisect" : "RoundRobin.bisect", tok(x).c_str(), tokvec(prec).c_str()); }
    delete b;
  }
}

int main(int argc, char** argv) {
  string wl = argc > 1 ? argv[1] : "c01";
  uint64_t seed = argc > 2 ? strtoull(argv[2], 0, 10) : 1;
  long n = argc > 3 ? atol(argv[3]) : 1000;
  bool full = argc > 4 && string(argv[4]) == "full";
  Rng r(seed * 7919 + 13);
  auto LI = lattice_itvs();
  if (wl == "c01") {
    for (auto& x : LI) { un_ops(x); for (int k = -7; k <= 7; k++) if (full || r.coin(20)) pow_ops(x, k); }
    // lattice pairs: exhaustive when full, sampled otherwise
    for (auto& x : LI) for (auto& y : LI) if (full || r.below(LI.size()) < 12) { bin_ops(x, y); rm("binary-lattice"); extra_ops(r, x, y); }
    for (long i = 0; i < n; i++) {
      Interval x = rand_itv(r), y = rand_itv(r);
      un_ops(x); rm("unary"); bin_ops(x, y); rm("binary"); pow_ops(x, r.range(-9, 9)); rm("pow");
      extra_ops(r, x, y);
      // degenerate and integer-valued arguments (special paths)
      { double c = r.range(-12, 12) / 4.0; Interval pt(c); extra_ops(r, pt, y); un_ops(pt); rm("unary-point"); bin_ops(pt, y); rm("binary-point"); }
    }
  } else if (wl == "c16") {
    for (auto& x : LI) for (double d : lattice()) if (full || r.coin(10)) set_un(x, d);
    for (auto& x : LI) for (auto& y : LI) if (full || r.below(LI.size()) < 12) set_ops(x, y);
    for (long i = 0; i < n; i++) {
      Interval x = rand_itv(r), y = rand_itv(r);
      if (r.coin(30) && !x.is_empty()) { // make related intervals: share a bound
        y = r.coin() ? Interval(x.lb(), std::max(x.lb(), rand_double(r))) : Interval(std::min(x.ub(), rand_double(r)), x.ub());
        if (y.lb() == POS_INFINITY || y.ub() == NEG_INFINITY) y = x;
      }
      set_ops(x, y); set_un(x, r.coin() ? rand_double(r) : (x.is_empty() ? 0.0 : (r.coin() ? x.lb() : x.ub())));
    }
  } else if (wl == "c16box") {
    for (auto& x : LI) if (full || r.coin(25)) bisect_ops(r, x);
    for (long i = 0; i < n; i++) {
      int d = 1 + r.below(4);
      IntervalVector x = rand_box(r, d), y = r.coin(60) ? related_box(r, x) : rand_box(r, d);
      box_ops(x, y); vbisect_ops(r, x); bsc_ops(r, x);
      // narrow boxes for the bisector precision logic
      IntervalVector w(d); for (int k = 0; k < d; k++) { double a = rand_double(r); if (!(fabs(a) < 1e300)) a = 1.0; double wd = r.coin(30) ? 0 : std::ldexp(1.0, r.range(-45, 5)); w[k] = Interval(a, a + wd); }
      bsc_ops(r, w);
      bisect_ops(r, rand_itv(r));
    }
  } else if (wl == "c01vec") {
    // IntervalVector / IntervalMatrix operators (no empty operand: covered by the scalar workload)
    auto ritv = [&]() { Interval x; do { x = (r.coin(70)) ? Interval(r.range(-40, 40) / 8.0).inflate(r.coin(30) ? 0 : r.range(0, 24) / 8.0) : rand_itv(r); } while (x.is_empty()); return x; };
    auto rvec = [&](int n) { IntervalVector v(n); for (int i = 0; i < n; i++) v[i] = ritv(); return v; };
    auto rmat = [&](int a, int b) { IntervalMatrix m(a, b); for (int i = 0; i < a; i++) for (int j = 0; j < b; j++) m[i][j] = ritv(); return m; };
    auto mid_vec = [&](const IntervalVector& v) { Vector p(v.size()); for (int i = 0; i < v.size(); i++) { double c = v[i].is_unbounded() ? (v[i].lb() == NEG_INFINITY ? (v[i].ub() == POS_INFINITY ? 0.0 : v[i].ub()) : v[i].lb()) : v[i].mid(); p[i] = c; } return p; };
    auto mid_mat = [&](const IntervalMatrix& m) { Matrix p(m.nb_rows(), m.nb_cols()); for (int i = 0; i < m.nb_rows(); i++) p.set_row(i, mid_vec(m.row(i))); return p; };
    for (long i = 0; i < n; i++) {
      int a = r.range(1, 4), b = r.range(1, 4), c = r.range(1, 4);
      IntervalVector x = rvec(b), y = rvec(b), z = rvec(a); IntervalMatrix A = rmat(a, b), B = rmat(b, c), C = rmat(a, b); Interval s = ritv();
      string xs = vh::mtok(x), ys = vh::mtok(y), xr = vh::mtok(x, true), zs = vh::mtok(z), zr = vh::mtok(z, true), As = vh::mtok(A), Bs = vh::mtok(B), Cs = vh::mtok(C), ss = vh::mtok(s);
      EMIT("vecop add %s %s => %s\n", xs.c_str(), ys.c_str(), vh::mtok(x + y).c_str()); rm("vec+");
      EMIT("vecop sub %s %s => %s\n", xs.c_str(), ys.c_str(), vh::mtok(x - y).c_str()); rm("vec-");
      EMIT("vecop neg %s - => %s\n", xs.c_str(), vh::mtok(-x).c_str());
      EMIT("vecop scale %s %s => %s\n", ss.c_str(), xs.c_str(), vh::mtok(s * x).c_str()); rm("s*vec");
      EMIT("vecop mul %s %s => %s\n", xr.c_str(), ys.c_str(), vh::mtok(x * y).c_str()); rm("dot");
      EMIT("vecop had %s %s => %s\n", xs.c_str(), ys.c_str(), vh::mtok(hadamard_product(x, y)).c_str());
      EMIT("vecop mul %s %s => %s\n", zs.c_str(), xr.c_str(), vh::mtok(outer_product(z, x)).c_str()); rm("outer");
      EMIT("vecop add %s %s => %s\n", As.c_str(), Cs.c_str(), vh::mtok(A + C).c_str());
      EMIT("vecop sub %s %s => %s\n", As.c_str(), Cs.c_str(), vh::mtok(A - C).c_str());
      EMIT("vecop neg %s - => %s\n", As.c_str(), vh::mtok(-A).c_str());
      EMIT("vecop scale %s %s => %s\n", ss.c_str(), As.c_str(), vh::mtok(s * A).c_str()); rm("s*mat");
      EMIT("vecop mul %s %s => %s\n", As.c_str(), xs.c_str(), vh::mtok(A * x).c_str()); rm("mat*vec");
      EMIT("vecop mul %s %s => %s\n", zr.c_str(), As.c_str(), vh::mtok(z * A, true).c_str()); rm("vec*mat");
      EMIT("vecop mul %s %s => %s\n", As.c_str(), Bs.c_str(), vh::mtok(A * B).c_str()); rm("mat*mat");
      EMIT("vecop trans %s - => %s\n", As.c_str(), vh::mtok(A.transpose()).c_str());
      // mixed real / interval operands
      { Vector xm = mid_vec(x); Matrix Am = mid_mat(A); double sm = s.is_unbounded() ? 1.5 : s.mid();
        string xms = vh::mtok(IntervalVector(xm)), xmr = vh::mtok(IntervalVector(xm), true), Ams = vh::mtok(IntervalMatrix(Am)), sms = vh::mtok(Interval(sm));
        EMIT("vecop mul %s %s => %s\n", xmr.c_str(), ys.c_str(), vh::mtok(xm * y).c_str());
        EMIT("vecop mul %s %s => %s\n", xr.c_str(), vh::mtok(IntervalVector(mid_vec(y))).c_str(), vh::mtok(x * mid_vec(y)).c_str());
        EMIT("vecop mul %s %s => %s\n", Ams.c_str(), xs.c_str(), vh::mtok(Am * x).c_str());
        EMIT("vecop mul %s %s => %s\n", As.c_str(), xms.c_str(), vh::mtok(A * xm).c_str());
        EMIT("vecop mul %s %s => %s\n", Ams.c_str(), Bs.c_str(), vh::mtok(Am * B).c_str());
        EMIT("vecop mul %s %s => %s\n", As.c_str(), vh::mtok(IntervalMatrix(mid_mat(B))).c_str(), vh::mtok(A * mid_mat(B)).c_str());
        EMIT("vecop scale %s %s => %s\n", sms.c_str(), xs.c_str(), vh::mtok(sm * x).c_str());
        EMIT("vecop scale %s %s => %s\n", sms.c_str(), As.c_str(), vh::mtok(sm * A).c_str());
        EMIT("vecop add %s %s => %s\n", xms.c_str(), ys.c_str(), vh::mtok(xm + y).c_str());
        EMIT("vecop sub %s %s => %s\n", xs.c_str(), vh::mtok(IntervalVector(mid_vec(y))).c_str(), vh::mtok(x - mid_vec(y)).c_str());
        rm("mixed"); }
      // in-place variants
      { IntervalVector t = x; t += y; EMIT("vecop add %s %s => %s\n", xs.c_str(), ys.c_str(), vh::mtok(t).c_str()); t = x; t -= y; EMIT("vecop sub %s %s => %s\n", xs.c_str(), ys.c_str(), vh::mtok(t).c_str());
        t = x; t *= s; EMIT("vecop scale %s %s => %s\n", ss.c_str(), xs.c_str(), vh::mtok(t).c_str());
        IntervalMatrix T = A; T += C; EMIT("vecop add %s %s => %s\n", As.c_str(), Cs.c_str(), vh::mtok(T).c_str()); T = A; T -= C; EMIT("vecop sub %s %s => %s\n", As.c_str(), Cs.c_str(), vh::mtok(T).c_str());
        T = A; T *= s; EMIT("vecop scale %s %s => %s\n", ss.c_str(), As.c_str(), vh::mtok(T).c_str());
        if (b == c) { T = A; T *= B; EMIT("vecop mul %s %s => %s\n", As.c_str(), Bs.c_str(), vh::mtok(T).c_str()); }
        rm("in-place"); }
      // in-place variants whose right operand is the object itself (aliasing)
      { IntervalVector t = x; t += t; EMIT("vecop add %s %s => %s\n", xs.c_str(), xs.c_str(), vh::mtok(t).c_str()); t = x; t -= t; EMIT("vecop sub %s %s => %s\n", xs.c_str(), xs.c_str(), vh::mtok(t).c_str());
        IntervalMatrix T = A; T += T; EMIT("vecop add %s %s => %s\n", As.c_str(), As.c_str(), vh::mtok(T).c_str()); T = A; T -= T; EMIT("vecop sub %s %s => %s\n", As.c_str(), As.c_str(), vh::mtok(T).c_str());
        IntervalMatrix S = rmat(a, a); string Ss = vh::mtok(S); IntervalMatrix U = S; U *= U; EMIT("vecop mul %s %s => %s\n", Ss.c_str(), Ss.c_str(), vh::mtok(U).c_str());
        U = S; U *= U; U *= U; { IntervalMatrix S2 = S * S; EMIT("vecop mul %s %s => %s\n", vh::mtok(S2).c_str(), vh::mtok(S2).c_str(), vh::mtok(U).c_str()); }
        Interval q = s; q *= q; EMIT("vecop mul %s %s => %s\n", ss.c_str(), ss.c_str(), vh::mtok(q).c_str()); q = s; q += q; EMIT("vecop add %s %s => %s\n", ss.c_str(), ss.c_str(), vh::mtok(q).c_str());
        q = s; q -= q; EMIT("vecop sub %s %s => %s\n", ss.c_str(), ss.c_str(), vh::mtok(q).c_str());
        { IntervalVector t2 = x; int ci = r.below(b); Interval sc = x[ci]; t2 *= t2[ci]; EMIT("vecop scale %s %s => %s\n", vh::mtok(sc).c_str(), xs.c_str(), vh::mtok(t2).c_str());       // the scalar is a component of the vector itself
          IntervalMatrix T2 = A; int ri = r.below(a), cj = r.below(b); Interval sm2 = A[ri][cj]; T2 *= T2[ri][cj]; EMIT("vecop scale %s %s => %s\n", vh::mtok(sm2).c_str(), As.c_str(), vh::mtok(T2).c_str()); }
        rm("in-place-aliased"); }
    }
  } else { fprintf(stderr, "unknown workload\n"); return 2; }
  fprintf(stderr, "emitted %ld\n", emitted);
  return 0;
}
