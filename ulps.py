import struct
def ordd(h):
    b = int(h, 16)
    if b >= 1 << 63:
        return -(b - (1 << 63))
    return b
def itv(tok):
    if tok == "E": return None
    l, h = tok.split(":")
    return ordd(l), ordd(h)
def excess_ulps(line):
    """for an `encl` line: by how many floats the oracle hull sticks out of the implementation's result (None if not applicable)"""
    try:
        lhs, rhs = line.split(" => ")
        o = itv(lhs.split(" ")[-1]); z = itv(rhs.strip())
        if o is None or z is None: return None
        return max(z[0] - o[0], o[1] - z[1])
    except Exception:
        return None
