"""PROPS["C15"] — interval linear algebra encloses every real instance; certificates are sound.

Merge into props.py with:   from props_C15 import ENTRY as _C15; PROPS["C15"] = _C15
"""

_NONTRIVIAL_PREFIX = (
    "ok all-kept-contracted", "ok all-kept-emptied", "ok planted-kept-contracted", "ok all-kept planted", "ok planted-kept",
    "ok all-kept(C)", "ok planted-enclosed", "ok inverses-enclosed", "ok all-instances(vertices",
    "ok sampled instances", "ok LU-encloses", "ok all-instances-regular", "ok all-instances-full-rank", "ok sampled-full-rank",
    "ok certified-dominant", "ok all-instances-positive-definite", "ok sampled-positive-definite",
    "ok exc-singular", "ok exc-Singular", "ok exc-NotInversePositive",
)


def _nontrivial(line, verdict):
    return verdict.startswith(_NONTRIVIAL_PREFIX)


def _workloads(tier, seed):
    q = tier == "quick"
    full = [] if q else ["full"]          # full: matrices up to 6x6 (quick: up to 4x4)
    k = 1 if q else 8
    w = [
        ("gs", 1500),      # gauss_seidel: square and rectangular systems, planted solutions, model comparison
        ("igs", 1500),     # inflating_gauss_seidel
        ("pre", 900),      # precond(A,b), precond(A)
        ("hb", 1200),      # hansen_bliek
        ("inv", 700),      # neumaier_inverse, precond_rohn_inverse
        ("det", 700),      # det, interval_LU (partial / full pivoting), full_rank, real_LU
        ("cert", 700 if q else 400),     # is_diagonal_dominant, is_posdef_sylvester, is_posdef_rohn
    ]
    return [{"harness": "h_linalg", "tag": wl, "args": [wl, seed, n * k] + full} for wl, n in w]


ENTRY = {
    "modules": ["IbexProofs.Props.C15"],
    "harnesses": ["h_linalg"],
    "workloads": _workloads,
    "nontrivial": _nontrivial,
    "rule": "random interval matrices 1x1..4x4 (thorough: ..6x6), square and rectangular (Gauss-Seidel, LU, full_rank), of 10 kinds "
            "(dyadic centre with mixed radii, diagonally dominant incl. borderline, singular centre thin/thick, Hilbert-like, "
            "zero-straddling diagonal, identity+Delta, wild magnitudes / infinite bounds, near-singular, symmetric B*B^T+eps, row-scaled "
            "2^-40..2^40); linear systems carry 1-6 PLANTED real instances (A_k in [A] at bounds/midpoint/vertices/inside, dyadic x_k, "
            "[b] := hull of the exact A_k x_k, exact or inflated, [x] around the x_k incl. unbounded); stopping ratios 0.001..2; "
            "matrix routines carry sampled instances (lb, ub, mid, random vertices, interior points; Rohn's 2^(n-1) vertex matrices for "
            "the definiteness tests). Non-trivial = a contracted/emptied box, an accepted enclosure or certificate, or a documented "
            "exception; distinct = distinct lines",
    "assumptions": [
        "correspondence is sampled: the theorems hold for the outputs that the driver accepts; outputs of runs not generated are not covered",
        "gauss_seidel: every result is compared with the Lean model run to a fixed point ('all-kept': the theorem gs_accept then covers ALL "
        "real instances and ALL solutions in the box); results of runs whose model does not become stationary within 40 sweeps are only "
        "checked on the planted solutions",
        "precond: the preconditioning matrix C is recomputed by the harness with the library's own rule (real_inverse of mid, lb, ub); when "
        "the result encloses the model products C*[A], C*[b] precond_accept covers all instances; otherwise only the planted solutions are "
        "decided (exact Oettli-Prager test)",
        "inflating_gauss_seidel: the result is accepted for ALL instances when it contains the model's iterate after some k <= 400 sweeps "
        "(inflating_gs_accept), otherwise only the planted solutions are decided",
        "hansen_bliek, neumaier_inverse, precond_rohn_inverse, interval_LU: decided on the planted / sampled real instances only (exact "
        "rational solution, exact inverse, exact LU replay with the implementation's pivot order)",
        "det: decided for ALL instances by vertex enumeration when at most 9 entries are non-degenerate (det_vertices_sound), otherwise on "
        "sampled instances; full_rank = true: certified for ALL instances by same-sign vertex determinants or by ||I - C[A]|| < 1 on the "
        "matrix or on a square sub-matrix (rectangular case), otherwise sampled (exact rank, verified kernel witness); is_posdef_* = true: "
        "certified for ALL instances by an exact L*D*L^T certificate of A_c - (mu+eps)I (posdef_certificate) when one is found, otherwise "
        "sampled symmetric instances incl. Rohn's vertex matrices (exact Sylvester criterion, verified witness v^T A v <= 0)",
        "positive definiteness is understood for the symmetric real matrices of a symmetric interval matrix",
        "precond_rohn_inverse is exercised on its documented domain (midpoint exactly the identity); inflating_gauss_seidel with mu_max <= 1 "
        "(with mu_max > 1 the routine may loop forever on a constant distance between iterates); ratio > 0; bounded matrices for the "
        "routines that take midpoints",
        "not covered: real_LU / real_inverse accuracy (approximate by design; only the permutation and the documented exception are checked), "
        "kernel / gram_schmidt (ibex_Kernel.cpp: floating-point, no enclosure claimed), the LU-based enclosures for ALL instances (lu_encl of the "
        "design is not proved), is_posdef_rohn for n = 1 (the routine writes v[1] of a 1-vector: see report)",
    ],
    "trusted": ["exact rational arithmetic of the driver glue (Driver/OpsLinAlg.lean: parsing, selection of valid planted instances, LU replay "
                "`Lin.luReplay`, Gauss-Jordan `Lin.rref` used only to FIND kernel witnesses that are then verified)",
                "printing of doubles as hex bit patterns is injective"],
    "technique": "Lean 4 proofs (Gauss-Seidel / inflating / preconditioning models keep every solution, by induction over rows, sweeps and "
                 "sizes; exact checkers: Oettli-Prager, diagonal dominance, determinant = Matrix.det, multi-affine vertex theorem, inverse / "
                 "kernel / quadratic-form certificates) + verified checkers run on the outputs of the real C++ routines + exact planted "
                 "instances",
    "level_text": "Kernel-checked: (a) the model of ibex's Gauss-Seidel (row loop with the r % n rule, relational division, outward rounding) "
                  "keeps every solution of every real instance for any number of sweeps and any shape (gs_row_sound, gauss_seidel_sound); an "
                  "implementation box containing the model's box keeps them all (gs_accept); same for the inflating variant; C*a*x = C*b for "
                  "ANY real C and acceptance of a preconditioned pair (precond_sound, precond_accept); the point rules are exact "
                  "(planted_violation, sigma_reject_sound). (b) exact diagonal-dominance test => every instance strictly diagonally dominant and "
                  "regular (diag_dominant_sound, diag_dominant_regular via Gershgorin); same-sign vertex determinants => every instance regular "
                  "(det_vertices_regular), ||I - C[A]||_inf < 1 => every instance regular (strong_regularity_certificate), also through a square "
                  "sub-matrix for rectangular matrices; exact L*D*L^T certificate => every instance positive definite (posdef_certificate); "
                  "kernel / quadratic-form witnesses are genuine. (c) the executable determinant IS Matrix.det "
                  "(detQ_eq_det, all sizes); an interval containing the vertex determinants contains the determinant of every real instance "
                  "(det_vertices_sound); the inverse compared with the enclosure satisfies A*B = 1 (inverse_certificate).",
    "level_note": "Trusted: Lean kernel + Mathlib, axioms propext/Classical.choice/Quot.sound; harness, line protocol, driver glue; the "
                  "correspondence is sampled. Genuine defects found on the pinned tree: hansen_bliek does not precondition (reads only the lower "
                  "bounds of A-I) and computes in plain floating point: solutions excluded grossly for a matrix not centred on I and by ulps "
                  "otherwise; precond_rohn_inverse computes its bounds in plain floating point (inverse of A=[0.5,1.5] excludes 1/1.5); "
                  "is_posdef_rohn writes out of bounds for n=1; inflating_gauss_seidel can loop forever for mu_max>1.",
}
