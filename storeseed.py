#!/usr/bin/env python3
"""storeseed.py <src seed dir> <dest id e.g. C05-1> <seedtest result json>: copy a confirmed seed into /verif/seeded/<id>/ with detection info"""
import sys, json, os, shutil
src, sid, res = sys.argv[1], sys.argv[2], sys.argv[3]
dst = os.path.join("/verif/seeded", sid); os.makedirs(dst, exist_ok=True)
for f in os.listdir(src):
    if os.path.isfile(os.path.join(src, f)) and os.path.getsize(os.path.join(src, f)) < 400000: shutil.copy(os.path.join(src, f), dst)
t = open(res).read(); d = json.loads(t[t.index("{"):])
m = json.load(open(os.path.join(dst, "meta.json")))
m["confirmed"] = {k: d[k] for k in ("applies", "tests_pass_with_patch", "demo_with_patch", "demo_without_patch")}
m["detected_by"] = {p: {"exit": c["exit"], "violations": c["violations"], "first": c["first"][:300]} for p, c in d["checks"].items()}
json.dump(m, open(os.path.join(dst, "meta.json"), "w"), indent=1)
print(sid, m["confirmed"], {p: c["violations"] for p, c in d["checks"].items()})
