#!/usr/bin/env python3
"""Development tool (not a check): which functions of a property's anchor files do the quick-tier workloads execute?

   python3 tools/coverage.py [Cxx ...]            (default: all claimed properties)

Builds /repo with --coverage in a scratch directory (COV_BUILD, default /tmp/verif_cov: remove it afterwards), compiles the
harnesses against it, runs every quick-tier workload of the property (seed 1, counts divided by COV_DIV, default 4) and
reports, per anchor file, the functions that were never executed and the line coverage.  Output: coverage/<id>.txt
A mutation in code that no workload executes cannot be detected: the report drives the extension of the generators."""
import sys, os, json, subprocess, re, glob, gzip
ROOT = os.path.dirname(os.path.dirname(os.path.abspath(__file__)))
sys.path.insert(0, ROOT)
from props import PROPS
REPO = os.environ.get("VERIF_REPO", "/repo")
B = os.environ.get("COV_BUILD", "/tmp/verif_cov")
IB = os.path.join(B, "ibex")
DIV = int(os.environ.get("COV_DIV", "4"))

def sh(cmd, **kw):
    p = subprocess.run(cmd, shell=isinstance(cmd, str), stdout=subprocess.PIPE, stderr=subprocess.STDOUT, text=True, **kw)
    return p.returncode, p.stdout

def build():
    os.makedirs(B, exist_ok=True)
    if not os.path.exists(os.path.join(IB, "build.ninja")):
        rc, out = sh(["cmake", "-G", "Ninja", "-S", REPO, "-B", IB, "-DCMAKE_BUILD_TYPE=Release",
                      "-DCMAKE_CXX_FLAGS=-Wno-error -DIBEX_VERIF_HOOKS --coverage -fno-inline -O1", "-DINTERVAL_LIB=gaol", "-DLP_LIB=none"])
        if rc: sys.exit(out[-2000:])
    rc, out = sh(["ninja", "-C", IB, "ibex"])
    if rc: sys.exit(out[-3000:])

def includes():
    txt = open(os.path.join(IB, "build.ninja")).read()
    m = re.search(r"ibex_Interval\.cpp\.o:.*?\n((?:  .*\n)+)", txt)
    return re.search(r"INCLUDES = (.*)", m.group(1)).group(1).split()

def libs():
    g = os.path.join(IB, "interval_lib_wrapper", "gaol")
    return [os.path.join(IB, "src", "libibex.a"), os.path.join(g, "gaol-4.2.3alpha0-build", "libgaol.a"),
            os.path.join(g, "mathlib-2.1.1-build", "libultim.a"), "-lmpfr", "-lgmp", "-ldl"]

def harness(name):
    out = os.path.join(B, name); src = os.path.join(ROOT, "harness", name + ".cpp")
    if os.path.exists(out) and os.path.getmtime(out) >= os.path.getmtime(src): return out
    cmd = ["g++", "-O1", "-std=gnu++11", "-msse3", "-frounding-math", "-DIBEX_VERIF_HOOKS", "-w", "--coverage", "-fno-inline", "-DVERIF_COVERAGE"] + includes() + \
          ["-I" + os.path.join(ROOT, "harness"), src, "-o", out] + libs()
    rc, o = sh(cmd, cwd=B)
    if rc: sys.exit(o[-2000:])
    return out

def reset():
    for f in glob.glob(os.path.join(B, "**", "*.gcda"), recursive=True): os.remove(f)

def gcov_file(srcrel):
    """functions and lines of one source file, merged over every object that compiled it (headers: all objects of the library)"""
    base = os.path.basename(srcrel)
    funcs, lines = {}, {}
    if srcrel.endswith((".cpp", ".l", ".yc")):
        stem = {"lexer.l": "lexer.lex", "parser.yc": "parser.tab"}.get(base, base[:-4])
        objs = glob.glob(os.path.join(IB, "**", stem + ".c*.gcda"), recursive=True)
    else:
        objs = glob.glob(os.path.join(B, "**", "*.gcda"), recursive=True)
    for gc in objs:
        rc, out = sh(["gcov", "--json-format", "--stdout", "-o", os.path.dirname(gc), gc], cwd=os.path.dirname(gc))
        if rc: continue
        for doc in out.splitlines():
            try: j = json.loads(doc)
            except Exception: continue
            for f in j.get("files", []):
                if os.path.basename(f["file"]) != base: continue
                for fn in f.get("functions", []):
                    k = (fn["demangled_name"], fn["start_line"])
                    funcs[k] = funcs.get(k, 0) + fn["execution_count"]
                for ln in f.get("lines", []):
                    lines[ln["line_number"]] = lines.get(ln["line_number"], 0) + ln["count"]
    return funcs, lines

def main():
    ids = sys.argv[1:] or sorted(PROPS)
    build()
    anchors = {}
    for l in open(os.path.join(ROOT, "properties.jsonl")):
        j = json.loads(l); anchors[j["id"]] = j["anchors"]["files"]
    os.makedirs(os.path.join(ROOT, "coverage"), exist_ok=True)
    for pid in ids:
        reset()
        for w in PROPS[pid]["workloads"]("quick", 1):
            args = [str(a) for a in w["args"]]
            if len(args) >= 3 and args[2].isdigit(): args[2] = str(max(10, int(args[2]) // DIV))
            env = dict(os.environ, VERIF_TMP=os.path.join(B, "runs"))
            subprocess.run([harness(w["harness"])] + args, cwd=ROOT, stdout=subprocess.DEVNULL, stderr=subprocess.DEVNULL, env=env, timeout=3600)
        rep = []
        for a in anchors[pid]:
            if not a.endswith((".cpp", ".h", ".inl", ".l", ".yc")): continue
            funcs, lines = gcov_file(a)
            if not funcs and not lines: rep.append("%s: no coverage data (not compiled in this configuration, or header without code)" % a); continue
            tot = len(lines); hit = sum(1 for c in lines.values() if c > 0)
            never = sorted((s, n) for (n, s), c in funcs.items() if c == 0)
            rep.append("%s: lines %d/%d (%.0f%%), functions never executed %d/%d" % (a, hit, tot, 100.0 * hit / max(1, tot), len(never), len(funcs)))
            for s, n in never: rep.append("    never: line %d  %s" % (s, n[:160]))
            # uncovered line ranges (length >= 4) inside executed functions
            un = sorted(l for l, c in lines.items() if c == 0); runs = [];
            for l in un:
                if runs and l - runs[-1][1] <= 2: runs[-1][1] = l
                else: runs.append([l, l])
            big = ["%d-%d" % (a0, b0) for a0, b0 in runs if b0 - a0 >= 3]
            if big: rep.append("    uncovered blocks: " + " ".join(big[:60]))
        open(os.path.join(ROOT, "coverage", pid + ".txt"), "w").write("\n".join(rep) + "\n")
        print(pid, "written", flush=True)

if __name__ == "__main__":
    main()
