"""PROPS["C20"] — linearisations relax (or restrict) the nonlinear system on the box.

Merge into props.py with:   from props_C20 import ENTRY as _C20; PROPS["C20"] = _C20
"""

_NONTRIVIAL = ("ok rows-certified", "ok unsat-certified", "ok restriction-certified", "ok duality-certified",
               "ok feasible-satisfies-rows", "ok rows-imply-feasible", "ok fixed-rows-identical")


def _nontrivial(line, verdict):
    return " ".join(verdict.split(" ")[:2]) in _NONTRIVIAL


def _workloads(tier, seed):
    q = tier == "quick"
    full = [] if q else ["full"]
    k = 1 if q else 10
    w = [
        ("xt", "xt", 1500),         # LinearizerXTaylor on systems (<=, <, >=, >, =; vector constraints; normalized systems)
        ("xtext", "xtext", 1000),    # ... on extended systems carrying the goal
        ("compo", "compo", 1000),    # LinearizerCompo: XTaylor+XTaylor, XTaylor+Fixed, Fixed+XTaylor, nested
        ("xtx", "xtx", 500),        # structured: sqrt vanishing on a face of the box (defined, not differentiable)
        ("fixed", "fixed", 500),    # LinearizerFixed
        ("dual", "dual", 1000),     # LinearizerDuality on normalized systems
        ("dualx", "dualx", 400),    # structured: pole at the midpoint, unbounded slope, wide boxes (rounding of the coefficients), thick linear coefficients
    ]
    return [{"harness": "h_lin", "tag": tag, "args": [wl, seed, n * k] + full} for tag, wl, n in w]


ENTRY = {
    "modules": ["IbexProofs.Props.C20"],
    "harnesses": ["h_lin"],
    "workloads": _workloads,
    "nontrivial": _nontrivial,
    "rule": "random systems with a planted feasible point (1-4 variables, 1-3 constraints <=, <, >=, >, =, some vector-valued, some with "
            "sqrt / abs / max / min / sign / chi / division / applied functions; constants chosen so that constraints are often ACTIVE at "
            "the planted point), used as plain System, NormalizedSystem or ExtendedSystem (goal); 3-4 boxes each: planted point on a "
            "face / at a corner, degenerate components, half-bounded components, very wide components, boxes away from the planted "
            "point (infeasible); LinearizerXTaylor in RELAX / RESTRICT with INF / SUP / RANDOM / RANDOM_OPP corners (RNG seeded), TAYLOR / "
            "HANSEN slopes, LP tolerances 0, 1e-9, 1e-6, 1/8, both linearize entry points, optional previous call on another box; "
            "LinearizerCompo (XTaylor+XTaylor, XTaylor+Fixed, Fixed+XTaylor, nested), LinearizerFixed, LinearizerDuality (bounded boxes) "
            "plus structured families (sqrt vanishing on a face of the box; pole at the midpoint; unbounded slopes; very wide boxes with "
            "slopes of different magnitudes; 'linear' constraints with thick coefficients). The rows are RECORDED from the real code by the "
            "'none' LPSolver (hook H1). Per call: one certificate line (all finite corners x {Hansen, Taylor} expansions from the public "
            "hansen_matrix / jacobian / eval_vector) + 10-25 exact point lines (planted point, corners, grid points, bisection towards the "
            "boundary of the feasible set, points on and next to the rows, points satisfying all rows). Non-trivial = certified call with "
            "rows / certified infeasibility, exactly feasible point checked against >= 1 row, point satisfying all rows found feasible; "
            "distinct = distinct lines",
    "assumptions": [
        "correspondence is sampled (systems, boxes, configurations, points); on every generated call the recorded rows go through the verified "
        "certificate checker AND the exact point rules",
        "the certificate theorems take as hypotheses the contracts of C02 (eval_vector encloses g at the expansion point and over the box) and "
        "C08 (hansen_matrix / jacobian rows are slope enclosures: slopeEncl_of_derivatives reduces this to enclosures of the partial derivatives)",
        "RESTRICT mode: strict inequalities are read non-strictly (a restriction guarantees g <= 0; strictness would need a positive LP "
        "tolerance that survives the rounding of b - tolerance); a return value -1 in RESTRICT mode is 'no restriction available' (no claim)",
        "LinearizerDuality is driven on bounded boxes only (as its only caller LoupFinderDuality does), LP bounds: x in the box, auxiliary variables <= 0",
        "exact feasibility is decided for rational operators (+ - * / sqr pow abs max min sign chi floor ceil, sqrt on perfect squares); points "
        "where the system is not exactly evaluable are skipped ('undefined-or-unsupported')",
        "BxpSystemCache paths are dead code in the pinned tree (cache=NULL) and are not exercised",
    ],
    "trusted": ["hook H1 (lp_lib_wrapper/none: rows recorded instead of ibex_error)", "expr_io.h dumper of sys.f_ctrs",
                "harness glue: conversion of (row, CmpOp, rhs) to lo <= a.x <= hi, enumeration of the finite corners"],
    "technique": "Lean 4 proofs (first-order row theorems with sign cases for any expansion point; exact range of a linear form over a box; "
                 "verified certificate checkers relaxCert / restrictCert / dualCert: accepted => property for ALL real points given slope "
                 "and value enclosures; mean-value bridge to C08) + rows recorded from the real linearizers checked by the certificates and by "
                 "exact rational point rules",
    "level_text": "Kernel-checked: relax_row_valid / restrict_row_valid (any expansion point, coefficients chosen by the side of the box, safe "
                  "right-hand side); the model row XTaylor.row is valid for every corner (model_row_relax_valid, model_row_restrict_valid); "
                  "unsat_only_if_infeasible and dropped_row_redundant for the quick a.[x] tests (exact min / max of a linear form over a possibly "
                  "unbounded box); relax_call_sound / restrict_call_sound / duality_call_sound: a certificate line accepted by the driver implies "
                  "the property for all real points of the box (all dimensions), given the C02/C08 contracts of the expansions; "
                  "slopeEncl_of_derivatives derives the slope hypothesis from derivative enclosures (mean value theorem, C08.hansen_slope); "
                  "compositions and fixed rows; block_row_iff_flat_row for the duality rows. Every call of the real linearizers generated by the "
                  "harness is submitted to these checkers and, independently, to the exact point rules.",
    "level_note": "Trusted: Lean kernel + Mathlib (axioms propext/Classical.choice/Quot.sound); hook H1, dumper, harness/driver glue; the "
                  "correspondence is sampled. Genuine defects found on the pinned tree (see C20_proposed_fixes.diff): LinearizerXTaylor "
                  "RELAX+TAYLOR reports infeasibility (-1) when the Jacobian is empty although the constraint is defined (sqrt at 0); "
                  "LinearizerXTaylor hands rows with NaN coefficients / right-hand sides to the LP when one entry of the slope row is empty; "
                  "LinearizerDuality: returns 0 (no row) when a constraint cannot be evaluated at the midpoint, rows with infinite / NaN "
                  "coefficients for unbounded or partially empty slopes, coefficient of the auxiliary variable rounded DOWN, no auxiliary row "
                  "for 'linear' constraints whose coefficient is a thick interval.",
}
