#!/usr/bin/env python3
"""Orchestrator: python3 /verif/check.py <Cxx> [--tier quick|thorough] [--replay FILE]

One run = incremental build of /repo (hooks on) -> harness build -> lake build of
the property's proof module + driver -> axiom audit -> correspondence workloads
(harness lines piped to the Lean driver) -> evidence / replay / known findings.
"""
import sys, os, json, subprocess, time, re, hashlib, shutil

ROOT = os.path.dirname(os.path.abspath(__file__))
REPO = os.environ.get("VERIF_REPO", "/repo")
BUILD = os.environ.get("VERIF_BUILD", os.path.join(ROOT, ".build"))
IBEX_B = os.path.join(BUILD, "ibex")
LEAN = os.path.join(ROOT, "lean")
DRIVER = os.path.join(LEAN, ".lake", "build", "bin", "driver")
ALLOWED_AXIOMS = {"propext", "Classical.choice", "Quot.sound"}
NCPU = os.cpu_count() or 4

sys.path.insert(0, ROOT)
from props import PROPS  # per-property configuration


def sh(cmd, cwd=None, timeout=None, env=None, inp=None):
    p = subprocess.run(cmd, shell=isinstance(cmd, str), cwd=cwd, stdout=subprocess.PIPE,
                       stderr=subprocess.STDOUT, timeout=timeout, env=env, input=inp, text=True)
    return p.returncode, p.stdout


class Fail(Exception):
    pass


# --------------------------------------------------------------------------- builds
def third_party_hash():
    """the interval library is unpacked, patched and built when cmake CONFIGURES the tree: ninja alone does not see a change of
    these files (archives, patches, lists of the third-party directories)"""
    h = hashlib.sha256()
    for sub in ("interval_lib_wrapper", "lp_lib_wrapper"):
        for dirpath, dirs, files in sorted(os.walk(os.path.join(REPO, sub))):
            dirs.sort()
            if os.sep + "3rd" + os.sep in dirpath + os.sep and not dirpath.endswith("3rd"):
                continue            # (unpacked copies inside the source tree, if any)
            for fn in sorted(files):
                if fn.endswith((".patch", ".tar.gz", ".tgz", ".zip", "CMakeLists.txt", ".cmake")):
                    fp = os.path.join(dirpath, fn)
                    h.update(fn.encode()); h.update(open(fp, "rb").read())
    return h.hexdigest()


def build_repo(log):
    os.makedirs(BUILD, exist_ok=True)
    stamp = os.path.join(BUILD, "third_party.sha256")
    cur = third_party_hash()
    if os.path.exists(os.path.join(IBEX_B, "build.ninja")) and (not os.path.exists(stamp) or open(stamp).read().strip() != cur):
        # changed (or unknown) third-party sources: configure and build from scratch
        shutil.rmtree(IBEX_B, ignore_errors=True)
        log.append(("third-party sources changed: full rebuild", 0))
    if not os.path.exists(os.path.join(IBEX_B, "build.ninja")):
        rc, out = sh(["cmake", "-G", "Ninja", "-S", REPO, "-B", IBEX_B, "-DCMAKE_BUILD_TYPE=Release",
                      "-DCMAKE_CXX_FLAGS=-Wno-error -DIBEX_VERIF_HOOKS", "-DINTERVAL_LIB=gaol", "-DLP_LIB=none"])
        log.append(("cmake", rc))
        if rc != 0:
            raise Fail("cmake configure failed:\n" + out[-3000:])
    rc, out = sh(["ninja", "-C", IBEX_B, "ibex"])
    if rc != 0:
        # a changed CMakeLists may need a re-configure
        raise Fail("build of /repo failed:\n" + out[-3000:])
    open(stamp, "w").write(cur)
    return out


def includes():
    txt = open(os.path.join(IBEX_B, "build.ninja")).read()
    m = re.search(r"ibex_Interval\.cpp\.o:.*?\n((?:  .*\n)+)", txt)
    inc = re.search(r"INCLUDES = (.*)", m.group(1)).group(1)
    return inc.split()


def libs():
    g = os.path.join(IBEX_B, "interval_lib_wrapper", "gaol")
    return [os.path.join(IBEX_B, "src", "libibex.a"),
            os.path.join(g, "gaol-4.2.3alpha0-build", "libgaol.a"),
            os.path.join(g, "mathlib-2.1.1-build", "libultim.a"), "-lmpfr", "-lgmp", "-ldl"]


def build_harness(name):
    src = os.path.join(ROOT, "harness", name + ".cpp")
    out = os.path.join(BUILD, name)
    deps = [src, os.path.join(ROOT, "harness", "common.h"), libs()[0]]
    extra = [os.path.join(ROOT, "harness", f) for f in os.listdir(os.path.join(ROOT, "harness")) if f.endswith(".h")]
    deps += extra
    if os.path.exists(out) and all(os.path.getmtime(out) >= os.path.getmtime(d) for d in deps):
        return out
    cmd = ["g++", "-O1", "-std=gnu++11", "-msse3", "-frounding-math", "-DIBEX_VERIF_HOOKS", "-Wno-deprecated",
           "-w"] + includes() + ["-I" + os.path.join(ROOT, "harness"), src, "-o", out] + libs()
    rc, o = sh(cmd)
    if rc != 0:
        raise Fail("harness %s does not compile against the current tree:\n%s" % (name, o[-3000:]))
    return out


def lake_build(targets):
    rc, out = sh(["lake", "build"] + targets, cwd=LEAN)
    return rc, out


# --------------------------------------------------------------------------- audit
def strip_comments(s):
    s = re.sub(r"/-.*?-/", "", s, flags=re.S)
    s = re.sub(r"--.*", "", s)
    return s


def theorems_of(module):
    path = os.path.join(LEAN, module.replace(".", "/") + ".lean")
    s = strip_comments(open(path).read())
    ns = None
    names = []
    cur = []
    for line in s.splitlines():
        m = re.match(r"\s*namespace\s+(\S+)", line)
        if m:
            cur.append(m.group(1))
        m = re.match(r"\s*end\s+(\S+)", line)
        if m and cur and cur[-1] == m.group(1):
            cur.pop()
        m = re.match(r"\s*(?:@\[[^\]]*\]\s*)?theorem\s+(\S+)", line)
        if m:
            names.append(".".join(cur + [m.group(1)]))
    return names


def audit(modules):
    """returns (obligations, discharged, axioms_seen, problems)"""
    problems = []
    # 1. grep the whole Lean tree for escape hatches
    bad = re.compile(r"\b(sorry|admit|native_decide|bv_decide|implemented_by|unsafe)\b|^\s*axiom\s|maxHeartbeats\s+0", re.M)
    for d, _, fs in os.walk(LEAN):
        if ".lake" in d:
            continue
        for f in fs:
            if f.endswith(".lean"):
                txt = strip_comments(open(os.path.join(d, f)).read())
                for m in bad.finditer(txt):
                    problems.append("forbidden construct %r in %s" % (m.group(0).strip(), os.path.relpath(os.path.join(d, f), LEAN)))
    names = []
    for mod in modules:
        names += [(mod, n) for n in theorems_of(mod)]
    if not names:
        return 0, 0, [], problems + ["no theorem found"]
    src = "\n".join("import %s" % m for m in modules) + "\n" + "\n".join("#print axioms %s" % n for _, n in names) + "\n"
    tmp = os.path.join(BUILD, "audit_%s.lean" % hashlib.md5(src.encode()).hexdigest()[:10])
    open(tmp, "w").write(src)
    rc, out = sh(["lake", "env", "lean", tmp], cwd=LEAN)
    ok = 0
    seen = set()
    # parse: 'X' depends on axioms: [a, b]   |   'X' does not depend on any axioms
    dep = {}
    for m in re.finditer(r"^'([^\n]+)' depends on axioms: \[([^\]]*)\]", out, flags=re.M):
        dep[m.group(1)] = {a.strip() for a in m.group(2).replace("\n", " ").split(",") if a.strip()}
    for m in re.finditer(r"^'([^\n]+)' does not depend on any axioms", out, flags=re.M):
        dep[m.group(1)] = set()
    for mod, n in names:
        if n not in dep:
            problems.append("theorem %s: no axiom report (does not check)" % n)
            continue
        extra = dep[n] - ALLOWED_AXIOMS
        seen |= dep[n]
        if extra:
            problems.append("theorem %s depends on non-standard axioms %s" % (n, sorted(extra)))
        else:
            ok += 1
    try:
        os.remove(tmp)
    except OSError:
        pass
    return len(names), ok, sorted(seen), problems


# --------------------------------------------------------------------------- workloads
def run_workload(hbin, args, tag, extra_env=None):
    """run harness workload, pipe to driver, return list of (line, verdict)"""
    os.makedirs(os.path.join(BUILD, "runs"), exist_ok=True)
    lines_path = os.path.join(BUILD, "runs", tag + ".lines")
    out_path = os.path.join(BUILD, "runs", tag + ".out")
    env = dict(os.environ)
    if extra_env:
        env.update(extra_env)
    with open(lines_path, "w") as f:
        p = subprocess.run([hbin] + [str(a) for a in args], stdout=f, stderr=subprocess.PIPE, text=True, env=env)
    if p.returncode != 0:
        raise Fail("harness %s %s exited with %d: %s" % (hbin, args, p.returncode, p.stderr[-2000:]))
    # the driver is a pure function of its input: when it fails (killed from outside, exec failure under load) it is run
    # again; a deterministic failure fails three times and is reported with its exit status
    for attempt in range(3):
        with open(lines_path) as fi, open(out_path, "w") as fo:
            p = subprocess.run([DRIVER], stdin=fi, stdout=fo, stderr=subprocess.PIPE, text=True)
        if p.returncode == 0:
            break
        time.sleep(5 * (attempt + 1))
    if p.returncode != 0:
        raise Fail("driver failed (exit status %d): %s" % (p.returncode, p.stderr[-2000:]))
    lines = open(lines_path).read().splitlines()
    outs = open(out_path).read().splitlines()
    if len(lines) != len(outs):
        raise Fail("driver produced %d verdicts for %d lines" % (len(outs), len(lines)))
    return list(zip(lines, outs))


def load_known():
    p = os.path.join(ROOT, "known_findings.json")
    if os.path.exists(p):
        return json.load(open(p))
    return {"findings": [], "fixed": []}


def _itv(tok):
    if tok == "E":
        return None
    l, h = tok.split(":")
    import struct
    f = lambda x: struct.unpack(">d", bytes.fromhex(x))[0]
    return (f(l), f(h))


def _strict_sign(i):
    return i is not None and (i[0] > 0 or i[1] < 0)


def _straddles(i):
    return i is not None and i[0] < 0 < i[1]


def pred_gaol_div_rel_M(line):
    """gaol::div_rel(K,J,I) is reached with K of strict sign and J straddling 0 (cases 'N1 M' / 'P1 M')"""
    try:
        lhs, rhs = line.split(" => ")
        t = lhs.split(" ")
        o = rhs.split(" ")
        if t[0] != "bwd2" or t[1] not in ("mul", "div"):
            return False
        y, x1, x2 = _itv(t[2]), _itv(t[3]), _itv(t[4])
        x1p = _itv(o[0]) if o[0] != "E" else None
        if t[1] == "mul":   # div_rel(y,x2,x1) then div_rel(y,x1',x2)
            return _strict_sign(y) and (_straddles(x2) or _straddles(x1) or _straddles(x1p))
        # bwd_div: x1 &= y*x2 ; bwd_mul(x1, tmp=y, x2): div_rel(x1,x2,y) then div_rel(x1,tmp',x2)
        return (_strict_sign(x1) or _strict_sign(x1p)) and (_straddles(x2) or _straddles(y))
    except Exception:
        return False


def pred_ctckeep_libm(line):
    """ctckeep line whose constraints contain a libm-based hyperbolic function of gaol (4th token) and where the planted point is
    lost by a hair: the output is empty or misses the point by at most 1024 floats in every component (a wrong contraction step
    removes far more; those are still reported)"""
    import struct
    try:
        lhs, out = line.split(" => ")
        t = lhs.split(" ")
        if t[0] != "ctckeep" or len(t) != 5 or t[4] == "-":
            return False
        if out.strip() == "E":
            return True
        def dbl(h): return struct.unpack(">d", bytes.fromhex(h))[0]
        def ordv(h):
            i = int(h, 16)
            return -(i & 0x7fffffffffffffff) if i >> 63 else i
        pt = t[3].split(";"); comps = out.strip().split(";")
        if len(pt) != len(comps): return False
        for ph, c in zip(pt, comps):
            if c == "E": return True
            lo, hi = c.split(":")
            if dbl(lo) <= dbl(ph) <= dbl(hi): continue
            gap = min(abs(ordv(ph) - ordv(lo)), abs(ordv(ph) - ordv(hi)))
            if gap > 1024: return False
        return True
    except Exception:
        return False

PREDICATES = {"gaol_div_rel_M": pred_gaol_div_rel_M, "ctckeep_libm": pred_ctckeep_libm}


def match_known(pid, line, known, verdict=""):
    for k in known.get("findings", []):
        if k["property"] != pid:
            continue
        if "verdict_match" in k and not re.search(k["verdict_match"], verdict):
            continue
        if re.search(k["match"], line):
            if "pred" in k and not PREDICATES[k["pred"]](line):
                continue
            if "max_ulps" in k:
                from ulps import excess_ulps
                e = excess_ulps(line)
                if e is None or e > k["max_ulps"]:
                    continue
            return k
    return None


# --------------------------------------------------------------------------- main
def main():
    if len(sys.argv) < 2:
        print(__doc__)
        return 2
    pid = sys.argv[1]
    tier = os.environ.get("VERIF_TIER", "quick")
    replay = None
    a = sys.argv[2:]
    while a:
        if a[0] == "--tier":
            tier = a[1]; a = a[2:]
        elif a[0] == "--replay":
            replay = a[1]; a = a[2:]
        else:
            a = a[1:]
    seed = int(os.environ.get("VERIF_SEED", "1"))
    cfg = PROPS[pid]
    t0 = time.time()
    OUT = os.environ.get("VERIF_OUT", ROOT)   # (experiments on seeded defects write elsewhere)
    os.makedirs(os.path.join(OUT, "evidence"), exist_ok=True)
    os.makedirs(os.path.join(OUT, "replays"), exist_ok=True)
    known = load_known()
    violations = []      # (what, replay_dict, found_input: bool)
    known_hits = {}
    log = []
    stats = {"evaluations": 0, "verdicts": {}, "by_op": {}}
    nontrivial = set()
    samples = []
    obligations = discharged = 0
    axioms = []
    broken = []          # names of proof obligations / correspondences that no longer check

    try:
        build_repo(log)
        # translators (regenerate IbexGen from /repo) -------------------------------
        for tr in cfg.get("translators", []):
            rc, out = sh([sys.executable, os.path.join(ROOT, "translate", tr), REPO, os.path.join(LEAN, "IbexGen")])
            if rc != 0:
                broken.append("translator %s: %s" % (tr, out.strip()[-500:]))
        hbins = {h: build_harness(h) for h in cfg.get("harnesses", [])}
        # Lean build ---------------------------------------------------------------
        rc, out = lake_build(["driver"])
        if rc != 0:
            raise Fail("driver does not build:\n" + out[-3000:])
        mods = cfg["modules"]
        rc, out = lake_build(mods)
        if rc != 0:
            errs = re.findall(r"error: ([^\n]*)", out)
            broken.append("lake build %s failed: %s" % (" ".join(mods), "; ".join(errs[:6])))
        obligations, discharged, axioms, problems = audit(mods) if rc == 0 else (len(sum([theorems_of(m) for m in mods], [])), 0, [], [])
        broken += problems
        if tier == "thorough" and rc == 0:
            for m in mods:
                rc2, out2 = sh(["lake", "env", "leanchecker", m], cwd=LEAN)
                if rc2 != 0:
                    broken.append("leanchecker %s: %s" % (m, out2.strip()[-400:]))
        # correspondence workloads -------------------------------------------------
        wls = cfg["workloads"](tier, seed)
        if replay:
            # replay of a recorded violation: (1) the recorded line is judged again by the driver (model side);
            # (2) the workload it came from is run again with the recorded seed and tier on the CURRENT tree and the
            # line with the same inputs is looked up: what the implementation answers now is judged too.
            rp = json.load(open(replay))
            if rp.get("kind") != "failing-input" or "line" not in rp:
                print("replay: %s records no failing input (%s); re-run the check itself: python3 %s %s" % (replay, rp.get("kind"), __file__, pid))
                return 1
            p = subprocess.run([DRIVER], input=rp["line"] + "\n", stdout=subprocess.PIPE, text=True)
            v_old = p.stdout.strip()
            print("recorded line, judged now : %s" % v_old[:300])
            rseed, rtier = rp.get("seed", seed), rp.get("tier", tier)
            lhs = rp["line"].split(" => ")[0]
            status = "input-not-regenerated"
            for w in cfg["workloads"](rtier, rseed):
                if w["tag"] != rp.get("workload"):
                    continue
                for line, verdict in run_workload(hbins[w["harness"]], w["args"], "%s_%s_replay" % (pid, w["tag"]), w.get("env")):
                    if line.split(" => ")[0] == lhs:
                        print("implementation answers now: %s" % line.split(" => ")[1][:300])
                        print("judged                    : %s" % verdict[:300])
                        status = "still-failing" if not verdict.startswith("ok") else "passes-now"
                        break
            print("replay: %s" % status)
            if status == "still-failing" or (status == "input-not-regenerated" and not v_old.startswith("ok")):
                print("VIOLATION property=%s replay=%s" % (pid, replay))
                return 1
            return 0
        for w in wls:
            res = run_workload(hbins[w["harness"]], w["args"], "%s_%s" % (pid, w["tag"]), w.get("env"))
            # consequences of a known finding: a failing line whose key token (the last input token, e.g. the id of the
            # solver run) is the key of a line matched by the finding itself, and which matches the finding's
            # "consequences" patterns, is the same finding seen downstream (e.g. the lost solution of that very run)
            cause_keys = {}
            for line, verdict in res:
                if not verdict.startswith("ok"):
                    k = match_known(pid, line, known, verdict)
                    if k is not None and "consequences" in k:
                        cause_keys.setdefault(k["id"], set()).add(line.split(" => ")[0].split(" ")[-1])
            def consequence_of_known(line, verdict):
                for k in known.get("findings", []):
                    c = k.get("consequences")
                    if k["property"] != pid or not c or k["id"] not in cause_keys:
                        continue
                    if re.search(c["match"], line) and re.search(c["verdict_match"], verdict) and line.split(" => ")[0].split(" ")[-1] in cause_keys[k["id"]]:
                        return k
                return None
            for line, verdict in res:
                # lines of a shared workload that decide ANOTHER property's statement (e.g. the completeness log of a resumed
                # search, judged by C05/C18, inside the verdict check C06) are not judged here
                if w.get("out_of_scope") and re.match(w["out_of_scope"], line):
                    stats["out_of_scope"] = stats.get("out_of_scope", 0) + 1
                    continue
                stats["evaluations"] += 1
                op = line.split(" ", 1)[0]
                _t = verdict.split(" ")
                v = _t[0] + (" " + _t[1] if verdict.startswith("ok ") and len(_t) > 1 else "")
                # keep the words that say how a claim was decided (certified / uncertified / exact arithmetic / known zero)
                v += "".join(" " + w for w in _t[2:6] if re.search(r"certified|exact-arithmetic|existence-by|subdivided|loop-shaped|other-shape", w))
                stats["verdicts"][v] = stats["verdicts"].get(v, 0) + 1
                stats["by_op"][op] = stats["by_op"].get(op, 0) + 1
                if verdict.startswith("ok"):
                    if cfg["nontrivial"](line, verdict):
                        nontrivial.add(hashlib.md5(line.encode()).digest()[:8])
                    if len(samples) < 12 and (stats["by_op"][op] in (1, 50)):
                        samples.append({"line": line[:400], "verdict": verdict[:200]})
                    continue
                k = match_known(pid, line, known, verdict) or consequence_of_known(line, verdict)
                if k is not None:
                    known_hits[k["id"]] = k
                    continue
                if len(violations) < 20:
                    violations.append((verdict, {"property": pid, "kind": "failing-input", "workload": w["tag"],
                                                 "line": line, "verdict": verdict, "seed": seed, "tier": tier,
                                                 "how_to_replay": "echo '<line>' | %s ; the harness recomputes the right-hand side with: %s replay" % (DRIVER, hbins[w["harness"]])}, True))
        # broken obligations without failing input --------------------------------------
        if broken and not violations:
            violations.append(("broken obligations", {"property": pid, "kind": "no-failing-input-found",
                                                     "broken": broken,
                                                     "searched": {"evaluations": stats["evaluations"], "tier": tier, "seed": seed}}, False))
        elif broken:
            for v in violations:
                v[1]["broken_obligations"] = broken
    except Fail as e:
        broken.append(str(e))
        violations.append(("infrastructure", {"property": pid, "kind": "no-failing-input-found", "broken": broken}, False))

    # report ---------------------------------------------------------------------------
    for k in known_hits.values():
        print("KNOWN-FINDING: property=%s %s" % (pid, k["what"]))
    rc = 0
    for i, (what, rp, found) in enumerate(violations):
        path = os.path.join(OUT, "replays", "%s-%d-%d.json" % (pid, seed, i))
        json.dump(rp, open(path, "w"), indent=1)
        print("VIOLATION property=%s replay=%s%s" % (pid, path, "" if found else " no-failing-input-found"))
        rc = 1
    wall = time.time() - t0
    ev = {
        "property_id": pid, "tier": tier, "seed": seed, "level": "proof",
        "coverage": {
            "obligations": obligations, "discharged": discharged,
            "checker_cmd": "cd /verif/lean && lake build %s && lake env lean <audit file with #print axioms of every theorem in the module(s)>" % " ".join(cfg["modules"]),
            "trusted_base": ["Lean 4.33 kernel", "Mathlib v4.33 (library of proved facts)",
                             "axioms used: " + ", ".join(axioms),
                             "C++ harness + line protocol + Lean driver (correspondence is sampled, not proved)"] + cfg.get("trusted", []),
            "evaluations": stats["evaluations"], "distinct_nontrivial": len(nontrivial),
            "rule": cfg.get("rule", ""), "samples": samples,
            "verdict_histogram": stats["verdicts"], "per_op": stats["by_op"],
            "theorems": sum([theorems_of(m) for m in cfg["modules"]], []),
            "known_findings_hit": sorted(known_hits.keys()),
            "broken": broken,
        },
        "assumptions": cfg.get("assumptions", []),
        "wall_s": round(wall, 2), "violations": len(violations),
    }
    json.dump(ev, open(os.path.join(OUT, "evidence", pid + ".json"), "w"), indent=1)
    print("%s tier=%s seed=%d: obligations %d/%d, %d evaluations (%d distinct non-trivial), %d violation(s), %d known finding(s), %.1fs"
          % (pid, tier, seed, discharged, obligations, stats["evaluations"], len(nontrivial), len(violations), len(known_hits), wall))
    return rc


if __name__ == "__main__":
    sys.exit(main())
