#!/usr/bin/env python3
"""Regression over the stored seeds: every seeded change must still be detected by the checks recorded in its meta.json.
   python3 regress_seeds.py [slot] [k/n]     (slot: suffix of the scratch worktree; k/n: this process handles seeds i with i % n == k)
   Results: /tmp/regress_<slot>.json   (seed -> {property: violations})"""
import sys, os, json, glob, subprocess
ROOT = os.path.dirname(os.path.abspath(__file__))
slot = sys.argv[1] if len(sys.argv) > 1 else ""
k, n = (int(x) for x in sys.argv[2].split("/")) if len(sys.argv) > 2 else (0, 1)
seeds = sorted(glob.glob(os.path.join(ROOT, "seeded", "*", "meta.json")))
out = {}
for i, mp in enumerate(seeds):
    if i % n != k: continue
    d = os.path.dirname(mp); sid = os.path.basename(d); m = json.load(open(mp))
    props = [p for p, v in m.get("detected_by", {}).items() if isinstance(v, dict) and v.get("violations", 0) > 0]
    if not props or (slot and "C10" in props): continue          # (C10 regenerates a Lean file in the shared tree: unslotted process only)
    if os.environ.get("REGRESS_ONLY") and os.environ["REGRESS_ONLY"] not in props: continue
    env = dict(os.environ, SEEDTEST_FAST="1", SEEDTEST_SLOT=slot)
    p = subprocess.run([sys.executable, os.path.join(ROOT, "seedtest.py"), d] + props, env=env, stdout=subprocess.PIPE, stderr=subprocess.STDOUT, text=True)
    try:
        t = p.stdout; r = json.loads(t[t.index("{"):]); out[sid] = {q: c["violations"] for q, c in r["checks"].items()}
    except Exception as e:
        out[sid] = {"error": p.stdout[-300:]}
    print(sid, out[sid], flush=True)
    json.dump(out, open("/tmp/regress_%s.json" % (slot or "main"), "w"), indent=1)
