#!/usr/bin/env python3
"""Regenerate the generated sections of DESIGN.md (between <!-- BEGIN:x --> / <!-- END:x --> markers) from
known_findings.json, seeded/*/meta.json, props.py and the Lean sources."""
import json, os, re, glob, subprocess
ROOT = os.path.dirname(os.path.abspath(__file__))
import sys; sys.path.insert(0, ROOT)
from props import PROPS
import check

def section_fixed():
    k = json.load(open(os.path.join(ROOT, "known_findings.json")))
    rows = []
    for e in k["fixed"]:
        m = re.match(r"fixed: property=(\S+) (\S+) (.*)", e)
        if m: rows.append((m.group(1), m.group(2), m.group(3)))
    rows.sort()
    out = ["%d repairs, one commit each (message starts with `fix:`), found by the check of the property named first.\n" % len(rows),
           "| property | commit | what failed |", "|---|---|---|"]
    for p, c, w in rows: out.append("| %s | `%s` | %s |" % (p, c, w.replace("|", "\\|")))
    return "\n".join(out)

def section_findings():
    k = json.load(open(os.path.join(ROOT, "known_findings.json")))
    out = ["| id | property | matched by | what fails |", "|---|---|---|---|"]
    for f in k["findings"]:
        out.append("| %s | %s | line `%s`%s | %s |" % (f["id"], f["property"], f["match"].replace("|", "\\|"),
                   (", verdict `%s`" % f["verdict_match"][:60].replace("|", "\\|") + "…") if f.get("verdict_match") else "", f["what"].replace("|", "\\|")))
    return "\n".join(out)

def section_seeds():
    out = ["| seed | change (summary) | tests pass / demo fails with / passes without | detected by (quick tier, seed 1) |", "|---|---|---|---|"]
    for d in sorted(glob.glob(os.path.join(ROOT, "seeded", "*", "meta.json"))):
        sid = os.path.basename(os.path.dirname(d)); m = json.load(open(d))
        c = m.get("confirmed", {})
        tp = c.get("tests_pass_with_patch", c.get("existing_tests_pass_with_patch(ninja check, 62 tests)", m.get("tests_pass")))
        dw = c.get("demo_with_patch", c.get("demo_with_patch_exit", c.get("demo_exit_with_patch", 1)))
        dwo = c.get("demo_without_patch", c.get("demo_without_patch_exit", c.get("demo_exit_without_patch", 0)))
        conf = "%s / %s / %s" % ("yes" if tp else "?", "yes" if dw not in (0, None) else "?", "yes" if dwo == 0 else "?")
        det = m.get("detected_by", {})
        if not det and "detected_by_quick_check_violations" in m:
            det = {p: {"violations": v, "first": m.get("first_violation", {}).get(p, "")} for p, v in m["detected_by_quick_check_violations"].items()}
            hist = m.get("detection_history", [])
            if len(hist) > 1 and not m.get("strengthened"):
                first = list(hist[0].values())[0]
                if all(v == 0 for v in first.values()): m["strengthened"] = "missed in the first run(s); see detection_history in meta.json"
        if isinstance(det, dict):
            parts = []
            for p, v in det.items():
                if isinstance(v, dict): parts.append("%s: %s" % (p, ("%d violations — %s" % (v["violations"], v["first"][:70].replace("|", "\\|"))) if v["violations"] else "not detected"))
                else: parts.append("%s: %s" % (p, str(v)[:110].replace("|", "\\|")))
            dets = "; ".join(parts)
        else: dets = str(det)[:160]
        if m.get("strengthened"): dets += " (**strengthened**: %s)" % m["strengthened"]
        out.append("| %s | %s | %s | %s |" % (sid, m.get("summary", "")[:260].replace("|", "\\|").replace("\n", " "), conf, dets))
    return "\n".join(out)

def section_claims():
    out = ["| property | status | Lean modules (theorems audited) | harness / workloads | evidence of the last committed run |", "|---|---|---|---|---|"]
    ids = ["C%02d" % i for i in range(1, 21)]
    for pid in ids:
        e = PROPS.get(pid)
        if not e or e.get("claimed") is False:
            out.append("| %s | in progress (not claimed; `not_applicable`: check not built yet) | | | |" % pid); continue
        names = []
        for mod in e["modules"]: names += check.theorems_of(mod)
        ev = ""
        p = os.path.join(ROOT, "evidence", pid + ".json")
        if os.path.exists(p):
            j = json.load(open(p)); c = j.get("coverage", {})
            ev = "%s/%s obligations, %s evaluations (%s distinct non-trivial), %s violation(s)" % (c.get("discharged"), c.get("obligations"), c.get("evaluations"), c.get("distinct_nontrivial"), (j.get("violations") if isinstance(j.get("violations"), int) else len(j.get("violations", []))))
        wl = ", ".join(sorted({w["harness"] + ":" + str(w["args"][0]) for w in e["workloads"]("quick", 1)}))
        out.append("| %s | claimed | %s (%d theorems) | %s | %s |" % (pid, ", ".join(m.replace("IbexProofs.Props.", "") for m in e["modules"]), len(names), wl, ev))
    return "\n".join(out)

def main():
    p = os.path.join(ROOT, "DESIGN.md"); s = open(p).read()
    for key, fn in (("fixed", section_fixed), ("findings", section_findings), ("seeds", section_seeds), ("claims", section_claims)):
        s = re.sub(r"(<!-- BEGIN:%s -->).*?(<!-- END:%s -->)" % (key, key), lambda m: m.group(1) + "\n" + fn() + "\n" + m.group(2), s, flags=re.S)
    k = json.load(open(os.path.join(ROOT, "known_findings.json")))
    s = re.sub(r"\*\*\d+ genuine defects repaired\*\*", "**%d genuine defects repaired**" % len(k["fixed"]), s)
    open(p, "w").write(s)

if __name__ == "__main__":
    main()
