#!/usr/bin/env python3
"""Confirm a seeded defect and run the checks against it, without touching /repo:
   python3 seedtest.py <seed dir with patch.diff demo.cpp meta.json> <property ids to run...>
   Uses a scratch worktree /tmp/seedwt (+ plain build /tmp/seedwt_plain for tests/demo, hooks build /tmp/seedwt_verif for the checks)."""
import sys, os, subprocess, json, shutil, time
seed = os.path.abspath(sys.argv[1]); props = sys.argv[2:]
SLOT = os.environ.get("SEEDTEST_SLOT", "")   # several seedtests can run side by side with different slots
WT, PLAIN, VB, OUT = "/tmp/seedwt" + SLOT, "/tmp/seedwt_plain" + SLOT, "/tmp/seedwt_verif" + SLOT, "/tmp/seedwt_out" + SLOT
def sh(cmd, **kw):
    cmd = cmd.replace("DEMOBIN", "/tmp/seed_demo" + SLOT)
    p = subprocess.run(cmd, shell=True, stdout=subprocess.PIPE, stderr=subprocess.STDOUT, text=True, **kw); return p.returncode, p.stdout
if not os.path.exists(WT):
    sh("git -C /repo worktree add -f --detach %s HEAD" % WT)
sh("git -C %s checkout -q --detach %s && git -C %s checkout -- . && git -C %s clean -fdq" % (WT, subprocess.check_output(["git","-C","/repo","rev-parse","HEAD"],text=True).strip(), WT, WT))
def configure_plain():
    if not os.path.exists(PLAIN + "/build.ninja"):
        sh('cmake -G Ninja -S %s -B %s -DCMAKE_BUILD_TYPE=Release -DCMAKE_CXX_FLAGS="-Wno-error" -DINTERVAL_LIB=gaol -DLP_LIB=none' % (WT, PLAIN))
# a patch of the third-party sources (unpacked and patched when cmake configures) needs fresh build directories
THIRD = "/3rd/" in open(seed + "/patch.diff").read()
if THIRD: shutil.rmtree(PLAIN, ignore_errors=True); shutil.rmtree("/tmp/seedwt_hooks" + SLOT, ignore_errors=True)
else: configure_plain()
res = {"seed": seed}
try: HOOKS_DEMO = json.load(open(seed + "/meta.json")).get("demo_build") == "hooks"
except Exception: HOOKS_DEMO = False
def build_demo():
    if HOOKS_DEMO:   # the demo observes the library through the guarded hooks: build it against a hooks-enabled build of the worktree
        HB = "/tmp/seedwt_hooks" + SLOT
        if not os.path.exists(HB + "/build.ninja"):
            sh('cmake -G Ninja -S %s -B %s -DCMAKE_BUILD_TYPE=Release -DCMAKE_CXX_FLAGS="-Wno-error -DIBEX_VERIF_HOOKS" -DINTERVAL_LIB=gaol -DLP_LIB=none' % (WT, HB))
        rc, out = sh("ninja -C %s ibex" % HB)
        if rc: return None, out[-500:]
        txt = open(HB + "/build.ninja").read()
        import re
        inc = re.search(r"ibex_Interval\.cpp\.o:.*?\n(?:  .*\n)*?  INCLUDES = (.*)", txt).group(1)
        rc, out = sh("g++ -O1 -std=gnu++11 -msse3 -frounding-math -w -DIBEX_VERIF_HOOKS %s %s/demo.cpp -o DEMOBIN %s/src/libibex.a %s/interval_lib_wrapper/gaol/gaol-4.2.3alpha0-build/libgaol.a %s/interval_lib_wrapper/gaol/mathlib-2.1.1-build/libultim.a -ldl" % (inc, seed, HB, HB, HB))
        if rc: return None, out[-500:]
        rc, out = sh("timeout 300 DEMOBIN"); return rc, out[-300:]
    txt = open(PLAIN + "/build.ninja").read()
    import re
    inc = re.search(r"ibex_Interval\.cpp\.o:.*?\n(?:  .*\n)*?  INCLUDES = (.*)", txt).group(1)
    rc, out = sh("g++ -O1 -std=gnu++11 -msse3 -frounding-math -w %s %s/demo.cpp -o DEMOBIN %s/src/libibex.a %s/interval_lib_wrapper/gaol/gaol-4.2.3alpha0-build/libgaol.a %s/interval_lib_wrapper/gaol/mathlib-2.1.1-build/libultim.a -ldl" % (inc, seed, PLAIN, PLAIN, PLAIN))
    if rc: return None, out[-500:]
    rc, out = sh("timeout 300 DEMOBIN"); return rc, out[-300:]
# 1. with the patch
rc, out = sh("git -C %s apply %s/patch.diff" % (WT, seed)); res["applies"] = rc == 0
if rc: print(json.dumps(res), out); sys.exit(1)
configure_plain()
FAST = bool(os.environ.get("SEEDTEST_FAST"))     # regression mode: only the checks (the seed was confirmed before)
if not FAST:
    rc, out = sh("ninja -C %s check" % PLAIN); res["tests_pass_with_patch"] = "100% tests passed" in out and "62" in out.split("100% tests passed")[-1][:40]
    res["demo_with_patch"] = build_demo()[0]
# 2. the checks, on the patched tree
os.makedirs(OUT, exist_ok=True)
env = dict(os.environ, VERIF_REPO=WT, VERIF_BUILD=VB, VERIF_OUT=OUT)
res["checks"] = {}
for pid in props:
    t0 = time.time()
    p = subprocess.run([sys.executable, "/verif/check.py", pid], env=env, stdout=subprocess.PIPE, stderr=subprocess.STDOUT, text=True, cwd="/verif")
    viol = [l for l in p.stdout.splitlines() if l.startswith("VIOLATION")]
    detail = ""
    if viol:
        try:
            rp = json.load(open(viol[0].split("replay=")[1].split(" ")[0])); detail = (rp.get("verdict", "") + " | " + rp.get("line", str(rp.get("broken", ""))))[:300]
        except Exception as e: detail = str(e)
    res["checks"][pid] = {"exit": p.returncode, "violations": len(viol), "first": detail, "wall_s": round(time.time() - t0, 1), "summary": p.stdout.strip().splitlines()[-1][:200] if p.stdout.strip() else ""}
# 3. without the patch
sh("git -C %s checkout -- ." % WT)
if THIRD: shutil.rmtree(PLAIN, ignore_errors=True); configure_plain()
if not FAST:
    rc, out = sh("ninja -C %s ibex" % PLAIN)
    res["demo_without_patch"] = build_demo()[0]
print(json.dumps(res, indent=1))
